"""C01 -- SDOF response series is the exact solution of the oscillator equation.

Spec (from the property statement): over one step of length h with linearly varying forcing f(t) = f0 + (f1-f0) t/h,
the solution of  u'' + 2 xi w u' + w^2 u = f(t),  u(0)=u0, u'(0)=v0  is

    u(t) = e^{-xi w t} (k1 cos wd t + k2 sin wd t) + alpha + beta t ,   wd = w sqrt(1 - xi^2)
    w^2 beta = (f1 - f0)/h ,  2 xi w beta + w^2 alpha = f0 ,  k1 = u0 - alpha ,  wd k2 = v0 - beta + xi w k1

(that this closed form satisfies the ODE and the initial conditions is machine-checked in Lean 4 / Mathlib, lean/SdofSpec.lean).
STEP_u / STEP_v below are its value and derivative at t = h.
"""
import z3

from pyvc.api import unit, invariant
from pyvc import terms as T
from pyvc import arrays as A
from pyvc import spec as S
from pyvc.terms import Q
from pyvc.arrays import CArr, is_arr
from pyvc.np_util import forall

SD = 'eqsig.sdof.'
R = z3.RealSort()
STEP_U = z3.Function('STEP_u', R, R, R, R, R, R, R, R)     # (xi, w, h, u0, v0, f0, f1) -> u(h)
STEP_V = z3.Function('STEP_v', R, R, R, R, R, R, R, R)     # (xi, w, h, u0, v0, f0, f1) -> u'(h)
W_CONST = Q('6.2831853')


def closed_form(xi, w, h, u0, v0, f0, f1, E, Sn, Cs, Rt):
    """u(h), u'(h) of the closed form; E = exp(-xi w h), Sn/Cs = sin/cos(wd h), Rt = sqrt(1 - xi^2)"""
    w2 = w * w
    beta = (f1 - f0) / h / w2
    alpha = (f0 - 2 * xi * w * beta) / w2
    wd = w * Rt
    k1 = u0 - alpha
    k2 = (v0 - beta + xi * w * k1) / wd
    u = E * (k1 * Cs + k2 * Sn) + alpha + beta * h
    v = E * ((-xi * w * k1 + wd * k2) * Cs + (-xi * w * k2 - wd * k1) * Sn) + beta
    return u, v


@unit('C01', 'compute_a_and_b/matches-exact-one-step-solution', functions=[SD + 'compute_a_and_b'], modes=('unbounded',), budget_ms=120000)
def propagator(V):
    st = {}

    def setup():
        xi, w, h = V.real('xi'), V.real('w'), V.real('h')
        V.assume(xi >= 0, xi < 1, w > 0, h > 0)
        st.update(xi=xi, w=w, h=h)
        return dict(xi=xi, w=w, dt=h)
    for out in V.run(SD + 'compute_a_and_b', setup):
        out.replay_info = dict(module='sdof', entry='nigam_and_jennings_response')
        if not out.no_raise():
            continue
        xi, w, h = st['xi'], st['w'], st['h']
        ok = isinstance(out.result, tuple) and len(out.result) == 2 and all(is_arr(m) and tuple(m.shape) == (2, 2) for m in out.result)
        out.prove('returns-two-2x2-matrices', ok)
        if not ok:
            continue
        a, b = out.result
        Rt = T.ssqrt(T.ssub(1, T.smul(xi, xi)))
        E = T.sexp(T.smul(T.smul(T.sneg(xi), w), h))
        arg = T.smul(T.smul(w, Rt), h)
        Sn, Cs = T.ssin(arg), T.scos(arg)
        out.assume(Rt > 0)                 # follows from 0 <= xi < 1 and sqrt's identity; proved next, then used
        units = {'u0': (1, 0, 0, 0), 'v0': (0, 1, 0, 0), 'f0': (0, 0, 1, 0), 'f1': (0, 0, 0, 1)}
        code = {'u': {'u0': a[0, 0], 'v0': a[0, 1], 'f0': T.sneg(b[0, 0]), 'f1': T.sneg(b[0, 1])},
                'v': {'u0': a[1, 0], 'v0': a[1, 1], 'f0': T.sneg(b[1, 0]), 'f1': T.sneg(b[1, 1])}}
        for nm, (u0, v0, f0, f1) in units.items():
            su, sv = closed_form(xi, w, h, Q(u0), Q(v0), Q(f0), Q(f1), E, Sn, Cs, Rt)
            # polynomial identities: proved from the few facts they need (ranges, sqrt(1-xi^2)^2 = 1-xi^2 > 0) with every
            # transcendental application generalised to an atom -- keeps the nonlinear query small and its time stable
            few = [T.sge(xi, 0), T.slt(xi, 1), T.sgt(w, 0), T.sgt(h, 0), T.sgt(Rt, 0), T.seq(T.smul(Rt, Rt), T.ssub(1, T.smul(xi, xi)))]
            out.prove_from('displacement-row-coefficient-of-%s-is-exact' % nm, few, T.seq(code['u'][nm], z3.simplify(su)), kind='ensures', atomize=True)
            out.prove_from('velocity-row-coefficient-of-%s-is-exact' % nm, few, T.seq(code['v'][nm], z3.simplify(sv)), kind='ensures', atomize=True)
    # Rt > 0 is a consequence of the sqrt identity (separate tiny obligation so that the assumption above is discharged)
    for out in V.symbolic(lambda: dict()):
        xi = V.real('xi')
        V.assume(xi >= 0, xi < 1)
        Rt = T.ssqrt(T.ssub(1, T.smul(xi, xi)))
        out.prove('sqrt(1-xi^2)-positive-for-0<=xi<1', T.sgt(Rt, 0))


# ---------------------------------------------------------------------------------------- modular contract of the callee
def ab_summary(itp, xi, w, dt):
    """Contract of compute_a_and_b used at its call site in nigam_and_jennings_response (proved by the unit above with
    STEP := the closed form): for every row r and all (u, v, f0, f1):
        a[0][0][r] u + a[0][1][r] v + b[0][0][r] (-f0) + b[0][1][r] (-f1) = STEP_u(xi, w[r], dt, u, v, f0, f1)   (same for the velocity row)."""
    w = A.to_carr(w)
    Pw = w.shape[0]
    rw = w.reader()
    k = T.fresh('kw', T.I)
    itp.oblige('compute_a_and_b.requires: 0 <= xi < 1', T.sand(T.sge(xi, 0), T.slt(xi, 1)))
    itp.oblige('compute_a_and_b.requires: dt > 0', T.sgt(dt, 0))
    itp.oblige('compute_a_and_b.requires: w > 0', T.simplies(T.sand(T.sle(0, k), T.slt(k, Pw)), T.sgt(rw(k), 0)))
    names = ['a11', 'a12', 'a21', 'a22', 'b11', 'b12', 'b21', 'b22']
    f = {n: T.fresh_fn(n, T.I, T.R) for n in names}
    r = z3.Int('abr')
    u, v, f0, f1 = z3.Reals('abu abv abf0 abf1')
    xi_, dt_ = T.to_real(xi), T.to_real(dt)
    wr = T.to_real(rw(r))
    om = z3.Real('abw')                      # the frequency argument is a separate bound variable so that the pattern is arithmetic free
    su, sv = STEP_U(xi_, om, dt_, u, v, f0, f1), STEP_V(xi_, om, dt_, u, v, f0, f1)
    c = T.ctx()
    c.fact(z3.ForAll([r, om, u, v, f0, f1], z3.Implies(z3.And(0 <= r, r < T.to_int_term(Pw), om == wr), z3.And(
        f['a11'](r) * u + f['a12'](r) * v + f['b11'](r) * (-f0) + f['b12'](r) * (-f1) == su,
        f['a21'](r) * u + f['a22'](r) * v + f['b21'](r) * (-f0) + f['b22'](r) * (-f1) == sv)),
        patterns=[z3.MultiPattern(su, f['a11'](r)), z3.MultiPattern(sv, f['a21'](r))]))
    c.assumed.append('contract of eqsig.sdof.compute_a_and_b (proved by C01/compute_a_and_b unit)')

    def mat(p):
        def get(i, j, rr):
            i, j = T.N(i), T.N(j)
            return T.N(f['%s%d%d' % (p, i + 1, j + 1)](T.to_int_term(rr)))
        return CArr.from_fn(get, (2, 2, Pw), 'float')
    return mat('a'), mat('b')


@invariant(SD + 'nigam_and_jennings_response', 1)
def nj_invariant(env, pre, k, lo, hi, Qh):
    U, Vv, acc, a, b, s = env.resp_u, env.resp_v, env.acc, env.a, env.b, env.s
    P, N = U.shape
    zero = lambda t: T.seq(t, 0)
    yield 'rows-of-a-leading-zero-period-stay-zero', Qh.forall(
        ['r', 'c'], lambda r, c: T.sand(T.sle(0, r), T.slt(r, s), T.sle(0, c), T.slt(c, N)),
        lambda r, c: T.sand(zero(U.at(r, c)), zero(Vv.at(r, c))), lambda r, c: U.at(r, c))
    yield 'zero-initial-conditions', Qh.forall(
        ['r'], lambda r: T.sand(T.sle(s, r), T.slt(r, P)), lambda r: T.sand(zero(U.at(r, 0)), zero(Vv.at(r, 0))), lambda r: U.at(r, 0))

    def rec(r, j):
        rs = T.ssub(r, s)
        tr = T.to_real
        nu = tr(a.at(0, 0, rs)) * tr(U.at(r, j)) + tr(a.at(0, 1, rs)) * tr(Vv.at(r, j)) + tr(b.at(0, 0, rs)) * tr(acc.at(j)) + tr(b.at(0, 1, rs)) * tr(acc.at(T.sadd(j, 1)))
        nv = tr(a.at(1, 0, rs)) * tr(U.at(r, j)) + tr(a.at(1, 1, rs)) * tr(Vv.at(r, j)) + tr(b.at(1, 0, rs)) * tr(acc.at(j)) + tr(b.at(1, 1, rs)) * tr(acc.at(T.sadd(j, 1)))
        return z3.And(tr(U.at(r, T.sadd(j, 1))) == nu, tr(Vv.at(r, T.sadd(j, 1))) == nv)
    if Qh.mode == 'assume':
        yield 'recurrence-holds-up-to-the-current-column', Qh.forall(
            ['r', 'j'], lambda r, j: T.sand(T.sle(s, r), T.slt(r, P), T.sle(0, j), T.slt(j, k)), rec, lambda r, j: U.at(r, T.sadd(j, 1)))
    else:
        # as a goal the same statement is split into "earlier columns are untouched" and "the column just written", which
        # spares the solver the case split inside the if-then-else of the store
        km1 = T.ssub(k, 1)
        yield 'recurrence-holds-up-to-the-current-column/earlier-columns', Qh.forall(
            ['r', 'j'], lambda r, j: T.sand(T.sle(s, r), T.slt(r, P), T.sle(0, j), T.slt(j, km1)), rec, None)
        yield 'recurrence-holds-up-to-the-current-column/column-just-written', Qh.forall(
            ['r'], lambda r: T.sand(T.sle(s, r), T.slt(r, P), T.sle(0, km1)), lambda r: rec(r, km1), None)


def _nj_setup(V, st, lead_zero, container='array'):
    def setup():
        V.itp.contracts[SD + 'compute_a_and_b'] = ab_summary
        n = V.size('n', 2)
        acc = V.array('acc', n, origin='param')
        P = V.size('P', 1)
        per = V.array('T', P, origin='param')
        dt, xi = V.real('dt'), V.real('xi')
        V.assume(dt > 0, xi >= 0, xi < 1)
        if isinstance(P, int):
            for q in range(P):
                V.assume(per[q] > 0 if not (lead_zero and q == 0) else per[q] == 0)
            if lead_zero and P < 2:
                from pyvc.api import Skip
                raise Skip()
        else:
            q = z3.Int('qT')
            lo = 1 if lead_zero else 0
            T.ctx().facts.append(z3.ForAll([q], z3.Implies(z3.And(lo <= q, q < P), T.to_z3(per.at(q)) > 0), patterns=[T.to_z3(per.at(q))]))
            if lead_zero:
                V.assume(P >= 2, per[0] == 0)
            else:
                V.assume(per[0] > 0)
        st.update(n=n, acc=acc, P=P, per=per, dt=dt, xi=xi)
        return dict(acc=acc, dt=dt, periods=per, xi=xi)
    return setup


def nj_postconditions(V, out, st, lead_zero, res):
    n, acc, P, per, dt, xi = st['n'], st['acc'], st['P'], st['per'], st['dt'], st['xi']
    ok = isinstance(res, tuple) and len(res) == 3 and all(is_arr(x) and len(x.shape) == 2 for x in res)
    out.prove('returns-three-2-D-series', ok)
    if not ok:
        return
    U, Vv, Aa = res
    for nm, x in (('displacement', U), ('velocity', Vv), ('acceleration', Aa)):
        out.prove('%s-shape-is-periods-by-samples' % nm, T.sand(T.seq(x.shape[0], P), T.seq(x.shape[1], n)))
    s = 1 if lead_zero else 0
    for r in V.idx(s, P, 'r'):
        w_r = T.sdiv(W_CONST, per[r])
        out.prove('angular-frequency-times-period-is-6.2831853', T.seq(T.smul(w_r, per[r]), W_CONST))
        out.prove('zero-initial-displacement-and-velocity', T.sand(T.seq(U[r, 0], 0), T.seq(Vv[r, 0], 0)))
        for j in V.idx(0, T.ssub(n, 1), 'j'):
            args = [T.to_real(x) for x in (xi, w_r, dt, U[r, j], Vv[r, j], acc[j], acc[T.sadd(j, 1)])]
            out.prove('displacement-advances-by-the-exact-one-step-solution', T.seq(U[r, T.sadd(j, 1)], STEP_U(*args)), hints=[STEP_U(*args), STEP_V(*args)], inst=[r, j])
            out.prove('velocity-advances-by-the-exact-one-step-solution', T.seq(Vv[r, T.sadd(j, 1)], STEP_V(*args)), hints=[STEP_U(*args), STEP_V(*args)], inst=[r, j])
        for j in V.idx(0, n, 'j2'):
            want = T.sneg(T.sadd(T.smul(T.smul(T.smul(2, xi), w_r), Vv[r, j]), T.smul(T.smul(w_r, w_r), U[r, j])))
            out.prove('third-series-is-minus(2 xi w v + w^2 u)', T.seq(Aa[r, j], want))
    if lead_zero:
        for j in V.idx(0, n, 'j0'):
            out.prove('leading-zero-period: zero displacement and velocity', T.sand(T.seq(U[0, j], 0), T.seq(Vv[0, j], 0)))
            out.prove('leading-zero-period: acceleration is the sign-flipped record', T.seq(Aa[0, j], T.sneg(acc[j])))
    out.unchanged('acc', acc)
    out.unchanged('T', per)


PI_BOUND = ('|6.2831853 - 2 pi| <= 1.2e-9 * 2 pi', None)


@unit('C01', 'nigam_and_jennings_response', functions=[SD + 'nigam_and_jennings_response'],
      cases=[dict(lead_zero=False), dict(lead_zero=True)], modes=('unbounded',), budget_ms=90000)
def nigam(V, lead_zero):
    st = {}
    for out in V.run(SD + 'nigam_and_jennings_response', _nj_setup(V, st, lead_zero)):
        out.replay_info = dict(module='sdof', entry='nigam_and_jennings_response')
        if out.ended is not None:
            out.side_conditions()
            continue
        if not out.no_raise():
            continue
        out.side_conditions()
        nj_postconditions(V, out, st, lead_zero, out.result)
    for out in V.symbolic(lambda: dict()):
        two_pi = T.smul(2, T.pi())
        out.prove('6.2831853-is-2pi-to-1.2e-9-relative', T.sle(T.sabs(T.ssub(W_CONST, two_pi)), T.smul(Q('1.2e-9'), two_pi)))


@unit('C01', 'response_series-entry-points', functions=[SD + 'response_series', 'eqsig.single.AccSignal.response_series'],
      cases=[dict(entry=e, lead_zero=z, pre='fresh') for e in ('response_series', 'AccSignal.response_series') for z in (False, True)] +
            [dict(entry='AccSignal.response_series', lead_zero=False, pre='after-an-earlier-call')],
      modes=('unbounded',), budget_ms=90000)
def entry_points(V, entry, lead_zero, pre):
    """The two public entry points return exactly the series of nigam_and_jennings_response (same postconditions).
    pre='after-an-earlier-call': the object has already answered response_series(periods, xi0) for ANY other damping xi0 and is
    now asked again with the periods it has stored (response_times not passed): the answer must be the one for the new xi."""
    st = {}
    base = _nj_setup(V, st, lead_zero)

    def setup():
        kw = base()
        if entry == 'response_series':
            return dict(motion=kw['acc'], dt=kw['dt'], periods=kw['periods'], xi=kw['xi'])
        asig = S.make_signal(V, 'AccSignal', kw['acc'], kw['dt'])
        if pre != 'fresh':
            xi0 = V.real('xi0')
            V.assume(xi0 >= 0, xi0 < 1)
            st.update(xi0=xi0, periods_arg=kw['periods'], xi_arg=kw['xi'])
            return ((asig,), {})
        return ((asig,), dict(response_times=kw['periods'], xi=kw['xi']))

    def two_calls(itp, asig):
        # the EARLIER call: only its effect on the object matters here, its series are summarised as a deterministic function
        # of (record, dt, periods, xi0) -- the contract proved by the other cases of this unit; the call under proof runs in full
        def rseries(itp_, motion, dt, periods, xi):
            pa = V.np.np_array(periods, dtype=itp.lib.builtin('float'))
            key = [motion, dt, pa, xi]
            return tuple(V.np.opaque_array('earlier_resp_series_%s' % nm, key, (pa.shape[0], st['n']), 'float',
                                           assumed='earlier response_series call summarised by its contract') for nm in ('u', 'v', 'a'))
        itp.contracts['eqsig.sdof.response_series'] = rseries
        try:
            itp.call(itp.get_attr(asig, 'response_series'), [], dict(response_times=st['periods_arg'], xi=st['xi0']))
        finally:
            del itp.contracts['eqsig.sdof.response_series']
        return itp.call(itp.get_attr(asig, 'response_series'), [], dict(xi=st['xi_arg']))
    fn = SD + 'response_series' if entry == 'response_series' else 'eqsig.single.AccSignal.response_series'
    for out in V.run(two_calls if pre != 'fresh' else fn, setup):
        out.replay_info = dict(module='sdof', entry=entry, pre=pre)
        if out.ended is not None:
            out.side_conditions()
            continue
        if not out.no_raise():
            continue
        out.side_conditions()
        nj_postconditions(V, out, st, lead_zero, out.result)


@unit('C01', 'lean/closed-form-satisfies-the-ODE', functions=[], modes=('unbounded',), tier='thorough')
def lean_lemma(V):
    """Spec-level lemma (no eqsig code involved): the closed form used as STEP satisfies u'' + 2 xi w u' + w^2 u = f0 + g t and the
    initial conditions.  Machine-checked by Lean 4.33 + Mathlib (lean/SdofSpec.lean: uSol_deriv, vSol_ode, uSol_init, vSol_init)."""
    import os
    import subprocess
    here = os.path.dirname(os.path.dirname(os.path.abspath(__file__)))
    for out in V.symbolic(lambda: dict()):
        try:
            r = subprocess.run(['lean', os.path.join(here, 'lean', 'SdofSpec.lean')], capture_output=True, text=True, timeout=1500)
        except (OSError, subprocess.TimeoutExpired) as e:
            raise T.EngineError('lean could not be run: %s' % e)
        if r.returncode != 0 or 'error' in (r.stdout + r.stderr):
            raise T.EngineError('lean rejected lean/SdofSpec.lean: %s' % (r.stdout + r.stderr)[-400:])
        for thm in ('uSol_deriv', 'vSol_ode', 'uSol_init', 'vSol_init'):
            V.record(out, 'lean-theorem-' + thm, [], True, 'lemma', None, backend='lean4+mathlib')


from pyvc.api import int_variant
int_variant('C01', 'nigam_and_jennings_response', ['acc'])

"""C02 -- the response operator is linear, causal, shift- and refinement-invariant.

(a) Lemmas over the C01 contract (no eqsig code executed): a response row is the orbit from (0, 0) of the one-step map
    STEP(xi, w, h; u, v, f0, f1), which is LINEAR in (u, v, f0, f1) (its coefficients are the propagator entries proved exact
    under C01).  Linearity, causality, time shift and independence from the other periods follow by induction on the
    sample index (base + step obligations).
(b) The semigroup (flow) identity of the closed form, which is what refinement invariance rests on (QF, atoms for exp/sin/cos
    with the addition formulas).
(c) Bounded symbolic relational checks on the REAL code (nigam_and_jennings_response with the real compute_a_and_b inlined):
    the same relations between two executions for all real records of the stated small sizes, incl. refinement by 2.
"""
import z3

from pyvc.api import unit, Skip
from pyvc import terms as T
from pyvc import spec as S
from pyvc.terms import Q
from pyvc.arrays import is_arr

SD = 'eqsig.sdof.'
R = z3.RealSort()
I = z3.IntSort()
STEP_U = z3.Function('STEP_u', R, R, R, R, R, R, R, R)
STEP_V = z3.Function('STEP_v', R, R, R, R, R, R, R, R)


def linear_form_facts(xi, w, h):
    """STEP is linear in (u, v, f0, f1) with coefficients depending on (xi, w, h) only (C01: the coefficients are the exact
    propagator entries).  Returned as quantified facts."""
    cu = [z3.Function('cu%d' % k, R, R, R, R) for k in range(4)]
    cv = [z3.Function('cv%d' % k, R, R, R, R) for k in range(4)]
    u, v, f0, f1 = z3.Reals('lu lv lf0 lf1')
    su, sv = STEP_U(xi, w, h, u, v, f0, f1), STEP_V(xi, w, h, u, v, f0, f1)
    args = (u, v, f0, f1)
    return [z3.ForAll([u, v, f0, f1], su == sum(cu[k](xi, w, h) * args[k] for k in range(4)), patterns=[su]),
            z3.ForAll([u, v, f0, f1], sv == sum(cv[k](xi, w, h) * args[k] for k in range(4)), patterns=[sv])]


class Series:
    """An abstract response row for record f: the C01 postcondition (zero start + exact one-step recurrence) as facts."""

    def __init__(self, name, f, n, xi, w, h):
        self.u = z3.Function(name + '_u', I, R)
        self.v = z3.Function(name + '_v', I, R)
        j = z3.Int('sj_' + name)
        self.facts = [self.u(0) == 0, self.v(0) == 0,
                      z3.ForAll([j], z3.Implies(z3.And(0 <= j, j < n - 1), z3.And(
                          self.u(j + 1) == STEP_U(xi, w, h, self.u(j), self.v(j), f(j), f(j + 1)),
                          self.v(j + 1) == STEP_V(xi, w, h, self.u(j), self.v(j), f(j), f(j + 1)))), patterns=[self.u(j + 1)]),
                      z3.ForAll([j], z3.Implies(z3.And(0 <= j, j < n - 1),
                                                self.v(j + 1) == STEP_V(xi, w, h, self.u(j), self.v(j), f(j), f(j + 1))), patterns=[self.v(j + 1)])]


def induction(out, name, hyps, P, n, budget_ms=30000):
    k = T.fresh('k_ind', T.I)
    out.prove_from(name + '/base', hyps, P(0), budget_ms=budget_ms)
    out.prove_from(name + '/step', hyps + [k >= 0, k < n - 1, P(k)], P(k + 1), budget_ms=budget_ms)


@unit('C02', 'lemmas-over-the-C01-contract', functions=[], cases=[dict(law=l) for l in ('linearity', 'causality', 'shift', 'periods')],
      modes=('unbounded',), budget_ms=60000)
def lemmas(V, law):
    for out in V.symbolic(lambda: dict()):
        xi, w, h = z3.Reals('xi w h')
        n = z3.Int('n')
        base = [xi >= 0, xi < 1, w > 0, h > 0, n >= 2] + linear_form_facts(xi, w, h)
        a, b = z3.Function('rec_a', I, R), z3.Function('rec_b', I, R)
        if law == 'linearity':
            al, be = z3.Reals('alpha beta')
            c = lambda j: al * a(j) + be * b(j)
            sa, sb, sc = Series('A', a, n, xi, w, h), Series('B', b, n, xi, w, h), Series('C', c, n, xi, w, h)
            # quantifier-free induction step: ground instances (at the induction index k) of the recurrences and of the
            # linear form of STEP, so that the step is a plain polynomial identity
            k = T.fresh('k_ind', T.I)
            cu = [z3.Real('cu%d' % q) for q in range(4)]
            cv = [z3.Real('cv%d' % q) for q in range(4)]
            inst = []
            for srs, f in ((sa, a), (sb, b), (sc, c)):
                args = (srs.u(k), srs.v(k), f(k), f(k + 1))
                inst += [srs.u(k + 1) == sum(cu[q] * args[q] for q in range(4)), srs.v(k + 1) == sum(cv[q] * args[q] for q in range(4))]
            P = lambda j: z3.And(sc.u(j) == al * sa.u(j) + be * sb.u(j), sc.v(j) == al * sa.v(j) + be * sb.v(j))
            zero = [sa.u(0) == 0, sa.v(0) == 0, sb.u(0) == 0, sb.v(0) == 0, sc.u(0) == 0, sc.v(0) == 0]
            out.prove_from('response(alpha*a+beta*b) = alpha*response(a) + beta*response(b)/base', zero, P(0))
            out.prove_from('response(alpha*a+beta*b) = alpha*response(a) + beta*response(b)/step', inst + [P(k)], P(k + 1), atomize=True)
            # the ground instances used above follow from the series facts + the linear form (checked with the quantified facts)
            hyps = base + sa.facts + sb.facts + sc.facts
            lf = linear_form_facts(xi, w, h)
            for srs, f, nm in ((sa, a, 'a'), (sb, b, 'b'), (sc, c, 'c')):
                args = [srs.u(k), srs.v(k), f(k), f(k + 1)]
                cuf = [z3.Function('cu%d' % q, R, R, R, R)(xi, w, h) for q in range(4)]
                out.prove_from('instance-of-recurrence-and-linear-form-for-record-%s' % nm, hyps + [k >= 0, k < n - 1],
                               srs.u(k + 1) == sum(cuf[q] * args[q] for q in range(4)))
        elif law == 'causality':
            i = z3.Int('i_split')
            sa, sb = Series('A', a, n, xi, w, h), Series('B', b, n, xi, w, h)
            jj = z3.Int('cj')
            same = z3.ForAll([jj], z3.Implies(z3.And(0 <= jj, jj <= i), a(jj) == b(jj)), patterns=[a(jj)])
            hyps = base + sa.facts + sb.facts + [same, i >= 0, i < n]
            induction(out, 'samples-after-i-do-not-affect-the-response-up-to-i', hyps,
                      lambda j: z3.Implies(j <= i, z3.And(sa.u(j) == sb.u(j), sa.v(j) == sb.v(j))), n)
        elif law == 'shift':
            k = z3.Int('k_shift')
            bsh = lambda j: z3.If(j < k, z3.RealVal(0), a(j - k))
            m = n + k
            sa, sb = Series('A', a, n, xi, w, h), Series('B', bsh, m, xi, w, h)
            hyps = base + sa.facts + sb.facts + [k >= 0, a(0) == 0]
            # the leading zeros produce no response ...
            kk = T.fresh('k_ind', T.I)
            out.prove_from('k-prepended-zeros-give-zero-response/base', hyps, z3.And(sb.u(0) == 0, sb.v(0) == 0))
            out.prove_from('k-prepended-zeros-give-zero-response/step', hyps + [kk >= 0, kk < k, sb.u(kk) == 0, sb.v(kk) == 0],
                           z3.And(sb.u(kk + 1) == 0, sb.v(kk + 1) == 0))
            hyps2 = hyps + [sb.u(k) == 0, sb.v(k) == 0]           # instance kk = k-1 (or the base when k = 0) of the lemma above
            induction(out, 'response-is-delayed-by-exactly-k-samples', hyps2,
                      lambda j: z3.And(sb.u(j + k) == sa.u(j), sb.v(j + k) == sa.v(j)), n)
        else:
            # independence from the other periods / ordering / batching: the row recurrence mentions its own w only, so two
            # computations that use the same (xi, w, h) for a row produce the same row, whatever else is in the period list
            sa, sb = Series('A', a, n, xi, w, h), Series('B', a, n, xi, w, h)
            hyps = base + sa.facts + sb.facts
            induction(out, 'a-row-depends-on-its-own-period-only', hyps,
                      lambda j: z3.And(sa.u(j) == sb.u(j), sa.v(j) == sb.v(j)), n)


# --------------------------------------------------------------------------------------- (b) flow identity of the closed form
def closed_form_t(xi, w, Rt, E, Sn, Cs, t, u0, v0, f0, g):
    """closed-form solution at time t for forcing f0 + g*t (E, Sn, Cs are exp(-xi w t), sin(wd t), cos(wd t))"""
    w2 = w * w
    beta = g / w2
    alpha = (f0 - 2 * xi * w * beta) / w2
    wd = w * Rt
    k1 = u0 - alpha
    k2 = (v0 - beta + xi * w * k1) / wd
    u = E * (k1 * Cs + k2 * Sn) + alpha + beta * t
    v = E * ((-xi * w * k1 + wd * k2) * Cs + (-xi * w * k2 - wd * k1) * Sn) + beta
    return u, v


@unit('C02', 'flow-identity-of-the-exact-step (refinement invariance)', functions=[], modes=('unbounded',), budget_ms=120000)
def flow_identity(V):
    """STEP over t1+t2 = STEP over t2 after STEP over t1 with the forcing continued linearly; exp/sin/cos of t1+t2 through the
    addition formulas (A4).  Inserting linearly interpolated samples therefore leaves the response at the original instants
    unchanged (induction over the sub-steps; that induction is stated here, not mechanised)."""
    for out in V.symbolic(lambda: dict()):
        xi, w, Rt = z3.Reals('xi w Rt')
        e1, s1, c1, e2, s2, c2, t1, t2 = z3.Reals('e1 s1 c1 e2 s2 c2 t1 t2')
        u0, v0, f0, g = z3.Reals('u0 v0 f0 g')
        E12, S12, C12 = e1 * e2, s1 * c2 + c1 * s2, c1 * c2 - s1 * s2
        ua, va = closed_form_t(xi, w, Rt, e1, s1, c1, t1, u0, v0, f0, g)
        ub, vb = closed_form_t(xi, w, Rt, e2, s2, c2, t2, ua, va, f0 + g * t1, g)
        uc, vc = closed_form_t(xi, w, Rt, E12, S12, C12, t1 + t2, u0, v0, f0, g)
        hyp = [w > 0, Rt > 0, Rt * Rt == 1 - xi * xi, xi >= 0, xi < 1]
        out.prove_from('displacement: step(t1+t2) = step(t2) o step(t1)', hyp, ub == uc)
        out.prove_from('velocity: step(t1+t2) = step(t2) o step(t1)', hyp, vb == vc)


# ----------------------------------------------------------------------- (c) relational checks on the real code (bounded)
def run_nj(V, acc, dt, per, xi):
    return V.itp.call(V.itp.get_function(SD + 'nigam_and_jennings_response'), [acc, dt, per, xi], {})


@unit('C02', 'relations-between-executions-of-the-real-code', functions=[SD + 'nigam_and_jennings_response', SD + 'compute_a_and_b', SD + 'pseudo_response_spectra'],
      cases=[dict(law=l) for l in ('linearity', 'causality', 'shift', 'period-order-and-batching', 'three-period-rotations')],
      modes=('bounded',), sizes=dict(n=[3, 4]), budget_ms=60000)
def relations(V, law):
    st = {}

    def setup():
        n = V.size('n', 2)
        a, b = V.array('a', n), V.array('b', n)
        dt, xi = V.real('dt'), V.real('xi')
        V.assume(dt > 0, xi >= 0, xi < 1)
        T1, T2 = V.real('T1'), V.real('T2')
        V.assume(T1 > 0, T2 > 0)
        st.update(n=n, a=a, b=b, dt=dt, xi=xi, T1=T1, T2=T2)
        return dict(acc=a, dt=dt, periods=V.np.np_array([T1, T2]), xi=xi)
    for out in V.run(SD + 'nigam_and_jennings_response', setup):
        out.replay_info = dict(module='response_operator', law=law)
        if not out.no_raise():
            continue
        n, a, b, dt, xi, T1, T2 = (st[k] for k in ('n', 'a', 'b', 'dt', 'xi', 'T1', 'T2'))
        per = V.np.np_array([T1, T2])
        Ua, Va, Aa = out.result
        eq = lambda x, y, rows=(0, 1), cols=None: T.sand(*[T.seq(x[r, j], y[r, j]) for r in rows for j in (cols or range(n))])
        if law == 'linearity':
            al, be = V.real('alpha'), V.real('beta')
            Ub, Vb, Ab = run_nj(V, b, dt, per, xi)
            c = V.op('+', V.op('*', a, al), V.op('*', b, be))
            Uc, Vc, Ac = run_nj(V, c, dt, per, xi)
            for nm, xa, xb, xc in (('u', Ua, Ub, Uc), ('v', Va, Vb, Vc), ('a', Aa, Ab, Ac)):
                for r in range(2):
                    for j in range(n):
                        out.prove('%s(alpha*a+beta*b) = alpha*%s(a)+beta*%s(b) [row%d,%d]' % (nm, nm, nm, r, j),
                                  T.seq(xc[r, j], T.sadd(T.smul(al, xa[r, j]), T.smul(be, xb[r, j]))), atomize=True)
        elif law == 'causality':
            for i in range(n - 1):
                mixed = V.np.np_array([a[j] if j <= i else b[j] for j in range(n)])
                Um, Vm, Am = run_nj(V, mixed, dt, per, xi)
                out.prove('samples-after-%d-do-not-affect-the-response-up-to-%d' % (i, i),
                          T.sand(*[T.sand(T.seq(Um[r, j], Ua[r, j]), T.seq(Vm[r, j], Va[r, j])) for r in range(2) for j in range(i + 1)]))
        elif law == 'shift':
            for k in (1, 2):
                a0 = V.np.np_array([0] + [a[j] for j in range(1, n)])            # record that starts at zero
                U0, V0, _ = run_nj(V, a0, dt, per, xi)
                sh = V.np.np_array([0] * k + [a0[j] for j in range(n)])
                Us, Vs, _ = run_nj(V, sh, dt, per, xi)
                out.prove('prepending-%d-zeros-delays-the-response-by-%d-samples' % (k, k),
                          T.sand(*[T.sand(T.seq(Us[r, j + k], U0[r, j]), T.seq(Vs[r, j + k], V0[r, j])) for r in range(2) for j in range(n)] +
                                 [T.sand(T.seq(Us[r, j], 0), T.seq(Vs[r, j], 0)) for r in range(2) for j in range(k)]), atomize=True)
        elif law == 'three-period-rotations':
            # three periods in ANY relative order (no ordering is assumed between T1, T2, T3) and the two cyclic rotations of the
            # list: a permutation that is not its own inverse tells "rows returned in the caller's order" from "rows un-sorted wrongly"
            T3 = V.real('T3')
            V.assume(T3 > 0)
            base = [T1, T2, T3]
            U3, V3, A3 = run_nj(V, a, dt, V.np.np_array(base), xi)
            for r, Tr in enumerate(base):
                U1, V1, A1 = run_nj(V, a, dt, V.np.np_array([Tr]), xi)
                out.prove('row-%d-of-three-is-the-response-of-its-own-period' % r,
                          T.sand(*[T.sand(T.seq(U3[r, j], U1[0, j]), T.seq(V3[r, j], V1[0, j]), T.seq(A3[r, j], A1[0, j])) for j in range(n)]), atomize=True)
            for rot in (1, 2):
                lst = base[rot:] + base[:rot]
                Ur, Vr, Ar = run_nj(V, a, dt, V.np.np_array(lst), xi)
                out.prove('rotating-the-period-list-by-%d-rotates-the-rows' % rot,
                          T.sand(*[T.sand(T.seq(Ur[r, j], U3[(r + rot) % 3, j]), T.seq(Vr[r, j], V3[(r + rot) % 3, j]), T.seq(Ar[r, j], A3[(r + rot) % 3, j]))
                                   for r in range(3) for j in range(n)]), atomize=True)
        elif law == 'period-order-and-batching':
            Ur, Vr, Ar = run_nj(V, a, dt, V.np.np_array([T2, T1]), xi)
            out.prove('reordering-the-period-list-permutes-the-rows', T.sand(*[T.sand(T.seq(Ur[1 - r, j], Ua[r, j]), T.seq(Vr[1 - r, j], Va[r, j]), T.seq(Ar[1 - r, j], Aa[r, j]))
                                                                              for r in range(2) for j in range(n)]))
            U1, V1, A1 = run_nj(V, a, dt, V.np.np_array([T1]), xi)
            out.prove('a-period-computed-alone-gives-the-same-row', T.sand(*[T.sand(T.seq(U1[0, j], Ua[0, j]), T.seq(V1[0, j], Va[0, j]), T.seq(A1[0, j], Aa[0, j])) for j in range(n)]))
            Uz, Vz, Az = run_nj(V, a, dt, V.np.np_array([0, T1, T2]), xi)
            out.prove('a-leading-zero-period-does-not-change-the-other-rows', T.sand(*[T.sand(T.seq(Uz[r + 1, j], Ua[r, j]), T.seq(Vz[r + 1, j], Va[r, j])) for r in range(2) for j in range(n)]))


@unit('C02', 'spectra-are-independent-of-batching-and-order', functions=[SD + 'pseudo_response_spectra', SD + 'true_response_spectra'],
      cases=[dict(fn='pseudo_response_spectra'), dict(fn='true_response_spectra')], modes=('bounded',), sizes=dict(n=[3]), budget_ms=60000)
def spectra_batching(V, fn):
    """spectrum level of 'each period's result depends on that period only': S_d, S_v, S_a of a period are the same whether it is
    computed in a list with another period (either order) or alone -- for periods on EITHER side of 6 dt (both symbolic)"""
    st = {}

    def setup():
        n = V.size('n', 2)
        a = V.array('a', n)
        dt, xi = V.real('dt'), V.real('xi')
        V.assume(dt > 0, xi >= 0, xi < 1)
        T1, T2 = V.real('T1'), V.real('T2')
        V.assume(T1 > 0, T2 > 0)
        st.update(n=n, a=a, dt=dt, xi=xi, T1=T1, T2=T2)
        return dict(motion=a, dt=dt, periods=V.np.np_array([T1, T2]), xi=xi)
    f = V.itp.get_function(SD + fn)
    for out in V.run(SD + fn, setup):
        out.replay_info = dict(module='response_operator', law='spectra-batching', fn=fn)
        if not out.no_raise():
            continue
        a, dt, xi, T1, T2 = (st[k] for k in ('a', 'dt', 'xi', 'T1', 'T2'))
        both = out.result
        ok = isinstance(both, tuple) and len(both) == 3
        out.prove('returns-(S_d, S_v, S_a)', ok)
        if not ok:
            continue
        try:
            rev = V.itp.call(f, [a, dt, V.np.np_array([T2, T1]), xi], {})
            one = [V.itp.call(f, [a, dt, V.np.np_array([Tk]), xi], {}) for Tk in (T1, T2)]
        except T.PyExc as e:
            out.prove('no-exception-for-a-sub-list[%s]' % e.kind, False)
            continue
        for q, nm in enumerate(('S_d', 'S_v', 'S_a')):
            for r in range(2):
                out.prove('%s-of-period-%d-is-the-same-when-computed-alone' % (nm, r), T.seq(both[q][r], one[r][q][0]), atomize=True)
                out.prove('%s-of-period-%d-is-the-same-in-the-reversed-list' % (nm, r), T.seq(both[q][r], rev[q][1 - r]), atomize=True)


# ------------------------------------------------------------------------------- spectral corollaries (over absmax's contract)
@unit('C02', 'spectral-corollaries', functions=[], cases=[dict(law='scale-by-|alpha|'), dict(law='never-decrease-under-refinement')],
      modes=('unbounded',))
def spectral_corollaries(V, law):
    """From the contract of absmax proved under C03 (M >= |x_j| for all j, attained at some j) and the lemmas above."""
    for out in V.symbolic(lambda: dict()):
        x, y = z3.Function('ser_x', I, R), z3.Function('ser_y', I, R)
        M, Nn = z3.Reals('absmax_x absmax_y')
        jx, jy = z3.Ints('wit_x wit_y')
        ab = lambda t: z3.If(t >= 0, t, -t)
        if law == 'scale-by-|alpha|':
            al = z3.Real('alpha')
            # y_j = alpha x_j (linearity lemma); instances of the absmax contract at the two witnesses
            hyps = [y(jx) == al * x(jx), y(jy) == al * x(jy), M >= ab(x(jy)), M == ab(x(jx)), Nn >= ab(y(jx)), Nn == ab(y(jy))]
            out.prove_from('spectrum(alpha*a) = |alpha| * spectrum(a)  (hence sign reversal changes nothing)', hyps, Nn == ab(al) * M, atomize=True)
        else:
            m = z3.Int('m_refine')
            # y is the response of the refined record: y_{m j} = x_j (refinement invariance); absmax contract instances
            hyps = [y(m * jx) == x(jx), M == ab(x(jx)), Nn >= ab(y(m * jx))]
            out.prove_from('spectrum-of-the-refined-record >= spectrum-of-the-record', hyps, Nn >= M, atomize=True)

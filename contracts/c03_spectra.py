"""C03 -- response spectra are peak responses with consistent pseudo-spectral relations.

The spectra functions are verified MODULARLY against the contract of nigam_and_jennings_response proved under C01: at the
call site the callee is replaced by fresh series (U, V, A) of shape (P, N) with the C01 postconditions assumed
(rows of a leading zero period are zero / the sign-flipped record; third series = -(2 xi w v + w^2 u))."""
import z3

from pyvc.api import unit, Skip
from pyvc import terms as T
from pyvc import arrays as A
from pyvc import spec as S
from pyvc.terms import Q
from pyvc.arrays import CArr, BArr, is_arr

import contracts_common_signal as CS

SD = 'eqsig.sdof.'
W_CONST = Q('6.2831853')


def nj_summary(itp, acc, dt, periods, xi):
    """Contract of nigam_and_jennings_response (C01) as an assumption at call sites."""
    M = itp.lib.models
    per = M.np_array(periods, dtype=itp.lib.builtin('float'))
    acc_a = M.np_array(acc, dtype=itp.lib.builtin('float'))
    P, n = per.shape[0], acc_a.shape[0]
    key = [acc_a, dt, per, xi]
    U = M.opaque_array('resp_u', key, (P, n), 'float', assumed='contract of nigam_and_jennings_response (proved under C01)')
    Vv = M.opaque_array('resp_v', key, (P, n), 'float', assumed='contract of nigam_and_jennings_response (proved under C01)')
    Aa = M.opaque_array('resp_a', key, (P, n), 'float', assumed='contract of nigam_and_jennings_response (proved under C01)')
    c = T.ctx()
    ck = ('nj-facts', A.canon_key(key))
    if ck not in c.cache:
        c.cache[ck] = True
        rp, ra = A.reader(per), A.reader(acc_a)
        lead = T.to_bool_term(T.seq(rp(0), 0)) if not isinstance(T.seq(rp(0), 0), bool) else z3.BoolVal(T.seq(rp(0), 0))
        xi_ = T.to_real(xi)
        w = lambda rr: T.to_real(T.sdiv(W_CONST, rp(rr)))
        if isinstance(P, int) and isinstance(n, int):
            for jj in range(n):
                c.fact(z3.Implies(lead, z3.And(T.to_real(U.a[0, jj]) == 0, T.to_real(Vv.a[0, jj]) == 0, T.to_real(Aa.a[0, jj]) == -T.to_real(ra(jj)))))
                for rr in range(P):
                    lo_ok = z3.BoolVal(True) if rr >= 1 else z3.Not(lead)
                    c.fact(z3.Implies(lo_ok, T.to_real(Aa.a[rr, jj]) == -(2 * xi_ * w(rr) * T.to_real(Vv.a[rr, jj]) + w(rr) * w(rr) * T.to_real(U.a[rr, jj]))))
        else:
            r, j = z3.Ints('njr njj')
            Pz, nz = T.to_int_term(P), T.to_int_term(n)
            u = lambda rr, jj: T.to_real(A.to_carr(U).at(rr, jj))
            v = lambda rr, jj: T.to_real(A.to_carr(Vv).at(rr, jj))
            a3 = lambda rr, jj: T.to_real(A.to_carr(Aa).at(rr, jj))
            c.fact(z3.ForAll([j], z3.Implies(z3.And(lead, 0 <= j, j < nz), z3.And(u(0, j) == 0, v(0, j) == 0, a3(0, j) == -T.to_real(ra(j)))),
                             patterns=[a3(0, j)]))
            c.fact(z3.ForAll([j], z3.Implies(z3.And(lead, 0 <= j, j < nz), z3.And(u(0, j) == 0, v(0, j) == 0)), patterns=[u(0, j)]))
            c.fact(z3.ForAll([j], z3.Implies(z3.And(lead, 0 <= j, j < nz), v(0, j) == 0), patterns=[v(0, j)]))
            c.fact(z3.ForAll([r, j], z3.Implies(z3.And(z3.If(lead, 1, 0) <= r, r < Pz, 0 <= j, j < nz),
                                                a3(r, j) == -(2 * xi_ * w(r) * v(r, j) + w(r) * w(r) * u(r, j))), patterns=[a3(r, j)]))
    c.cache.setdefault('nj-calls', []).append(dict(acc=acc_a, dt=dt, periods=per, xi=xi, U=U, V=Vv, A=Aa))
    return U, Vv, Aa


def install(V):
    V.itp.contracts[SD + 'nigam_and_jennings_response'] = nj_summary


# ------------------------------------------------------------------------------------------------------- absmax
@unit('C03', 'absmax', functions=[SD + 'absmax'], cases=[dict(rank=1), dict(rank=2)], sizes=dict(n=[1, 3], P=[2]))
def absmax(V, rank):
    st = {}

    def setup():
        n = V.size('n', 1)
        if rank == 1:
            a = V.array('a', n, origin='param')
            st.update(a=a, n=n)
            return dict(a=a)
        P = V.size('P', 1)
        a = V.array('a', (P, n), origin='param')
        st.update(a=a, n=n, P=P)
        return dict(a=a, axis=1)
    for out in V.run(SD + 'absmax', setup):
        if not out.no_raise():
            continue
        out.side_conditions()
        a, n = st['a'], st['n']
        r = out.result
        if rank == 1:
            for j in V.idx(0, n, 'j'):
                out.prove('bounds-every-|a_j|', T.sge(r, T.sabs(a[j])))
            out.prove('non-negative', T.sge(r, 0))
            out.prove('attained', T.sor(T.seq(r, V.np.np_max(a)), T.seq(r, T.sneg(V.np.np_min(a)))))
        else:
            P = st['P']
            out.prove('one-entry-per-row', T.sand(len(r.shape) == 1, T.seq(r.shape[0], P)))
            mx, mn = V.np.np_max(a, axis=1), V.np.np_min(a, axis=1)
            for q in V.idx(0, P, 'q'):
                for j in V.idx(0, n, 'j'):
                    out.prove('bounds-every-|a_rj|', T.sge(r[q], T.sabs(a[q, j])))
                out.prove('attained-in-its-row', T.sor(T.seq(r[q], mx[q]), T.seq(r[q], T.sneg(mn[q]))))
        out.unchanged('a', a)


# ---------------------------------------------------------------------------------------------- spectra functions
def _spectra_setup(V, st, lead_zero, container, pdtype='float'):
    def setup():
        install(V)
        n = V.size('n', 2)
        acc = V.array('acc', n, origin='param')
        P = V.size('P', 2 if lead_zero else 1)
        per = V.array('T', P, origin='param', dtype=pdtype)        # integer-valued period containers are legal input too
        dt, xi = V.real('dt'), V.real('xi')
        V.assume(dt > 0, xi >= 0, xi < 1)
        if isinstance(P, int):
            for q in range(P):
                V.assume(per[q] > 0 if not (lead_zero and q == 0) else per[q] == 0)
        else:
            q = z3.Int('qT')
            T.ctx().facts.append(z3.ForAll([q], z3.Implies(z3.And((1 if lead_zero else 0) <= q, q < P), T.to_z3(per.at(q)) > 0), patterns=[T.to_z3(per.at(q))]))
            V.assume(per[0] == 0 if lead_zero else per[0] > 0)
        arg = per
        if container != 'array':
            if not isinstance(P, int):
                raise Skip()
            arg = [per[q] for q in range(P)] if container == 'list' else tuple(per[q] for q in range(P))
        st.update(n=n, acc=acc, P=P, per=per, dt=dt, xi=xi)
        return dict(motion=acc, dt=dt, periods=arg, xi=xi)
    return setup


def spectra_clauses(V, out, st, lead_zero, true_spectra):
    n, acc, P, per, dt, xi = st['n'], st['acc'], st['P'], st['per'], st['dt'], st['xi']
    res = out.result
    ok = isinstance(res, tuple) and len(res) == 3 and all(is_arr(x) and len(x.shape) == 1 for x in res)
    out.prove('returns-(S_d, S_v, S_a)', ok)
    if not ok:
        return
    sd, sv, sa = res
    calls = out.cx.cache.get('nj-calls', [])
    out.prove('one-response-computation', len(calls) == 1)
    if len(calls) != 1:
        return
    c = calls[0]
    out.prove('response-computed-for-this-record-step-damping', T.sand(T.seq(c['dt'], dt), T.seq(c['xi'], xi), T.seq(c['acc'].shape[0], n), T.seq(c['periods'].shape[0], P)))
    for j in V.idx(0, n, 'ja'):
        out.prove('response-computed-for-this-record', T.seq(c['acc'][j], acc[j]))
    U, Vv, Aa = c['U'], c['V'], c['A']
    for x, nm in ((sd, 'S_d'), (sv, 'S_v'), (sa, 'S_a')):
        out.prove('%s-has-one-entry-per-period' % nm, T.seq(x.shape[0], P))
    pga = T.smax2(V.np.np_max(acc), T.sneg(V.np.np_min(acc)))
    two_pi = T.smul(2, T.pi())
    for r in V.idx(0, P, 'r'):
        out.prove('response-computed-for-these-periods', T.seq(c['periods'][r], per[r]))
        for j in V.idx(0, n, 'j'):
            out.prove('S_d-bounds-|u(t)|', T.sge(sd[r], T.sabs(U[r, j])))
            if true_spectra:
                out.prove('S_v-bounds-|v(t)|', T.sge(sv[r], T.sabs(Vv[r, j])))
        out.prove('S_d-attained', T.sor(T.seq(sd[r], V.np.np_max(U, axis=1)[r]), T.seq(sd[r], T.sneg(V.np.np_min(U, axis=1)[r]))))
        out.prove('all-non-negative', T.sand(T.sge(sd[r], 0), T.sge(sv[r], 0), T.sge(sa[r], 0)))
        short = T.slt(per[r], T.smul(dt, 6))
        if true_spectra:
            amax = T.smax2(V.np.np_max(Aa, axis=1)[r], T.sneg(V.np.np_min(Aa, axis=1)[r]))
            vmax = T.smax2(V.np.np_max(Vv, axis=1)[r], T.sneg(V.np.np_min(Vv, axis=1)[r]))
            out.prove('S_v-is-max|v|', T.seq(sv[r], vmax))
            out.prove('S_a-is-max|a_total|-or-PGA-below-6dt', T.seq(sa[r], T.site(short, pga, amax)))
        else:
            w = T.sdiv(two_pi, per[r])
            if lead_zero:
                out.prove('S_v-is-w*S_d', T.simplies(T.sgt(per[r], 0), T.seq(sv[r], T.smul(w, sd[r]))))
                out.prove('S_a-is-w^2*S_d-or-PGA-below-6dt', T.simplies(T.sgt(per[r], 0), T.seq(sa[r], T.site(short, pga, T.smul(T.smul(w, w), sd[r])))))
            else:
                out.prove('S_v-is-w*S_d', T.seq(sv[r], T.smul(w, sd[r])))
                out.prove('S_a-is-w^2*S_d-or-PGA-below-6dt', T.seq(sa[r], T.site(short, pga, T.smul(T.smul(w, w), sd[r]))))
    if lead_zero:
        out.prove('T=0: S_d = 0', T.seq(sd[0], 0))
        if not true_spectra:
            out.prove('T=0: S_v = 0', T.seq(sv[0], 0))
        out.prove('T=0: S_a = PGA', T.seq(sa[0], pga))
    out.unchanged('acc', acc)
    out.unchanged('T', per)


@unit('C03', 'pseudo_response_spectra', functions=[SD + 'pseudo_response_spectra'],
      cases=[dict(lead_zero=z, container=c, pdtype=d) for z in (False, True) for c in ('array', 'list', 'tuple') for d in ('float', 'int')],
      sizes=dict(n=[3], P=[2]), budget_ms=30000)
def pseudo(V, lead_zero, container, pdtype):
    st = {}
    for out in V.run(SD + 'pseudo_response_spectra', _spectra_setup(V, st, lead_zero, container, pdtype)):
        out.replay_info = dict(module='spectra', entry='pseudo_response_spectra', container=container, pdtype=pdtype, lead_zero=lead_zero)
        if not out.no_raise():
            continue
        out.side_conditions()
        spectra_clauses(V, out, st, lead_zero, False)


@unit('C03', 'true_response_spectra', functions=[SD + 'true_response_spectra'],
      cases=[dict(lead_zero=z, container=c, pdtype=d) for z in (False, True) for c in ('array', 'list', 'tuple') for d in ('float', 'int')],
      sizes=dict(n=[3], P=[2]), budget_ms=30000)
def true_spectra(V, lead_zero, container, pdtype):
    st = {}
    for out in V.run(SD + 'true_response_spectra', _spectra_setup(V, st, lead_zero, container, pdtype)):
        out.replay_info = dict(module='spectra', entry='true_response_spectra', container=container, pdtype=pdtype, lead_zero=lead_zero)
        if not out.no_raise():
            continue
        out.side_conditions()
        spectra_clauses(V, out, st, lead_zero, True)


# ------------------------------------------------------------------------------ undamped: true S_a equals pseudo S_a
@unit('C03', 'true-equals-pseudo-S_a-when-undamped', functions=[SD + 'true_response_spectra', SD + 'pseudo_response_spectra'],
      modes=('unbounded',), budget_ms=60000)
def undamped(V):
    st = {}
    for out in V.run(SD + 'true_response_spectra', _spectra_setup(V, st, False, 'array')):
        if not out.no_raise():
            continue
        out.assume(T.seq(st['xi'], 0))
        pseudo_res = V.itp.call(V.itp.get_function(SD + 'pseudo_response_spectra'), [st['acc'], st['dt'], st['per'], st['xi']], {})
        sa_t, sa_p = out.result[2], pseudo_res[2]
        calls = out.cx.cache.get('nj-calls', [])
        U, Aa = calls[0]['U'], calls[0]['A']
        cU, cA = A.to_carr(U), A.to_carr(Aa)
        per, dt = st['per'], st['dt']
        for r in V.idx(0, st['P'], 'r'):
            # ground instances of the library max/min contracts and of the C01 contract at the four witness columns
            wc = T.sdiv(W_CONST, per[r])
            mxU, mnU = V.np.np_max(U, axis=1)[r], V.np.np_min(U, axis=1)[r]
            mxA, mnA = V.np.np_max(Aa, axis=1)[r], V.np.np_min(Aa, axis=1)[r]
            wit = {(nm, mx): V.np.extreme_witness(arr, 1, mx)(r) for nm, arr in (('U', U), ('A', Aa)) for mx in (True, False)}
            ground = [T.sgt(per[r], 0), T.sgt(dt, 0)]
            inst = []
            for (nm, mx), j in wit.items():
                inst.append(T.seq(cA.at(r, j), T.sneg(T.smul(T.smul(wc, wc), cU.at(r, j)))))     # third series at xi = 0
                inst += [T.sle(cU.at(r, j), mxU), T.sge(cU.at(r, j), mnU), T.sle(cA.at(r, j), mxA), T.sge(cA.at(r, j), mnA)]
            inst += [T.seq(cU.at(r, wit[('U', True)]), mxU), T.seq(cU.at(r, wit[('U', False)]), mnU),
                     T.seq(cA.at(r, wit[('A', True)]), mxA), T.seq(cA.at(r, wit[('A', False)]), mnA)]
            for k, h in enumerate(inst):
                out.prove('undamped/instance-%d-of-the-assumed-contracts' % k, h)        # each instance follows from the path facts
            sd = T.smax2(mxU, T.sneg(mnU))
            amax = T.smax2(mxA, T.sneg(mnA))
            out.prove_from('undamped/max|a_total| = w_c^2 * S_d', ground + inst, T.seq(amax, T.smul(T.smul(wc, wc), sd)), budget_ms=60000)
            # final comparison from that lemma (quantifier free): the two angular-frequency constants differ by < 1.2e-9 relative
            two_pi = T.smul(2, T.pi())
            wp = T.sdiv(two_pi, per[r])
            short = T.slt(per[r], T.smul(dt, 6))
            pga = V.real('pga_abstract')
            sat = T.site(short, pga, amax)
            sap = T.site(short, pga, T.smul(T.smul(wp, wp), sd))
            lemma = T.seq(amax, T.smul(T.smul(wc, wc), sd))
            pi_facts = [T.pi() > Q('3.14159265358979'), T.pi() < Q('3.14159265358980')]
            out.prove_from('undamped/|S_a(true) - S_a(pseudo)| <= 3e-9 * S_a(pseudo) [from the lemma]',
                           ground + pi_facts + [lemma, T.sge(sd, 0), T.sge(pga, 0)],
                           T.sle(T.sabs(T.ssub(sat, sap)), T.smul(Q('3e-9'), sap)), budget_ms=60000)
            out.prove('undamped/S_d-non-negative', T.sge(sd, 0))
            out.prove('undamped/result-has-this-form', T.sand(T.seq(sa_t[r], T.site(short, T.smax2(V.np.np_max(st['acc']), T.sneg(V.np.np_min(st['acc']))), amax)),
                                                             T.seq(sa_p[r], T.site(short, T.smax2(V.np.np_max(st['acc']), T.sneg(V.np.np_min(st['acc']))), T.smul(T.smul(wp, wp), sd)))))


# --------------------------------------------------------------------------------------------- AccSignal spectra
def prs_logging_summary(itp, motion, dt, periods, xi):
    M = itp.lib.models
    per = M.np_array(periods, dtype=itp.lib.builtin('float'))
    P = per.shape[0]
    key = [motion, dt, per, xi]
    res = tuple(M.opaque_array('pseudo_rs_%s' % nm, key, (P,), 'float', assumed='contract of pseudo_response_spectra (proved in this property)') for nm in ('sd', 'sv', 'sa'))
    T.ctx().cache.setdefault('prs-calls', []).append(dict(motion=motion, dt=dt, periods=per, xi=xi, res=res))
    return res


@unit('C03', 'AccSignal.gen_response_spectrum', functions=['eqsig.single.AccSignal.gen_response_spectrum', 'eqsig.single.AccSignal.s_a',
                                                          'eqsig.single.AccSignal.s_v', 'eqsig.single.AccSignal.s_d'],
      cases=[dict(ratio=r, lead_zero=z, how=h, pre='fresh') for r in (1, 2, 4, 8) for z in (False, True) for h in ('explicit',)] +
            [dict(ratio=4, lead_zero=False, how='lazy', pre='fresh')] +
            [dict(ratio=r, lead_zero=False, how='explicit', pre='after-an-earlier-request') for r in (2, 8)], modes=('unbounded',), budget_ms=30000)
def gen_response_spectrum(V, ratio, lead_zero, how, pre):
    """pre='after-an-earlier-request': the object has already produced a spectrum for OTHER periods, damping and min_dt_ratio (any
    of them: coarser or finer integration step); the new request must be integrated at ITS step."""
    st = {}

    def setup():
        V.itp.contracts[SD + 'pseudo_response_spectra'] = prs_logging_summary
        n = V.size('n', 2)
        x = V.array('x', n, origin='param')
        dt = V.real('dt')
        V.assume(dt > 0)
        P = V.size('P', 2)
        rt = V.array('rt', P, origin='param')
        q = z3.Int('qT')
        T.ctx().facts.append(z3.ForAll([q], z3.Implies(z3.And((1 if lead_zero else 0) <= q, q < P), T.to_z3(rt.at(q)) > 0), patterns=[T.to_z3(rt.at(q))]))
        V.assume(rt[0] == 0 if lead_zero else rt[0] > 0, rt[1] > 0)
        asig = S.make_signal(V, 'AccSignal', x, dt, response_times=rt)
        xi = V.real('xi')
        V.assume(xi >= 0, xi < 1)
        st.update(n=n, x=x, dt=dt, rt=rt, P=P, asig=asig, xi=xi)
        if pre != 'fresh':
            rt0 = V.array('rt0', 2, origin='param')
            xi0 = V.real('xi0')
            V.assume(rt0[0] > 0, rt0[1] > 0, xi0 >= 0, xi0 < 1)
            st.update(rt0=rt0, xi0=xi0, ratio0=4 if ratio != 4 else 2)       # the earlier request may or may not have needed interpolation
        return ((asig,), {})

    def op(itp, asig):
        st['skip'] = 0
        if pre != 'fresh':
            itp.call(itp.get_attr(asig, 'gen_response_spectrum'), [], dict(response_times=st['rt0'], xi=st['xi0'], min_dt_ratio=st['ratio0']))
            st['skip'] = len(T.ctx().cache.get('prs-calls', []))
            itp.call(itp.get_attr(asig, 'gen_response_spectrum'), [], dict(response_times=st['rt'], xi=st['xi'], min_dt_ratio=ratio))
        elif how == 'explicit':
            itp.call(itp.get_attr(asig, 'gen_response_spectrum'), [], dict(xi=st['xi'], min_dt_ratio=ratio))
        return itp.get_attr(asig, 's_a'), itp.get_attr(asig, 's_v'), itp.get_attr(asig, 's_d')
    for out in V.run(op, setup):
        out.replay_info = dict(module='spectra', entry='gen_response_spectrum', pre=pre, ratio=ratio, lead_zero=lead_zero)
        if not out.no_raise():
            continue
        n, x, dt, rt, P = st['n'], st['x'], st['dt'], st['rt'], st['P']
        calls = out.cx.cache.get('prs-calls', [])[st['skip']:]
        out.prove('spectra-computed-exactly-once', len(calls) == 1)
        if len(calls) != 1:
            continue
        c = calls[0]
        eff_ratio = ratio if how == 'explicit' else 4
        t_min = rt[1] if lead_zero else rt[0]
        target = T.smax2(T.sdiv(t_min, 20), T.sdiv(dt, eff_ratio))
        dti = c['dt']
        out.prove('integration-step-not-coarser-than-max(T_min/20, dt/min_dt_ratio)', T.sle(dti, target))
        out.prove('integration-step-not-coarser-than-record-step', T.sand(T.sgt(dti, 0), T.sle(dti, dt)))
        m = T.site(T.slt(target, dt), T.sceil(T.sdiv(dt, target)), 1)
        out.prove('record-step-is-an-integer-multiple-of-integration-step', T.sand(T.sge(m, 1), T.seq(T.smul(dti, m), dt)))
        y = c['motion']
        for k in V.idx(0, n, 'k'):
            idx = T.smul(k, m)
            out.prove('integrated-record-retains-EVERY-original-sample', T.sand(T.slt(idx, y.shape[0]), T.seq(A.to_carr(y).at(idx), x[k])), budget_ms=30000)
        out.prove('periods-passed-are-the-response-times', T.seq(c['periods'].shape[0], P))
        for r in V.idx(0, P, 'r'):
            out.prove('periods-passed-are-the-response-times/values', T.seq(c['periods'][r], rt[r]))
        out.prove('damping-passed', T.seq(c['xi'], st['xi'] if how == 'explicit' else Q('0.05')))
        sa, sv, sd = out.result
        for nm, got, want in (('s_a', sa, c['res'][2]), ('s_v', sv, c['res'][1]), ('s_d', sd, c['res'][0])):
            out.prove('%s-is-the-spectrum-of-that-computation' % nm, CS.values_equal(V, got, want))
        out.unchanged('x', x)


# ------------------------------------------------------------------------------------------------ energy spectra
def rs_logging_summary(itp, motion, dt, periods, xi):
    U, Vv, Aa = nj_summary(itp, motion, dt, periods, xi)
    return U, Vv, Aa


@unit('C03', 'energy-spectra', functions=[SD + 'calc_resp_uke_spectrum', SD + 'calc_input_energy_spectrum'],
      cases=[dict(fn='uke'), dict(fn='input'), dict(fn='input-series')], sizes=dict(n=[3], P=[2]))
def energy_spectra(V, fn):
    st = {}

    def setup():
        install(V)
        n = V.size('n', 2)
        x = V.array('x', n, origin='param')
        dt = V.real('dt')
        V.assume(dt > 0)
        P = V.size('P', 1)
        per = V.array('T', P, origin='param')
        if isinstance(P, int):
            for q in range(P):
                V.assume(per[q] > 0)
        else:
            V.assume(per[0] > 0)
        asig = S.make_signal(V, 'AccSignal', x, dt)
        xi = V.real('xi')
        V.assume(xi >= 0, xi < 1)
        st.update(n=n, x=x, dt=dt, per=per, P=P, xi=xi)
        kw = dict(acc_signal=asig, periods=per, xi=xi)
        if fn == 'input-series':
            kw['series'] = True
        return kw
    name = SD + ('calc_resp_uke_spectrum' if fn == 'uke' else 'calc_input_energy_spectrum')
    for out in V.run(name, setup):
        out.replay_info = dict(module='spectra', entry='energy', fn=fn)
        if not out.no_raise():
            continue
        out.side_conditions()
        n, x, dt, P = st['n'], st['x'], st['dt'], st['P']
        calls = out.cx.cache.get('nj-calls', [])
        out.prove('one-response-computation', len(calls) == 1)
        if len(calls) != 1:
            continue
        c = calls[0]
        Vv = c['V']
        out.prove('response-for-this-signal', T.sand(T.seq(c['dt'], dt), T.seq(c['xi'], st['xi'])))
        res = out.result
        if fn == 'uke':
            ke = V.op('*', V.op('*', Q('1/2'), V.op('**', Vv, 2)), 1)
            want = V.np.np_sum(V.np.np_abs(V.np.np_diff(ke)), axis=1)
            for r in V.idx(0, P, 'r'):
                out.prove('kinetic-energy-spectrum-is-sum|delta(v^2/2)|', T.seq(res[r], want[r]))
                if V.mode == 'bounded':            # (unbounded: needs an induction over the partial sums; not mechanised)
                    out.prove('non-negative', T.sge(res[r], 0))
        elif fn == 'input':
            want = V.np.np_sum(V.op('*', V.op('*', x, Vv), dt), axis=1)
            for r in V.idx(0, P, 'r'):
                out.prove('input-energy-spectrum-is-sum(a*v*dt)', T.seq(res[r], want[r]))
        else:
            want = V.np.np_cumsum(V.op('*', V.op('*', x, Vv), dt), axis=1)
            for r in V.idx(0, P, 'r'):
                for j in V.idx(0, n, 'j'):
                    out.prove('input-energy-series-is-running-sum(a*v*dt)', T.seq(res[r, j], want[r, j]))
        out.unchanged('x', x)


# ------------------------------------------------------ object-level response spectra AFTER the record or the periods changed
import contracts_c04_cache as C4

_CHANGES3 = ['reset_values', 'add_constant', 'add_series', 'remove_poly/1', 'butter_pass/band', 'response_times=', 'response_times*=c',
             'gen_response_spectrum(response_times=)', 'remove_rolling_average/values', 'rebase_displacement', 'correct_me']


@unit('C03', 'response-spectra-after-the-record-or-the-periods-changed', functions=C4.FUNCS,
      cases=[dict(op=k) for k in _CHANGES3], modes=('unbounded',), budget_ms=3000)
def spectra_after_change(V, op):
    """History read s_a, s_v, s_d -> change the record / the response periods through a public operation -> read again: the object
    reports the spectra of a freshly constructed object with the NEW record and periods."""
    ops = dict(C4.COMMON_OPS)
    ops.update(C4.ACC_OPS)
    C4.run_op(V, 'AccSignal', op, ops[op], ['s_a', 's_v', 's_d'], prewarm=True)


from pyvc.api import int_variant
int_variant('C03', 'pseudo_response_spectra', ['acc'])
int_variant('C03', 'true_response_spectra', ['acc'])
int_variant('C03', 'energy-spectra', ['x'])
int_variant('C03', 'AccSignal.gen_response_spectrum', ['x'])

"""C04 -- derived quantities of a signal object never go stale.

Representation invariant (encoded by construction of the symbolic pre-state, common_signal.make_state):
    flag_X  ->  cached_X == F_X(values, dt, settings)      for X in {fa, smooth fa, velocity/displacement, response spectra}
    key in _cached_params -> value == PEAK_key(state)
where F_X is *defined* by running the real generating method on a cold clone.  Every public operation, run from an
ARBITRARY state satisfying the invariant, must leave a state in which every reader reports what a freshly constructed
object with the same values, dt and settings reports (observational form of the invariant); hence, by induction over
histories, the property holds for all finite interleavings with no bound.
"""
import z3

from pyvc.api import unit
from pyvc import terms as T
from pyvc.terms import Q
from pyvc.arrays import is_arr
from pyvc.interp import ObjVal

import contracts_common_signal as CS

S_ = 'eqsig.single.'


# ---- operations: name -> builder(V, o) returning (callable(itp, o) -> result, [(param name, array)] )
def _method(name, *args, **kwargs):
    def build(V, o):
        a = [x(V, o) if callable(x) else x for x in args]
        kw = {k: (x(V, o) if callable(x) else x) for k, x in kwargs.items()}
        params = [('arg%d' % i, x) for i, x in enumerate(a) if is_arr(x)] + [(k, x) for k, x in kw.items() if is_arr(x)]

        def run(itp, obj):
            return itp.call(itp.get_attr(obj, name), a, kw)
        return run, params
    return build


def _setattr(name, value):
    def build(V, o):
        v = value(V, o) if callable(value) else value

        def run(itp, obj):
            itp.set_attr(obj, name, v)
            return None
        return run, ([(name, v)] if is_arr(v) else [])
    return build


def _aug_attr(name, value):
    def build(V, o):
        import ast as _ast
        v = value(V, o) if callable(value) else value

        def run(itp, obj):
            cur = itp.get_attr(obj, name)
            itp.lib.inplace(cur, None, _ast.Mult, v)
            itp.set_attr(obj, name, cur)
            return None
        return run, []
    return build


def _edit_and_reassign(name, value):
    def build(V, o):
        v = value(V, o) if callable(value) else value

        def run(itp, obj):
            cur = itp.get_attr(obj, name)
            itp.lib.setitem(cur, 0, v)
            itp.set_attr(obj, name, cur)
            return None
        return run, []
    return build


def _read(name):
    def build(V, o):
        def run(itp, obj):
            return itp.get_attr(obj, name)
        return run, []
    return build


def arr(name, length_name=None, same_as_npts=False, lo=1, positive_first=False):
    def mk(V, o):
        if same_as_npts:
            n = o.attrs['_npts']
        else:
            n = z3.Int(length_name or (name + '_len'))
            V.assume(n >= lo)
        a = V.array(name, n, 'float', origin='param')
        if positive_first:
            V.assume(a[0] > 0)
        return a
    return mk


def real(name, positive=False):
    def mk(V, o):
        r = V.real(name)
        if positive:
            V.assume(r > 0)
        return r
    return mk


def integer(name, lo=None, hi=None):
    def mk(V, o):
        r = V.int(name)
        if lo is not None:
            V.assume(r >= lo)
        if hi is not None:
            V.assume(r <= hi)
        return r
    return mk


def other_signal(kind):
    def mk(V, o):
        if kind == 'not-a-signal':
            return V.array('not_a_signal', o.attrs['_npts'], origin='param')
        s2 = ObjVal(V.itp.get_function(S_ + 'Signal'))
        n2 = o.attrs['_npts'] if kind != 'other-length' else z3.Int('n_other')
        s2.attrs.update(_values=V.array('other_vals', n2, origin='owned'), _npts=n2,
                        _dt=o.attrs['_dt'] if kind != 'other-dt' else V.real('dt_other'))
        if kind == 'other-dt':
            V.assume(s2.attrs['_dt'] != o.attrs['_dt'])
        if kind == 'other-length':
            V.assume(n2 != o.attrs['_npts'], n2 >= 1)
        return s2
    return mk


def tz(kind):
    def mk(V, o):
        if kind == 'none':
            return None
        t0 = V.real('tz0')
        V.assume(t0 >= 0)
        if kind == 'open':
            return (t0, None)
        t1 = V.real('tz1')
        V.assume(t1 > t0)
        return (t0, t1)
    return mk


COMMON_OPS = {
    # value replacement / arithmetic
    'reset_values': _method('reset_values', arr('new_values', lo=2)),
    'add_constant': _method('add_constant', real('c')),
    'add_series': _method('add_series', arr('series', same_as_npts=True)),
    'add_series/length-mismatch': _method('add_series', arr('series', 'series_len')),
    'add_signal': _method('add_signal', other_signal('same')),
    'add_signal/other-dt': _method('add_signal', other_signal('other-dt')),
    'add_signal/other-length': _method('add_signal', other_signal('other-length')),
    'add_signal/not-a-signal': _method('add_signal', other_signal('not-a-signal')),
    'remove_average': _method('remove_average'),
    'remove_average/section': _method('remove_average', section=integer('section', 1)),
    'remove_poly/0': _method('remove_poly'),
    'remove_poly/1': _method('remove_poly', poly_fit=1),
    'remove_poly/2': _method('remove_poly', poly_fit=2),
    'running_average': _method('running_average', integer('width', 1)),
    'butter_pass/band': _method('butter_pass', lambda V, o: (V.real('f_lo'), V.real('f_hi'))),
    'butter_pass/low': _method('butter_pass', lambda V, o: (None, V.real('f_hi'))),
    'butter_pass/high': _method('butter_pass', lambda V, o: [V.real('f_lo'), None]),
    'butter_pass/gibbs-start': _method('butter_pass', lambda V, o: (V.real('f_lo'), V.real('f_hi')), remove_gibbs='start'),
    'butter_pass/gibbs-end': _method('butter_pass', lambda V, o: (V.real('f_lo'), V.real('f_hi')), remove_gibbs='end', filter_order=2),
    'butter_pass/gibbs-mid': _method('butter_pass', lambda V, o: (V.real('f_lo'), V.real('f_hi')), remove_gibbs='mid', gibbs_extra=2),
    # settings
    'smooth_fa_freqs=': _setattr('smooth_fa_freqs', arr('new_sff')),
    'smooth_fa_frequencies=': _setattr('smooth_fa_frequencies', arr('new_sff')),
    'set_smooth_fa_frequecies_by_range': _method('set_smooth_fa_frequecies_by_range', lambda V, o: (V.real('lim0'), V.real('lim1')), integer('n_points', 1)),
    'smooth_freq_range=': _setattr('smooth_freq_range', lambda V, o: (V.real('lim0'), V.real('lim1'))),
    'smooth_freq_points=': _setattr('smooth_freq_points', integer('n_points', 1)),
    'gen_smooth_fa_spectrum(smooth_fa_freqs=)': _method('gen_smooth_fa_spectrum', smooth_fa_freqs=arr('new_sff')),
    # explicit generator calls with default arguments and cache management
    'gen_fa_spectrum()': _method('gen_fa_spectrum'),
    'generate_fa_spectrum()': _method('generate_fa_spectrum'),
    'gen_smooth_fa_spectrum()': _method('gen_smooth_fa_spectrum'),
    'generate_smooth_fa_spectrum()': _method('generate_smooth_fa_spectrum'),
    'clear_cache()': _method('clear_cache'),
    'get_section_average': _method('get_section_average', start=0, end=-1, index=True),
}

ACC_OPS = {
    'response_times=': _setattr('response_times', arr('new_rt', lo=2, positive_first=True)),
    # the SAME array object edited in place and assigned again (python's `s.response_times *= c` is get, in-place multiply, set)
    'response_times*=c': _aug_attr('response_times', real('rt_factor', positive=True)),
    'response_times[0]=c;response_times=same-array': _edit_and_reassign('response_times', real('rt_first', positive=True)),
    'gen_response_spectrum(response_times=)': _method('gen_response_spectrum', response_times=arr('new_rt', lo=2, positive_first=True)),
    'generate_response_spectrum(response_times=)': _method('generate_response_spectrum', response_times=arr('new_rt', lo=2, positive_first=True)),
    'response_series(response_times=)': _method('response_series', response_times=arr('new_rt', lo=2, positive_first=True)),
    'response_series()': _method('response_series'),
    'gen_response_spectrum()': _method('gen_response_spectrum'),
    'generate_response_spectrum()': _method('generate_response_spectrum'),
    'generate_displacement_and_velocity_series()': _method('generate_displacement_and_velocity_series'),
    'reset_all_motion_stats()': _method('reset_all_motion_stats'),
    'correct_me': _method('correct_me'),
    'remove_rolling_average/velocity': _method('remove_rolling_average'),
    'remove_rolling_average/values': _method('remove_rolling_average', mtype='acc', freq_window=integer('freq_window', 1)),
    'rebase_displacement': _method('rebase_displacement'),
    'set_zero_residual_velocity': _method('set_zero_residual_velocity'),
    'set_zero_residual_velocity/timezone': _method('set_zero_residual_velocity', timezone=tz('closed')),
    'set_zero_residual_velocity/open-timezone': _method('set_zero_residual_velocity', timezone=tz('open')),
    'set_zero_residual_displacement': _method('set_zero_residual_displacement'),
    'set_zero_residual_displacement_and_velocity': _method('set_zero_residual_displacement_and_velocity'),
    'set_zero_residual_displacement_and_velocity/timezone': _method('set_zero_residual_displacement_and_velocity', timezone=tz('closed')),
    'set_zero_residual_displacement_and_velocity/open-timezone': _method('set_zero_residual_displacement_and_velocity', timezone=tz('open')),
    'generate_peak_values()': _method('generate_peak_values'),
}

FUNCS = [S_ + 'Signal.' + m for m in ('reset_values', 'clear_cache', 'add_constant', 'add_series', 'add_signal', 'remove_average', 'remove_poly',
                                      'running_average', 'butter_pass', 'gen_fa_spectrum', 'gen_smooth_fa_spectrum', 'set_smooth_fa_frequecies_by_range')] + \
        [S_ + 'AccSignal.' + m for m in ('clear_cache', 'reset_all_motion_stats', 'gen_response_spectrum', 'response_series', 'correct_me',
                                         'remove_rolling_average', 'rebase_displacement', 'set_zero_residual_velocity',
                                         'set_zero_residual_displacement', 'set_zero_residual_displacement_and_velocity',
                                         'generate_displacement_and_velocity_series')]


def run_op(V, cls, opname, build, readers, is_reader=False, check='cache', dtype='float', prewarm=False):
    st = {}

    def setup():
        CS.install_cache_summaries(V)
        o = CS.make_state(V, cls, cold=(check == 'own' or prewarm), dtype=dtype)
        if prewarm:
            # history prefix "read every derived quantity": warms every cache the object has, including any memoised
            # field this contract does not know about (the classic read -> mutate -> read pattern)
            for r in readers:
                V.itp.get_attr(o, r)
        run, params = build(V, o)
        st.update(o=o, run=run, params=params, pre=CS.shallow(o))
        return ((o,), {})

    def op(itp, o):
        return st['run'](itp, o)
    for out in V.run(op, setup):
        if out.ended is not None:
            out.side_conditions(skip=('nonzero-divisor', 'mean-of-nonempty', 'filtfilt-input-longer-than-padlen'))
            continue
        o = st['o']
        out.replay_info = dict(module='objects', cls=cls, op=opname, is_reader=is_reader, readers=list(readers))
        # loop-invariant obligations (frame-only) and shape side conditions of the operation itself
        out.side_conditions(skip=('nonzero-divisor', 'mean-of-nonempty', 'filtfilt-input-longer-than-padlen', 'non-negative-dimension',
                                  'store-shape-match', 'broadcast-shape', 'interp-xp-fp-same-length', 'fft-length-positive',
                                  'range-index-in-bounds', 'pad-width-non-negative', 'extreme-of-nonempty-axis', 'fancy-index-in-bounds',
                                  'insert-position-in-range', 'reshape-size'))
        if check == 'cache':
            CS.check_fresh_equivalence(V, out, o, readers)
        CS.check_ownership(V, out, o, st['params'])
        if check == 'own':
            out.replay_info = dict(module='objects', cls=cls, op=opname, is_reader=False, readers=[])
            CS.check_time_axis(V, out, o)
            continue
        if is_reader:
            pre = st['pre']
            want = CS.observe(V, CS.cold_clone(V, pre), opname)
            if out.raised is not None:
                out.prove('read-no-exception[%s]' % out.raised.kind, False)
            else:
                out.prove('read-returns-fresh-object-value', CS.values_equal(V, out.result, want))
            for k in ('_values', '_dt', '_npts', '_smooth_fa_freqs') + (('response_times',) if cls == 'AccSignal' else ()):
                out.prove('read-leaves-%s-untouched' % k, V.itp.get_attr(CS.shallow(o), k) is V.itp.get_attr(CS.shallow(pre), k))
            vals = o.attrs['_values']
            out.prove('read-does-not-write-values', vals.buf.version == 0)


def _cases(cls):
    ops = dict(COMMON_OPS)
    if cls == 'AccSignal':
        ops.update(ACC_OPS)
    return [dict(cls=cls, op=k) for k in ops]


@unit('C04', 'operation-preserves-fresh-equivalence', functions=FUNCS, cases=_cases('AccSignal') + _cases('Signal'), modes=('unbounded',), budget_ms=3000)
def op_preserves(V, cls, op):
    ops = dict(COMMON_OPS)
    ops.update(ACC_OPS)
    readers = CS.READERS_ACC if cls == 'AccSignal' else CS.READERS_SIGNAL
    run_op(V, cls, op, ops[op], readers)


@unit('C04', 'read-is-idempotent-and-fresh', functions=[S_ + 'Signal.' + r for r in CS.READERS_SIGNAL if r not in ('values', 'dt')] +
      [S_ + 'AccSignal.' + r for r in ('velocity', 'displacement', 'pga', 'pgv', 'pgd', 's_a', 's_v', 's_d')],
      cases=[dict(cls='AccSignal', reader=r) for r in CS.READERS_ACC] + [dict(cls='Signal', reader=r) for r in CS.READERS_SIGNAL],
      modes=('unbounded',), budget_ms=3000)
def read_idempotent(V, cls, reader):
    readers = CS.READERS_ACC if cls == 'AccSignal' else CS.READERS_SIGNAL
    run_op(V, cls, reader, _read(reader), readers, is_reader=True)


@unit('C04', 'constructor-establishes-invariant', functions=[S_ + 'Signal.__init__', S_ + 'AccSignal.__init__'],
      cases=[dict(cls='Signal'), dict(cls='AccSignal')], modes=('unbounded',))
def constructor(V, cls):
    st = {}

    def setup():
        CS.install_cache_summaries(V)
        n = V.size('n', 2)
        a = V.array('a', n, origin='param')
        dt = V.real('dt')
        V.assume(dt > 0)
        st.update(a=a)
        return ((a, dt), {})
    for out in V.run(S_ + cls, setup):
        if not out.no_raise():
            continue
        o = out.result
        readers = CS.READERS_ACC if cls == 'AccSignal' else CS.READERS_SIGNAL
        CS.check_fresh_equivalence(V, out, o, readers)
        CS.check_ownership(V, out, o, [('values', st['a'])])
        out.prove('constructor-caches-cold', T.sand(T.snot(V.itp.get_attr(o, '_cached_fa')), T.snot(V.itp.get_attr(o, '_cached_smooth_fa'))))


MUTATING = [k for k in list(COMMON_OPS) + list(ACC_OPS) if not k.endswith('()') and k not in ('get_section_average',)]


@unit('C04', 'operation-after-reading-everything', functions=FUNCS,
      cases=[dict(cls='AccSignal', op=k) for k in MUTATING] + [dict(cls='Signal', op=k) for k in MUTATING if k in COMMON_OPS],
      modes=('unbounded',), budget_ms=3000)
def op_after_reads(V, cls, op):
    ops = dict(COMMON_OPS)
    ops.update(ACC_OPS)
    readers = CS.READERS_ACC if cls == 'AccSignal' else CS.READERS_SIGNAL
    run_op(V, cls, op, ops[op], readers, prewarm=True)


# ---------------------------------------------------------------------------- the smoothing settings mean what they say
@unit('C04', 'smoothing-settings-setters', functions=[S_ + 'Signal.smooth_freq_range', S_ + 'Signal.smooth_freq_points', S_ + 'Signal.smooth_fa_freqs',
                                                     S_ + 'Signal.set_smooth_fa_frequecies_by_range'],
      cases=[dict(cls=c, op=o) for c in ('Signal', 'AccSignal') for o in ('points', 'range', 'by_range', 'freqs')], modes=('unbounded',), budget_ms=10000)
def smoothing_settings(V, cls, op):
    """From an ARBITRARY state (any smoothing frequencies, whatever stale bookkeeping the object carries): after `smooth_freq_points = k` the
    smoothing frequencies are k log-spaced points over the range CURRENTLY in force (first and last of the frequencies held before);
    after `smooth_freq_range = (a, b)` the CURRENT number of points over (a, b); `set_smooth_fa_frequecies_by_range(limits, k)` k points
    over the limits; `smooth_fa_freqs = f` exactly f.  A fresh object with those settings reports the same frequencies, so these clauses
    are what 'equals a freshly constructed object with the same settings' means for the settings themselves."""
    st = {}

    def setup():
        CS.install_cache_summaries(V)
        o = CS.make_state(V, cls)
        pre = o.attrs['_smooth_fa_freqs']
        m = pre.shape[0]
        V.assume(pre[0] > 0, pre[T.ssub(m, 1)] > 0)
        k = V.int('k_points')
        V.assume(k >= 1)
        a, b = V.real('lim_a'), V.real('lim_b')
        V.assume(a > 0, b > 0)
        f = V.array('new_freqs', z3.Int('n_new'), origin='param')
        V.assume(z3.Int('n_new') >= 1)
        st.update(o=o, pre0=pre[0], pre1=pre[T.ssub(m, 1)], m=m, k=k, a=a, b=b, f=f)
        return ((o,), {})

    def run(itp, o):
        if op == 'points':
            itp.set_attr(o, 'smooth_freq_points', st['k'])
        elif op == 'range':
            itp.set_attr(o, 'smooth_freq_range', (st['a'], st['b']))
        elif op == 'by_range':
            itp.call(itp.get_attr(o, 'set_smooth_fa_frequecies_by_range'), [(st['a'], st['b']), st['k']], {})
        else:
            itp.set_attr(o, 'smooth_fa_freqs', st['f'])
        return itp.get_attr(o, 'smooth_fa_freqs')
    for out in V.run(run, setup):
        if not out.no_raise():
            continue
        out.replay_info = dict(module='objects', kind='c04-smoothing-settings', cls=cls, op=op)
        got = out.result
        lg = lambda v: V.np.np_log10(v)
        if op == 'points':
            want = V.np.np_logspace(lg(st['pre0']), lg(st['pre1']), st['k'], base=10)
        elif op == 'range':
            want = V.np.np_logspace(lg(st['a']), lg(st['b']), st['m'], base=10)
        elif op == 'by_range':
            want = V.np.np_logspace(lg(st['a']), lg(st['b']), st['k'], base=10)
        else:
            want = st['f']
        out.prove('smoothing-frequencies-are-what-the-settings-say/count', T.seq(got.shape[0], want.shape[0]))
        for j in V.idx(0, want.shape[0], 'jf'):
            out.prove('smoothing-frequencies-are-what-the-settings-say/values', T.seq(got[j], want[j]))
        out.prove('smoothed-spectrum-is-dropped', T.seq(st['o'].attrs['_cached_smooth_fa'], False))

"""C05 -- signal objects own their data; analysis functions do not mutate their inputs.

(a) Ownership invariant of Signal/AccSignal: after the constructor and after EVERY public mutator run from an arbitrary
    state, `values` is a numeric ndarray on a buffer that no caller array shares, len(values) == npts,
    time == dt*[0..npts-1], and no array argument was written (unbounded: symbolic lengths, alias tracking of the executor).
(b) Frame `assigns nothing` for the public array-level functions: every array / signal argument is unchanged after the call
    (unbounded where the function is within the closure engine's reach, else bounded symbolic at the stated sizes).
"""
import z3

from pyvc.api import unit, Skip
from pyvc import terms as T
from pyvc import spec as S
from pyvc.terms import Q
from pyvc.arrays import is_arr, CArr, BArr

import contracts_common_signal as CS
import contracts_c04_cache as C4

S_ = 'eqsig.single.'

MUTATORS = ['reset_values', 'add_constant', 'add_series', 'add_signal', 'remove_average', 'remove_average/section', 'remove_poly/0', 'remove_poly/1',
            'running_average', 'butter_pass/band', 'butter_pass/low', 'butter_pass/gibbs-mid', 'add_series/length-mismatch', 'add_signal/other-dt']
ACC_MUTATORS = ['correct_me', 'remove_rolling_average/velocity', 'remove_rolling_average/values', 'rebase_displacement',
                'set_zero_residual_velocity', 'set_zero_residual_velocity/timezone', 'set_zero_residual_velocity/open-timezone',
                'set_zero_residual_displacement', 'set_zero_residual_displacement_and_velocity',
                'set_zero_residual_displacement_and_velocity/timezone', 'set_zero_residual_displacement_and_velocity/open-timezone']


@unit('C05', 'mutator-preserves-ownership', functions=C4.FUNCS,
      cases=[dict(cls='AccSignal', op=o, dtype='float') for o in MUTATORS + ACC_MUTATORS] + [dict(cls='Signal', op=o, dtype='float') for o in MUTATORS] +
            [dict(cls='Signal', op=o, dtype='int') for o in ('add_constant', 'add_series', 'remove_average', 'reset_values')],
      modes=('unbounded',), budget_ms=5000)
def mutator_ownership(V, cls, op, dtype):
    ops = dict(C4.COMMON_OPS)
    ops.update(C4.ACC_OPS)
    C4.run_op(V, cls, op, ops[op], [], check='own', dtype=dtype)


@unit('C05', 'constructor-owns-its-data', functions=[S_ + 'Signal.__init__', S_ + 'AccSignal.__init__'],
      cases=[dict(cls=c, container=k, dtype=d) for c in ('Signal', 'AccSignal') for k, d in (('array', 'float'), ('array', 'int'), ('list', 'float'), ('tuple', 'float'))],
      modes=('unbounded', 'bounded'), sizes=dict(n=[3]))
def constructor_owns(V, cls, container, dtype):
    st = {}
    if container != 'array' and V.mode == 'unbounded':
        raise Skip()                        # python lists have a concrete length: covered by the bounded mode

    def setup():
        CS.install_cache_summaries(V)
        n = V.size('n', 2)
        a = V.array('a', n, dtype, origin='param')
        dt = V.real('dt')
        V.assume(dt > 0)
        arg = a if container == 'array' else ([a[k] for k in range(n)] if container == 'list' else tuple(a[k] for k in range(n)))
        st.update(a=a, arg=arg, n=n)
        return ((arg, dt), {})
    for out in V.run(S_ + cls, setup):
        if not out.no_raise():
            continue
        o = out.result
        CS.check_ownership(V, out, o, [('values', st['a'])] if container == 'array' else [])
        CS.check_time_axis(V, out, o)
        vals = o.attrs['_values']
        for k in V.idx(0, st['n']):
            out.prove('values-equal-the-constructor-argument', T.seq(vals[k], st['a'][k]))
        if container == 'array':
            out.unchanged('a', st['a'])


# ------------------------------------------------------------------------------------------ (b) frame of array functions
def A_(name, n='n', dtype='float', pos=False, asc=False):
    return ('arr', name, n, dtype, pos, asc)


def SIG(name='a', cls='AccSignal'):
    return ('sig', name, cls)


R_ = lambda name, pos=True: ('real', name, pos)

FRAME_TABLE = {
    # qualname: (kwargs spec, sizes)
    'eqsig.displacements.calc_velo_and_disp_from_accel_arr': (dict(acceleration=A_('a'), dt=R_('dt')), {}),
    'eqsig.sdof.nigam_and_jennings_response': (dict(acc=A_('a'), dt=R_('dt'), periods=A_('T', 'P', pos=True), xi=Q('0.05')), {}),
    'eqsig.sdof.response_series': (dict(motion=A_('a'), dt=R_('dt'), periods=A_('T', 'P', pos=True), xi=Q('0.05')), {}),
    'eqsig.sdof.pseudo_response_spectra': (dict(motion=A_('a'), dt=R_('dt'), periods=A_('T', 'P', pos=True), xi=Q('0.05')), {}),
    'eqsig.sdof.true_response_spectra': (dict(motion=A_('a'), dt=R_('dt'), periods=A_('T', 'P', pos=True), xi=Q('0.05')), {}),
    'eqsig.sdof.absmax': (dict(a=A_('a')), {}),
    'eqsig.sdof.calc_resp_uke_spectrum': (dict(acc_signal=SIG(), periods=A_('T', 'P', pos=True)), {}),
    'eqsig.sdof.calc_input_energy_spectrum': (dict(acc_signal=SIG(), periods=A_('T', 'P', pos=True)), {}),
    'eqsig.im.calc_sig_dur_vals': (dict(motion=A_('a'), dt=R_('dt')), {}),
    'eqsig.im.calc_sig_dur': (dict(asig=SIG()), {}),
    'eqsig.im.calc_peak': (dict(motion=A_('a')), {}),
    'eqsig.im.calc_arias_intensity': (dict(acc_sig=SIG()), {}),
    'eqsig.im.calc_cav': (dict(acc_sig=SIG()), {}),
    'eqsig.im.calc_isv': (dict(acc_sig=SIG()), {}),
    'eqsig.im.calc_brac_dur': (dict(asig=SIG(), threshold=R_('thr')), {}),
    'eqsig.im.calc_integral_of_abs_velocity': (dict(asig=SIG()), {}),
    'eqsig.im.calc_integral_of_abs_acceleration': (dict(asig=SIG()), {}),
    'eqsig.im.calc_unit_kinetic_energy': (dict(acc_signal=SIG()), {}),
    'eqsig.im.calc_n_cyc_array_w_power_law': (dict(values=A_('a'), a_ref=R_('a_ref'), b=Q('0.3')), {}),
    'eqsig.im.calc_cyc_amp_array_w_power_law': (dict(values=A_('a'), n_cyc=R_('ncyc'), b=Q('0.3')), {}),
    'eqsig.im.calc_cyc_amp_gm_arrays_w_power_law': (dict(values0=A_('a'), values1=A_('b'), n_cyc=R_('ncyc'), b=Q('0.3')), {'n': 3}),
    'eqsig.im.calc_cyc_amp_combined_arrays_w_power_law': (dict(values0=A_('a'), values1=A_('b'), n_cyc=R_('ncyc'), b=Q('0.3')), {'n': 3}),
    'eqsig.im.max_fa_period': (dict(asig=SIG()), {}),
    'eqsig.fns.average.get_section_average': (dict(series=SIG(), start=0, end=-1, index=True), {}),
    'eqsig.fns.average.calc_step_fn_vals_error': (dict(values=A_('a')), {}),
    'eqsig.fns.average.calc_step_fn_steps_vals': (dict(values=A_('a'), ind=1), {}),
    'eqsig.fns.average.calc_roll_av_vals': (dict(values=A_('a'), steps=2), {}),
    'eqsig.fns.frequency.calc_smooth_fa_spectrum': (dict(fa_frequencies=A_('f', pos=True, asc=True), fa_spectrum=A_('F'), smooth_fa_frequencies=A_('sf', 'P', pos=True)), {}),
    'eqsig.fns.frequency.calc_smoothing_matrix_konno_1998': (dict(fa_frequencies=A_('f', pos=True, asc=True), smooth_fa_frequencies=A_('sf', 'P', pos=True)), {}),
    'eqsig.fns.frequency.get_sig_array_indexes_range': (dict(fas1_smooth=A_('F', pos=True)), {}),
    'eqsig.fns.frequency.generate_fa_spectrum': (dict(sig=SIG()), {}),
    'eqsig.fns.frequency.calc_fa_spectrum': (dict(sig=SIG()), {}),
    'eqsig.fns.frequency.fas2values': (dict(fas=A_('F', dtype='complex'), dt=R_('dt')), {}),
    'eqsig.fns.generic.interp2d': (dict(x=A_('x', 'P'), xf=A_('xf', asc=True), f=('arr2', 'f', 'n', 2)), {}),
    'eqsig.fns.generic.interp_left': (dict(x0=A_('x0', 'P', pos=True), x=A_('x', pos=True, asc=True), y=A_('y')), {}),
    'eqsig.fns.generic.remove_poly': (dict(values=A_('a'), poly_fit=1), {}),
    'eqsig.fns.peaks_and_crossings.get_peak_array_indices': (dict(values=A_('a')), {}),
    'eqsig.fns.peaks_and_crossings.get_zero_crossings_array_indices': (dict(values=A_('a')), {}),
    'eqsig.fns.peaks_and_crossings.get_switched_peak_array_indices': (dict(values=A_('a')), {}),
    'eqsig.fns.peaks_and_crossings.determine_peaks_only_delta_series': (dict(values=A_('a')), {}),
    'eqsig.fns.peaks_and_crossings.determine_pseudo_cyclic_peak_only_series': (dict(values=A_('a')), {}),
    'eqsig.fns.peaks_and_crossings.get_n_cyc_array': (dict(values=A_('a')), {}),
    'eqsig.fns.peaks_and_crossings.clean_out_non_changing': (dict(values=A_('a')), {}),
    'eqsig.fns.peaks_and_crossings.get_zero_and_peak_array_indices': (dict(pvals=A_('a')), {}),
    'eqsig.displacements.velocity_and_displacement_from_acceleration': (dict(acceleration=A_('a'), dt=R_('dt')), {}),
    'eqsig.fns.frequency.generate_smooth_fa_spectrum': (dict(smooth_fa_frequencies=A_('sf', 'P', pos=True), fa_frequencies=A_('f', pos=True, asc=True), fa_spectrum=A_('F')), {}),
    'eqsig.fns.frequency.fas2signal': (dict(fas=A_('F', dtype='complex'), dt=R_('dt')), {}),
    'eqsig.fns.peaks_and_crossings.determine_indices_of_peaks_for_cleaned_array': (dict(values=A_('a')), {}),
    'eqsig.fns.peaks_and_crossings.determine_peak_only_delta_series_4_cleaned_data': (dict(values=A_('a')), {}),
    'eqsig.fns.peaks_and_crossings.get_peak_indices': (dict(asig=SIG()), {}),
    'eqsig.fns.peaks_and_crossings.get_zero_crossings_indices': (dict(asig=SIG()), {}),
    'eqsig.fns.peaks_and_crossings.get_switched_peak_indices': (dict(asig=SIG()), {}),
    'eqsig.fns.time_shift.join_sig_w_time_shift': (dict(sig=SIG(), time_shifts=('consts', ['0.01', '0.03'])), {}),
    'eqsig.fns.time_step.time_series_from_motion': (dict(motion=A_('a'), dt=R_('dt')), {}),
    'eqsig.im.calc_significant_duration': (dict(motion=A_('a'), dt=R_('dt')), {}),
    'eqsig.im.calculate_peak': (dict(motion=A_('a')), {}),
    'eqsig.im.calc_cav_dp': (dict(asig=SIG()), {}),
    'eqsig.im.calc_bracketed_duration': (dict(asig=SIG(), threshold=R_('thr')), {}),
    'eqsig.im.calc_cumulative_abs_displacement': (dict(asig=SIG()), {}),
    'eqsig.stockwell.get_stockwell_freqs': (dict(asig=SIG()), {}),
    'eqsig.stockwell.get_stockwell_times': (dict(asig=SIG()), {}),
    'eqsig.fns.peaks_and_crossings.get_major_change_indices': (dict(y=A_('a')), {}),
    'eqsig.fns.peaks_and_crossings.get_major_change_indices#dx': (dict(y=A_('a'), dx=R_('dx')), {}),
    'eqsig.fns.peaks_and_crossings.get_major_change_indices#already-differentiated-with-dx': (dict(y=A_('a'), already_diff=True, dx=R_('dx')), {}),
    'eqsig.fns.time_shift.put_array_in_2d_array': (dict(values=A_('a'), shifts=('ints', [0, 2, 1])), {}),
    'eqsig.fns.time_shift.join_values_w_shifts': (dict(values=A_('a'), shifts=('ints', [0, 2, 1])), {}),
    'eqsig.fns.time_step.interp_array_to_approx_dt': (dict(values=A_('a'), dt=Q('0.02'), target_dt=Q('0.01')), {}),
    'eqsig.fns.time_step.interp_to_approx_dt': (dict(asig=SIG(), target_dt=Q('0.005')), {}),
    'eqsig.fns.time_step.resample_to_approx_dt': (dict(asig=SIG(), target_dt=Q('0.005')), {}),
    'eqsig.stockwell.transform': (dict(acc=A_('a')), {}),
    'eqsig.stockwell.transform_w_scipy_fft': (dict(acc=A_('a')), {}),
    'eqsig.stockwell.itransform': (dict(stock=('arr2c', 'S', 2, 4)), {}),
    'eqsig.stockwell.get_max_tifq_vals_freq': (dict(tifq_values=('arr2c', 'S', 2, 4), dt=R_('dt')), {}),
    'eqsig.surface.calc_surface_energy': (dict(asig=SIG(), travel_times=('consts', ['0.01', '0.02'])), {}),
    'eqsig.surface.calc_cum_abs_surface_energy': (dict(asig=SIG(), travel_times=('consts', ['0.01', '0.02'])), {}),
    'eqsig.surface.get_time_shift_motions': (dict(asig=SIG(), travel_times=('consts', ['0.01', '0.02'])), {}),
    # option variants ('#tag' after the qualified name): delays shorter than half a step (no padding at all), the surface itself,
    # scalar / per-row reduction factors other than 1, non-nodal, untrimmed; rectangle rule; kept adjacent zeros; tolerance
    'eqsig.surface.calc_surface_energy#no-delay-scalar-reductions': (dict(asig=SIG(), travel_times=Q(0), up_red=R_('up_red'), down_red=R_('down_red')), {}),
    'eqsig.surface.calc_surface_energy#sub-step-delays-scalar-reductions': (dict(asig=SIG(), travel_times=('consts', ['0', '0.004']), up_red=R_('up_red'), down_red=R_('down_red'), nodal=False, trim=False), {}),
    'eqsig.surface.calc_surface_energy#row-reductions': (dict(asig=SIG(), travel_times=('consts', ['0', '0.02']), up_red=('consts', ['0.9', '0.8']), down_red=('consts', ['0.7', '0.6'])), {}),
    'eqsig.surface.calc_cum_abs_surface_energy#no-delay-scalar-reductions': (dict(asig=SIG(), travel_times=('consts', ['0', '0.004']), up_red=R_('up_red'), down_red=R_('down_red')), {}),
    'eqsig.surface.get_time_shift_motions#no-delay': (dict(asig=SIG(), travel_times=('consts', ['0', '0.004']), up_red=R_('up_red'), down_red=R_('down_red')), {}),
    'eqsig.displacements.calc_velo_and_disp_from_accel_arr#rectangle': (dict(acceleration=A_('a'), dt=R_('dt'), trap=False), {}),
    'eqsig.fns.peaks_and_crossings.get_zero_crossings_array_indices#keep-adjacent-zeros': (dict(values=A_('a'), keep_adj_zeros=True), {}),
    'eqsig.fns.peaks_and_crossings.get_switched_peak_array_indices#tolerance': (dict(values=A_('a'), tol=R_('tol')), {'n': 3}),
    'eqsig.fns.time_step.interp_array_to_approx_dt#decimate-odd': (dict(values=A_('a'), dt=Q('0.01'), target_dt=Q('0.02'), even=False), {}),
    'eqsig.fns.average.calc_roll_av_vals#centre': (dict(values=A_('a'), steps=3, mode='centre'), {}),
    'eqsig.multiple.combine_at_angle': (dict(acc_sig_ns=SIG('a'), acc_sig_we=SIG('b'), angle=R_('theta', False)), {}),
    'eqsig.multiple.compute_rotated': (dict(acc_sig_ns=SIG('a'), acc_sig_we=SIG('b'), parameter='pga', points=3), {}),
}


@unit('C05', 'array-function-leaves-arguments-unchanged', functions=sorted({k.split('#')[0] for k in FRAME_TABLE}),
      cases=[dict(fn=f) for f in sorted(FRAME_TABLE)], modes=('bounded',), sizes=dict(n=[4], P=[2]), budget_ms=5000)
def frame_bounded(V, fn):
    spec, override = FRAME_TABLE[fn]
    fn = fn.split('#')[0]
    st = {'arrays': {}, 'sigs': {}}
    _size = V.size
    V.size = lambda name, lo=0: min(_size(name, lo), override.get(name, 10 ** 6))       # smaller size for path-heavy functions

    def build(v):
        if isinstance(v, tuple) and v and v[0] == 'arr':
            _, name, n, dtype, pos, asc = v
            size = V.size(n, 1)
            a = V.array(name, size, dtype, origin='param')
            if dtype != 'complex':
                for k in range(size):
                    if pos:
                        V.assume(T.sgt(a[k], 0))
                    if asc and k:
                        V.assume(T.slt(a[k - 1], a[k]))
            st['arrays'][name] = a
            return a
        if isinstance(v, tuple) and v and v[0] in ('arr2', 'arr2c'):
            _, name, n, c = v
            rows = V.size(n, 1) if isinstance(n, str) else n
            a = V.array(name, (rows, c), 'complex' if v[0] == 'arr2c' else 'float', origin='param')
            st['arrays'][name] = a
            return a
        if isinstance(v, tuple) and v and v[0] == 'sig':
            _, name, cls = v
            size = V.size('n', 1)
            raw = V.array(name + '_raw', size, origin='param')
            sig = S.make_signal(V, cls, raw, Q('0.01'))
            st['sigs'][name] = (sig, sig.attrs['_values'], sig.attrs['_values'].copy() if isinstance(sig.attrs['_values'], BArr) else None)
            return sig
        if isinstance(v, tuple) and v and v[0] == 'real':
            r = V.real(v[1])
            if v[2]:
                V.assume(r > 0)
            return r
        if isinstance(v, tuple) and v and v[0] == 'ints':
            return V.np.np_array(list(v[1]))
        if isinstance(v, tuple) and v and v[0] == 'consts':
            return V.np.np_array([Q(c) for c in v[1]])
        return v

    def setup():
        CS_install = None
        return {k: build(v) for k, v in spec.items()}
    n_out = 0
    for out in V.run(fn, setup):
        n_out += 1
        # exceptions are not the subject here (other properties state the domains); the frame must hold either way
        for name, a in st['arrays'].items():
            out.unchanged(name, a)
        for name, (sig, vals, snap) in st['sigs'].items():
            out.prove('signal-%s-keeps-its-values-object' % name, sig.attrs['_values'] is vals)
            if isinstance(vals, BArr) and snap is not None:
                same = all(vals.a[ix] is snap.a[ix] or T.seq(vals.a[ix], snap.a[ix]) is True for ix in __import__('numpy').ndindex(*vals.a.shape)) \
                    and vals.a.shape == snap.a.shape
                out.prove('signal-%s-values-unchanged' % name, same)
            # the signal is only READ: its cached derived series are those of a fresh object too (an analysis function that
            # edits a cached series in place, or leaves a private memo behind, corrupts the next analysis of the same object)
            if out.raised is None and sig.cls.name == 'AccSignal':
                CS.check_fresh_equivalence(V, out, sig, ['velocity', 'displacement'], tag='signal-%s/' % name)
        if n_out > 40:
            break


# ----------------------------------------------------------------------------- cluster-level mutators keep every signal well formed
M_ = 'eqsig.multiple.'


@unit('C05', 'Cluster.time_match/same_start-keep-signals-well-formed', functions=[M_ + 'Cluster.time_match', M_ + 'Cluster.same_start'],
      cases=[dict(op='time_match', lag=l, master=m, extra=e, dtype=d) for l in (-1, 0, 1) for m in (0, 1) for e in (0, 2) for d in ('float',)] +
            [dict(op='time_match', lag=1, master=0, extra=2, dtype='int'), dict(op='same_start', lag=0, master=0, extra=0, dtype='float'),
             dict(op='same_start', lag=0, master=1, extra=2, dtype='float')],
      modes=('bounded',), sizes=dict(n=[5]), budget_ms=30000)
def cluster_mutators(V, op, lag, master, extra, dtype):
    """Two-signal clusters whose second record may be LONGER than the first (extra trailing samples) and lags the first by `lag`
    samples: after the cluster-level mutator every signal still holds a numeric array whose length equals npts, time = dt*[0..npts-1],
    and the caller's arrays are unchanged."""
    st = {}

    def setup():
        CS.install_cache_summaries(V)
        n = V.size('n', 5)
        x = V.array('x', n, dtype, origin='param')
        pad = V.array('pad', n + extra, dtype, origin='param')
        y = V.np.np_array([x[i - lag] if 0 <= i - lag < n else pad[i] for i in range(n + extra)])
        arrs = [x, y] if master == 0 else [y, x]
        st.update(x=x, pad=pad, n=n)
        c = V.itp.call(V.itp.get_function(M_ + 'Cluster'), [arrs, Q('0.5')], dict(master_index=master))
        st['c'] = c
        if op == 'time_match':
            return ((c,), dict(steps=2))
        return ((c,), {})
    for out in V.run(M_ + 'Cluster.' + op, setup):
        out.replay_info = dict(module='cluster', op='well-formed', which=op, lag=lag, master=master, extra=extra, dtype=dtype)
        if not out.no_raise():
            continue
        c = st['c']
        sigs = [V.itp.call(V.itp.get_attr(c, 'signal_by_index'), [j], {}) for j in range(2)]
        for j, sg in enumerate(sigs):
            CS.check_ownership(V, out, sg, tag='signal-%d/' % j)
            CS.check_time_axis(V, out, sg, tag='signal-%d/' % j)
        out.unchanged('x', st['x'])
        out.unchanged('pad', st['pad'])

"""C06 -- the Fourier amplitude spectrum is dt x DFT of the zero-padded record on the stated grid."""
import z3

from pyvc.api import unit, Skip
from pyvc import terms as T
from pyvc import arrays as A
from pyvc import spec as S
from pyvc.terms import Q
from pyvc.arrays import is_arr, CArr

import contracts_common_signal as CS

FR = 'eqsig.fns.frequency.'


def dft_calls(out, name='dft'):
    return [c for c in out.cx.cache.get('opaque-calls', []) if c[0] == name]


def spectrum_clauses(V, out, fa, freqs, x, n, dt, N, budget_ms=None, skip=0):
    """fa[k] = dt * DFT_N(zero padded x)[k] for k < floor(N/2), frequencies k/(N dt); DFT uninterpreted (one call, checked input)."""
    calls = dft_calls(out)[skip:]
    out.prove('exactly-one-DFT', len(calls) == 1)
    if len(calls) != 1:
        # no (or more than one) transform for this request: state the remaining clauses against the transform of the padded record itself
        padded = CArr.from_fn(lambda k: T.site(T.slt(k, n), A.to_carr(x).at(k), 0), (N,), 'float')
    else:
        padded = calls[0][1][0]
    out.prove('DFT-length-is-N', T.seq(padded.shape[0], N))
    for k in V.idx(0, N, 'kp'):
        out.prove('DFT-input-is-the-zero-padded-record', T.seq(A.to_carr(padded).at(k), T.site(T.slt(k, n), A.to_carr(x).at(k), 0)))
    F = V.np.opaque_array('dft', [padded], (N,), 'complex')
    half = T.sfloordiv(N, 2) if isinstance(T.N(N), int) else T.strunc(T.sdiv(N, 2))
    out.prove('half-spectrum-length', T.sand(T.seq(fa.shape[0], half), T.seq(freqs.shape[0], half)))
    for k in V.idx(0, half, 'k'):
        out.prove('spectrum-is-dt-times-DFT', T.seq(fa[k], T.smul(A.to_carr(F).at(k), dt)))
        out.prove('frequency-grid-is-k/(N*dt)', T.seq(freqs[k], T.sdiv(k, T.smul(N, dt))), budget_ms=budget_ms)


@unit('C06', 'Signal.gen_fa_spectrum', functions=['eqsig.single.Signal.gen_fa_spectrum', 'eqsig.single.Signal.fa_spectrum', 'eqsig.single.Signal.fa_frequencies'],
      cases=[dict(how=h, cls=c, pre=p) for h in ('default', 'p2_plus', 'n-even', 'n-odd', 'lazy') for c in ('Signal', 'AccSignal')
             for p in ('fresh', 'after-gen(n=N0)') if not (h == 'lazy' and p != 'fresh')], modes=('unbounded',), budget_ms=20000)
def gen_fa(V, how, cls, pre):
    """pre='after-gen(n=N0)': the object already holds the spectrum of an EARLIER explicit request with any other length N0 (every
    reachable state of the Fourier cache); an explicit gen_fa_spectrum(...) must still produce the spectrum that was asked for."""
    st = {}

    def setup():
        CS.install_cache_summaries(V)
        n = V.size('n', 2)
        x = V.array('x', n, origin='param')
        dt = V.real('dt')
        V.assume(dt > 0)
        sig = S.make_signal(V, cls, x, dt)
        st.update(n=n, x=x, dt=dt, sig=sig)
        if pre != 'fresh':
            N0 = V.int('N0')
            V.assume(N0 >= 2)
            st['N0'] = N0
        if how == 'p2_plus':
            p = V.int('p2_plus')
            V.assume(p >= 0, p <= 3)
            st['N'] = T.pow2(T.sadd(T.strunc(T.to_real(T.sceil(T.slog(n, 2)))), p))
            st['kw'] = dict(p2_plus=p)
        elif how in ('n-even', 'n-odd'):
            m = V.int('m')
            V.assume(m >= 1)
            N = T.smul(2, m) if how == 'n-even' else T.sadd(T.smul(2, m), 1)
            st['N'] = N
            st['kw'] = dict(n=N)
        else:
            st['N'] = T.pow2(T.strunc(T.to_real(T.sceil(T.slog(n, 2)))))
            st['kw'] = {}
        return ((sig,), {})

    def op(itp, sig):
        if pre != 'fresh':
            itp.call(itp.get_attr(sig, 'gen_fa_spectrum'), [], dict(n=st['N0']))
        st['skip'] = len([c for c in T.ctx().cache.get('opaque-calls', []) if c[0] == 'dft'])
        if how != 'lazy':
            itp.call(itp.get_attr(sig, 'gen_fa_spectrum'), [], st['kw'])
        return itp.get_attr(sig, 'fa_spectrum'), itp.get_attr(sig, 'fa_frequencies')
    for out in V.run(op, setup):
        out.replay_info = dict(module='fourier', cls=cls, how=how, pre=pre)
        if not out.no_raise():
            continue
        fa, freqs = out.result
        spectrum_clauses(V, out, fa, freqs, st['x'], st['n'], st['dt'], st['N'], skip=st['skip'])
        out.unchanged('x', st['x'])


@unit('C06', 'array-level-fa-spectrum', functions=[FR + 'generate_fa_spectrum', FR + 'calc_fa_spectrum'],
      cases=[dict(fn='generate_fa_spectrum', how='padded'), dict(fn='generate_fa_spectrum', how='unpadded'),
             dict(fn='calc_fa_spectrum', how='unpadded'), dict(fn='calc_fa_spectrum', how='n')] +
            [dict(fn='calc_fa_spectrum', how='p2_plus', p=k) for k in (0, 1, 2, 3)],       # every value of the property's domain, 0 included (falsy)
      modes=('unbounded',), budget_ms=20000)
def array_level(V, fn, how, p=None):
    st = {}

    def setup():
        CS.install_cache_summaries(V)
        n = V.size('n', 2)
        x = V.array('x', n, origin='param')
        dt = V.real('dt')
        V.assume(dt > 0)
        sig = S.make_signal(V, 'Signal', x, dt)
        st.update(n=n, x=x, dt=dt)
        base = T.strunc(T.to_real(T.sceil(T.slog(n, 2))))
        if how == 'padded':
            st['N'] = T.pow2(base)
            return dict(sig=sig, n_pad=True)
        if how == 'unpadded':
            st['N'] = n
            return dict(sig=sig, n_pad=False) if fn == 'generate_fa_spectrum' else dict(sig=sig)
        if how == 'p2_plus':
            st['N'] = T.pow2(T.sadd(base, p))
            return dict(sig=sig, p2_plus=p)
        N = V.int('N')
        V.assume(N >= 2)
        st['N'] = N
        return dict(sig=sig, n=N)
    for out in V.run(FR + fn, setup):
        out.replay_info = dict(module='fourier', op='array', fn=fn, how=how, p=p)
        if not out.no_raise():
            continue
        ok = isinstance(out.result, tuple) and len(out.result) == 2
        out.prove('returns-(spectrum, frequencies)', ok)
        if ok:
            spectrum_clauses(V, out, out.result[0], out.result[1], st['x'], st['n'], st['dt'], st['N'])
        out.unchanged('x', st['x'])


# ---------------------------------------------------------------------------- exact small DFTs: round trip, Parseval, dominant bin
def _cx_abs2(c):
    c = T.as_cx(c)
    return T.sadd(T.smul(c.re, c.re), T.smul(c.im, c.im))


@unit('C06', 'exact-DFT/round-trip-and-Parseval', functions=['eqsig.single.Signal.gen_fa_spectrum', FR + 'fas2values', FR + 'fas2signal'],
      cases=[dict(via='fas2values'), dict(via='fas2signal')], modes=('bounded',), sizes=dict(N=[4, 8]), budget_ms=60000)
def round_trip(V, via):
    """N in {4, 8}: the DFT is computed EXACTLY (twiddle factors 1, i, sqrt(1/2)), so the whole chain is checked, not only its structure."""
    st = {}

    def setup():
        CS.install_cache_summaries(V)
        N = V.size('N', 4)
        x = V.array('x', N, origin='param')
        dt = V.real('dt')
        V.assume(dt > 0)
        sig = S.make_signal(V, 'Signal', x, dt)
        st.update(N=N, x=x, dt=dt, sig=sig)
        return ((sig,), {})

    def op(itp, sig):
        fas = itp.get_attr(sig, 'fa_spectrum')
        if via == 'fas2values':
            return fas, itp.call(itp.get_function(FR + 'fas2values'), [fas, st['dt']], {})
        s2 = itp.call(itp.get_function(FR + 'fas2signal'), [fas, st['dt']], {})
        return fas, s2.attrs['_values']
    for out in V.run(op, setup):
        out.replay_info = dict(module='fourier', op='round_trip', via=via)
        if not out.no_raise():
            continue
        N, x, dt = st['N'], st['x'], st['dt']
        fas, rec = out.result
        ok = is_arr(rec) and tuple(rec.shape) == (N,)
        out.prove('reconstruction-has-the-padded-length', ok)
        if not ok:
            continue
        # frame: the inverse helper only READS the half spectrum it is given -- the object still reports dt x DFT afterwards
        F = V.np.np_fft(x)
        after = V.itp.get_attr(st['sig'], 'fa_spectrum')
        for k in range(N // 2):
            want_k, got_k, arg_k = T.smul(T.as_cx(F[k]), dt), T.as_cx(after[k]), T.as_cx(fas[k])
            out.prove('object-spectrum-unchanged-by-the-inverse-helper[%d]' % k, T.sand(T.seq(got_k.re, want_k.re), T.seq(got_k.im, want_k.im)), atomize=True)
            out.prove('spectrum-argument-unchanged-by-the-inverse-helper[%d]' % k, T.sand(T.seq(arg_k.re, want_k.re), T.seq(arg_k.im, want_k.im)), atomize=True)
        mean = T.sdiv(sum_list([x[k] for k in range(N)]), N)
        nyq = T.sdiv(sum_list([T.smul(x[k], 1 if k % 2 == 0 else -1) for k in range(N)]), N)
        for k in range(N):
            want = T.ssub(T.ssub(x[k], mean), T.smul(nyq, 1 if k % 2 == 0 else -1))
            got = T.as_cx(rec[k])
            out.prove('inverse-helper-reconstructs-record-minus-mean-and-Nyquist[%d]' % k, T.sand(T.seq(got.re, want), T.seq(got.im, 0)), atomize=True)
        # Parseval on the half spectrum: sum_t x_t^2 = (1/N) (|X_0|^2 + 2 sum_{0<k<N/2} |X_k|^2 + |X_{N/2}|^2),  X = fas/dt
        tot = sum_list([T.smul(x[k], x[k]) for k in range(N)])
        x_nyq = T.smul(nyq, N)
        spec = T.sadd(T.sdiv(_cx_abs2(fas[0]), T.smul(dt, dt)), T.smul(x_nyq, x_nyq))
        for k in range(1, N // 2):
            spec = T.sadd(spec, T.smul(2, T.sdiv(_cx_abs2(fas[k]), T.smul(dt, dt))))
        if N == 4:
            out.prove('Parseval', T.seq(T.smul(tot, N), spec), atomize=True)
        out.unchanged('x', x)


@unit('C06', 'exact-DFT/round-trip-with-an-explicit-n', functions=[FR + 'calc_fa_spectrum', FR + 'fas2values', FR + 'fas2signal'],
      cases=[dict(via='fas2values'), dict(via='fas2signal')], modes=('bounded',), sizes=dict(N=[6, 14]), thorough_sizes=dict(N=[6, 10, 14, 18]), budget_ms=60000)
def round_trip_explicit_n(V, via):
    """spectrum requested with an explicit n that is NOT a power of two (record one sample shorter than n): the inverse helper returns all n
    samples; for n = 6 the DFT is exact and the reconstruction is checked sample by sample (n = 12 is exact too but its sqrt(3) twiddles exceed the solver budget), otherwise (uninterpreted kernel) only the length"""
    st = {}

    def setup():
        CS.install_cache_summaries(V)
        N = V.size('N', 6)
        x = V.array('x', N - 1, origin='param')
        dt = V.real('dt')
        V.assume(dt > 0)
        sig = S.make_signal(V, 'Signal', x, dt)
        st.update(N=N, x=x, dt=dt, sig=sig)
        return ((sig,), {})

    def op(itp, sig):
        fas = itp.call(itp.get_function(FR + 'calc_fa_spectrum'), [sig], dict(n=st['N']))[0]
        if via == 'fas2values':
            return fas, itp.call(itp.get_function(FR + 'fas2values'), [fas, st['dt']], {})
        s2 = itp.call(itp.get_function(FR + 'fas2signal'), [fas, st['dt']], {})
        return fas, s2.attrs['_values']
    for out in V.run(op, setup):
        out.replay_info = dict(module='fourier', op='round_trip_n', via=via, N=st['N'])
        if not out.no_raise():
            continue
        N, x, dt = st['N'], st['x'], st['dt']
        fas, rec = out.result
        out.prove('half-spectrum-has-n/2-bins', is_arr(fas) and tuple(fas.shape) == (N // 2,))
        ok = is_arr(rec) and tuple(rec.shape) == (N,)
        out.prove('reconstruction-has-the-padded-length-n', ok)
        if not ok or N != 6:
            continue
        xp = [x[k] for k in range(N - 1)] + [0]
        mean = T.sdiv(sum_list(xp), N)
        nyq = T.sdiv(sum_list([T.smul(xp[k], 1 if k % 2 == 0 else -1) for k in range(N)]), N)
        for k in range(N):
            want = T.ssub(T.ssub(xp[k], mean), T.smul(nyq, 1 if k % 2 == 0 else -1))
            got = T.as_cx(rec[k])
            out.prove('inverse-helper-reconstructs-padded-record-minus-mean-and-Nyquist[%d]' % k, T.sand(T.seq(got.re, want), T.seq(got.im, 0)), atomize=True)
        out.unchanged('x', x)


@unit('C06', 'inverse-helper/length-and-frame (any half-spectrum length)', functions=[FR + 'fas2values', FR + 'fas2signal'],
      cases=[dict(via='fas2values'), dict(via='fas2signal')], modes=('unbounded',), budget_ms=20000)
def inverse_helper_length(V, via):
    """for a half spectrum of ANY length m >= 1 the inverse helper returns 2m samples (the padded length N = 2m) and leaves its argument alone"""
    st = {}

    def setup():
        m = V.size('m', 1)
        fas = V.array('fas', m, dtype='complex', origin='param')
        dt = V.real('dt')
        V.assume(dt > 0)
        st.update(m=m, fas=fas, dt=dt)
        return ((fas, dt), {})
    for out in V.run(FR + via, setup):
        out.replay_info = dict(module='fourier', op='round_trip_n', via=via, N=14)
        if not out.no_raise():
            continue
        rec = out.result if via == 'fas2values' else out.result.attrs['_values']
        m = st['m']
        ok = is_arr(rec) and len(rec.shape) == 1
        out.prove('result-is-a-1-d-array', ok)
        if ok:
            out.prove('returns-all-2m-samples-of-the-padded-record', T.seq(rec.shape[0], T.smul(2, m)))
        out.unchanged('fas', st['fas'])


def sum_list(xs):
    t = 0
    for v in xs:
        t = T.sadd(t, v)
    return t


@unit('C06', 'exact-DFT/linear-and-trailing-zeros', functions=['eqsig.single.Signal.gen_fa_spectrum'], modes=('bounded',), sizes=dict(n=[3, 5, 6]), budget_ms=30000)
def linear_and_padding(V):
    st = {}

    def setup():
        CS.install_cache_summaries(V)
        n = V.size('n', 2)
        x, y = V.array('x', n, origin='param'), V.array('y', n, origin='param')
        dt = V.real('dt')
        V.assume(dt > 0)
        st.update(n=n, x=x, y=y, dt=dt)
        return ((S.make_signal(V, 'Signal', x, dt),), {})

    def fa_of(itp, arr):
        return itp.get_attr(S.make_signal(V, 'Signal', arr, st['dt']), 'fa_spectrum')

    def op(itp, sig):
        return itp.get_attr(sig, 'fa_spectrum')
    for out in V.run(op, setup):
        if not out.no_raise():
            continue
        n, x, y = st['n'], st['x'], st['y']
        fx = out.result
        half = T.concrete_int(fx.shape[0])
        al, be = V.real('alpha'), V.real('beta')
        fy = fa_of(V.itp, y)
        fz = fa_of(V.itp, V.op('+', V.op('*', x, al), V.op('*', y, be)))
        for k in range(half):
            want = T.sadd(T.smul(T.as_cx(fx[k]), al), T.smul(T.as_cx(fy[k]), be))
            out.prove('linear[%d]' % k, T.seq(fz[k], want), atomize=True)
        N = 2 * half
        if n < N:
            padded = V.np.np_array([x[k] for k in range(n)] + [0])
            fp = fa_of(V.itp, padded)
            out.prove('a-trailing-zero-that-does-not-change-N-changes-nothing', T.sand(T.concrete_int(fp.shape[0]) == half, *[T.seq(fp[k], fx[k]) for k in range(half)]), atomize=True)


@unit('C06', 'max_fa_period', functions=['eqsig.im.max_fa_period'], modes=('bounded',), sizes=dict(m=[2, 3, 4]), budget_ms=30000)
def max_fa_period(V):
    """Modular over the spectrum contract above: for ANY complex half spectrum F on a positive ascending frequency grid the
    reported period is 1/f_k of a bin of largest amplitude |F_k| (not of largest real part)."""
    st = {}

    def setup():
        m = V.size('m', 2)
        F = V.array('F', m, 'complex', origin='owned')
        f = V.array('f', m, origin='owned')
        for k in range(m):
            V.assume(T.sgt(f[k], 0))
        n = V.int('npts')
        sig = V.obj('eqsig.single.AccSignal', _cached_fa=True, _fa_spectrum=F, _fa_freqs=f, _values=V.array('x', 2), _npts=n, _dt=Q('0.01'))
        st.update(m=m, F=F, f=f)
        return dict(asig=sig)
    for out in V.run('eqsig.im.max_fa_period', setup):
        out.replay_info = dict(module='fourier', op='max_fa_period')
        if not out.no_raise():
            continue
        m, F, f = st['m'], st['F'], st['f']
        r = out.result
        # on each path the arg-max position is decided (the library contract of argmax forks on it): name that bin syntactically
        # and compare it with every other bin in a separate small obligation (|F_k| >= |F_j| -> |F_k|^2 >= |F_j|^2 is nonlinear)
        ks = [k for k in range(m) if T.seq(r, T.sdiv(1, f[k])) is True]
        if len(ks) == 1:
            k = ks[0]
            out.prove('reports-the-period-of-one-of-the-bins', True)
            for j in range(m):
                if j != k:
                    out.prove('reported-bin-has-amplitude-not-below-bin[%d]' % j, T.sge(_cx_abs2(F[k]), _cx_abs2(F[j])), atomize=True)
            continue
        goals = []
        for k in range(m):
            largest = T.sand(*[T.sge(_cx_abs2(F[k]), _cx_abs2(F[j])) for j in range(m)])
            goals.append(T.sand(T.seq(r, T.sdiv(1, f[k])), largest))
        out.prove('reports-the-period-of-a-largest-AMPLITUDE-bin', T.sor(*goals), atomize=True)


# ------------------------------------------------------------------- object-level spectrum AFTER the record has been changed
import contracts_c04_cache as C4

_CHANGES = ['reset_values', 'add_constant', 'add_series', 'add_signal', 'remove_average', 'remove_poly/1', 'running_average', 'butter_pass/band']


@unit('C06', 'spectrum-after-the-record-changed', functions=C4.FUNCS,
      cases=[dict(cls=c, op=k) for c in ('Signal', 'AccSignal') for k in _CHANGES + (['remove_rolling_average/values', 'rebase_displacement', 'correct_me'] if c == 'AccSignal' else [])],
      modes=('unbounded',), budget_ms=3000)
def spectrum_after_change(V, cls, op):
    """History read the spectrum and its frequencies -> change the record through a public operation -> read again: the object reports
    the spectrum of a freshly constructed object holding the NEW record (which is dt x DFT of it by the units above)."""
    ops = dict(C4.COMMON_OPS)
    ops.update(C4.ACC_OPS)
    C4.run_op(V, cls, op, ops[op], ['fa_spectrum', 'fa_frequencies', 'fa_freqs', 'npts'], prewarm=True)


from pyvc.api import int_variant
int_variant('C06', 'Signal.gen_fa_spectrum', ['x'])
int_variant('C06', 'array-level-fa-spectrum', ['x'])
int_variant('C06', 'exact-DFT/round-trip-and-Parseval', ['x'])

"""C07 -- Konno-Ohmachi smoothing is a normalised non-negative log-frequency window."""
import z3

from pyvc.api import unit, Skip
from pyvc import terms as T
from pyvc import arrays as A
from pyvc import spec as S
from pyvc.terms import Q
from pyvc.arrays import is_arr

FR = 'eqsig.fns.frequency.'


def raw_weight(band, f, fc):
    """[sin(b log10(f/fc)) / (b log10(f/fc))]^4, and 1 where f = fc  (Konno & Ohmachi 1998)"""
    x = T.smul(band, T.slog(T.sdiv(f, fc), 10))
    w = T.spow(T.sdiv(T.ssin(x), x), 4)
    return T.site(T.seq(x, 0), 1, w), x


def _setup(V, st, zero_bin, on_grid=False, amp_dtype='complex', targets='given'):
    """targets='default': smooth_fa_frequencies is left at its default None = the (non-zero) Fourier frequencies themselves"""
    def setup():
        n, P = V.size('n', 2), V.size('P', 1)
        f = V.array('f', n, origin='param')
        F = V.array('F', n, amp_dtype, origin='param')
        fc = V.array('fc', P, origin='param')
        if targets == 'default':
            P = n - (1 if zero_bin else 0)
            fc = V.lib.getitem(f, slice(1 if zero_bin else 0, None))
        band = V.real('band')
        V.assume(band >= 5, band <= 100)
        for k in range(n):
            V.assume(T.sgt(f[k], 0) if not (zero_bin and k == 0) else T.seq(f[k], 0))
            if k:
                V.assume(T.slt(f[k - 1], f[k]))
        for j in range(P):
            V.assume(T.sgt(fc[j], 0))
        if on_grid:
            V.assume(T.seq(fc[0], f[n - 1]))                      # a target frequency exactly on a Fourier frequency
        # derived precondition (from the code: the column normalisation divides by it): for every target frequency the raw
        # weights do not all vanish (they would only if every Fourier frequency sat exactly on a zero of the window)
        for j in range(P):
            tot = 0
            for i in range(1 if zero_bin else 0, n):
                tot = T.sadd(tot, raw_weight(band, f[i], fc[j])[0])
            V.assume(T.sgt(tot, 0))
        st.update(n=n, P=P, f=f, F=F, fc=fc, band=band)
        if targets == 'default':
            return dict(fa_frequencies=f, fa_spectrum=F, band=band)
        return dict(fa_frequencies=f, fa_spectrum=F, smooth_fa_frequencies=fc, band=band)
    return setup


def amp(c):
    return T.sabs(c)


@unit('C07', 'calc_smooth_fa_spectrum', functions=[FR + 'calc_smooth_fa_spectrum', FR + 'generate_smooth_fa_spectrum'],
      cases=[dict(zero_bin=z, on_grid=g, fn=fn) for z in (False, True) for g in (False, True, 'default-targets') for fn in ('calc',)] + [dict(zero_bin=True, on_grid=False, fn='deprecated')],
      modes=('bounded',), sizes=dict(n=[3], P=[1, 2]), thorough_sizes=dict(n=[2, 3, 4], P=[1, 2, 3]), budget_ms=60000)
def smooth(V, zero_bin, on_grid, fn):
    st = {}
    if on_grid == 'default-targets' and V.sizes.get('P') != 1:
        raise Skip()                                                # P is determined by n here: run once per n
    base = _setup(V, st, zero_bin, on_grid is True, 'float', targets='default' if on_grid == 'default-targets' else 'given')

    def setup():
        kw = base()
        if fn == 'deprecated':
            return dict(smooth_fa_frequencies=kw['smooth_fa_frequencies'], fa_frequencies=kw['fa_frequencies'], fa_spectrum=kw['fa_spectrum'], band=kw['band'])
        return kw
    name = FR + ('calc_smooth_fa_spectrum' if fn == 'calc' else 'generate_smooth_fa_spectrum')
    for out in V.run(name, setup):
        out.replay_info = dict(module='smoothing', fn=fn, zero_bin=zero_bin, targets='default' if on_grid == 'default-targets' else 'given')
        if not out.no_raise():
            continue
        n, P, f, F, fc, band = (st[k] for k in ('n', 'P', 'f', 'F', 'fc', 'band'))
        r = out.result
        ok = is_arr(r) and tuple(r.shape) == (P,)
        out.prove('one-smoothed-amplitude-per-target-frequency', ok)
        if not ok:
            continue
        i0 = 1 if zero_bin else 0                                   # the zero-frequency bin is dropped
        for j in range(P):
            ws = [raw_weight(band, f[i], fc[j])[0] for i in range(i0, n)]
            tot = 0
            for w in ws:
                tot = T.sadd(tot, w)
            num = 0
            for i, w in zip(range(i0, n), ws):
                num = T.sadd(num, T.smul(amp(F[i]), w))
            for w in ws:
                out.prove('weights-non-negative[%d]' % j, T.sge(w, 0))
            # (a) the result is literally sum_i |F_i| * (W_ij / S_j) with the Konno-Ohmachi raw weights W and S_j = sum_i W_ij
            direct = 0
            for i, w in zip(range(i0, n), ws):
                direct = T.sadd(direct, T.smul(amp(F[i]), T.sdiv(w, tot)))
            out.prove('smoothed-amplitude-is-sum-of-amplitude-times-normalised-weight[%d]' % j, T.seq(r[j], direct))
            # (b) generic algebra: such a sum is the normalised weighted mean, and the normalised weights sum to one
            wv0 = [z3.Real('w%d' % i) for i in range(len(ws))]
            av0 = [z3.Real('a%d' % i) for i in range(len(ws))]
            Sv, rv = z3.Real('S_j'), z3.Real('r_j')
            out.prove_from('normalised-weighted-mean-lemma[%d]' % j, [Sv == sum(wv0), Sv > 0, rv == sum(a_ * (w_ / Sv) for a_, w_ in zip(av0, wv0))],
                           z3.And(rv * Sv == sum(a_ * w_ for a_, w_ in zip(av0, wv0)), sum(w_ / Sv for w_ in wv0) == 1), budget_ms=60000)
            lo, hi = None, None
            for i in range(i0, n):
                lo = amp(F[i]) if lo is None else T.smin2(lo, amp(F[i]))
                hi = amp(F[i]) if hi is None else T.smax2(hi, amp(F[i]))
            # lemma from ground facts only: a normalised non-negative weighted mean lies between the extremes
            lo_c, hi_c = z3.Real('lo_amp'), z3.Real('hi_amp')
            wv = [z3.Real('w%d' % i) for i in range(len(ws))]
            av = [z3.Real('a%d' % i) for i in range(len(ws))]
            rj = z3.Real('r_j')
            out.prove_from('weighted-mean-lemma[%d]' % j,
                           [v >= 0 for v in wv] + [sum(wv) > 0, rj * sum(wv) == sum(a_ * w_ for a_, w_ in zip(av, wv))] + [z3.And(lo_c <= a_, a_ <= hi_c) for a_ in av],
                           z3.And(lo_c <= rj, rj <= hi_c), budget_ms=60000)
            out.prove('every-amplitude-within-[min,max][%d]' % j, T.sand(*[T.sand(T.sle(lo, amp(F[i])), T.sle(amp(F[i]), hi)) for i in range(i0, n)]))
        out.unchanged('f', f)
        out.unchanged('F', F)
        if on_grid != 'default-targets':
            out.unchanged('fc', fc)


@unit('C07', 'matrix-form-equals-direct-form', functions=[FR + 'calc_smoothing_matrix_konno_1998', FR + 'calc_smooth_fa_spectrum_w_custom_matrix'],
      cases=[dict(zero_bin=True, targets='given'), dict(zero_bin=True, targets='default')], modes=('bounded',), sizes=dict(n=[3], P=[2]), budget_ms=60000)
def matrix_form(V, zero_bin, targets):
    st = {}
    base = _setup(V, st, zero_bin, False, 'complex', targets=targets)

    def setup():
        kw = base()
        kw.pop('fa_spectrum')
        return kw
    for out in V.run(FR + 'calc_smoothing_matrix_konno_1998', setup):
        out.replay_info = dict(module='smoothing', fn='calc', zero_bin=zero_bin, targets=targets)
        if not out.no_raise():
            continue
        n, P, f, F, fc, band = (st[k] for k in ('n', 'P', 'f', 'F', 'fc', 'band'))
        Mx = out.result
        ok = is_arr(Mx) and tuple(Mx.shape) == (n - 1, P)
        out.prove('matrix-shape-is-nonzero-bins-by-targets', ok)
        if not ok:
            continue
        for j in range(P):
            col = 0
            for i in range(n - 1):
                col = T.sadd(col, Mx[i, j])
            out.prove('matrix-columns-sum-to-one[%d]' % j, T.seq(col, 1), atomize=True)
        asig = V.obj('eqsig.single.AccSignal', _cached_fa=True, _fa_spectrum=F, _fa_freqs=f, _values=V.array('x', 2), _npts=2, _dt=Q('0.01'))
        via_matrix = V.itp.call(V.itp.get_function(FR + 'calc_smooth_fa_spectrum_w_custom_matrix'), [asig, Mx], {})
        direct = V.itp.call(V.itp.get_function(FR + 'calc_smooth_fa_spectrum'), [f, F, fc] if targets == 'given' else [f, F], dict(band=band))
        out.prove('direct-form-has-one-entry-per-target', is_arr(direct) and tuple(direct.shape) == (P,))
        if not (is_arr(direct) and tuple(direct.shape) == (P,)):
            continue
        out.prove('matrix-form-equals-direct-form', T.sand(*[T.seq(via_matrix[j], direct[j]) for j in range(P)]), atomize=True)


@unit('C07', 'reproduces-a-constant-and-scales-linearly', functions=[FR + 'calc_smooth_fa_spectrum'], modes=('bounded',), sizes=dict(n=[3], P=[1]), budget_ms=60000)
def constant_and_scaling(V):
    st = {}
    for out in V.run(FR + 'calc_smooth_fa_spectrum', _setup(V, st, False, False, 'float')):
        if not out.no_raise():
            continue
        n, P, f, F, fc, band = (st[k] for k in ('n', 'P', 'f', 'F', 'fc', 'band'))
        r = out.result
        fn = V.itp.get_function(FR + 'calc_smooth_fa_spectrum')
        c = V.real('c')
        const = V.np.np_array([c for _ in range(n)])
        rc = V.itp.call(fn, [f, const, fc], dict(band=band))
        al = V.real('alpha')
        rs = V.itp.call(fn, [f, V.op('*', F, al), fc], dict(band=band))
        ws = [raw_weight(band, f[i], fc[0])[0] for i in range(n)]
        tot = 0
        for w in ws:
            tot = T.sadd(tot, w)
        pos = [T.sgt(tot, 0)]
        # the three results are literally sum_i a_i * (W_i / S) with a_i = |F_i|, |c|, |alpha F_i|; the laws are then generic algebra
        def direct(vals):
            d = 0
            for v, w in zip(vals, ws):
                d = T.sadd(d, T.smul(v, T.sdiv(w, tot)))
            return d
        out.prove('result-form/record', T.seq(r[0], direct([T.sabs(F[i]) for i in range(n)])))
        out.prove('result-form/constant', T.seq(rc[0], direct([T.sabs(c)] * n)))
        out.prove('result-form/scaled', T.seq(rs[0], direct([T.sabs(T.smul(F[i], al)) for i in range(n)])))
        wv = [z3.Real('w%d' % i) for i in range(n)]
        av = [z3.Real('a%d' % i) for i in range(n)]
        Sv, cc, aa = z3.Real('S'), z3.Real('cabs'), z3.Real('alpha')
        ab = lambda t: z3.If(t >= 0, t, -t)
        out.prove_from('constant-spectrum-is-reproduced (lemma)', [Sv == sum(wv), Sv > 0], sum(cc * (w_ / Sv) for w_ in wv) == cc, budget_ms=60000)
        out.prove_from('scales-linearly-with-the-spectrum (lemma)', [Sv == sum(wv), Sv > 0],
                       sum(ab(a_ * aa) * (w_ / Sv) for a_, w_ in zip(av, wv)) == ab(aa) * sum(ab(a_) * (w_ / Sv) for a_, w_ in zip(av, wv)), budget_ms=60000)


# ------------------------------------------------------------------------------------------------ unbounded structure
from pyvc.arrays import CArr


def spec_weights(V, f, fc, band, n, P):
    """raw Konno-Ohmachi weights as a 2-d closure (rows: Fourier frequencies, columns: target frequencies) and column sums"""
    fr_, fcr = A.reader(f), A.reader(fc)
    W = CArr.from_fn(lambda i, j: raw_weight(band, fr_(i), fcr(j))[0], (n, P), 'float')
    return W, V.np.np_sum(W, axis=0)


@unit('C07', 'window-and-normalisation (unbounded)', functions=[FR + 'calc_smoothing_matrix_konno_1998', FR + 'calc_smooth_fa_spectrum'],
      cases=[dict(fn='matrix', targets=t, zero_bin=z) for t in ('given', 'default') for z in (False, True)],
      modes=('unbounded',), budget_ms=30000)   # (the direct form's column sums are bounded-checked only)
def unbounded_structure(V, fn, targets, zero_bin):
    st = {}
    i0 = 1 if zero_bin else 0

    def setup():
        n, P = V.size('n', 2 + i0), V.size('P', 1)
        f = V.array('f', n, origin='param')
        F = V.array('F', n, 'float', origin='param')
        fc = V.array('fc', P, origin='param')
        if targets == 'default':
            P = T.ssub(n, i0)
            fc = V.lib.getitem(f, slice(i0, None))
        band = V.real('band')
        V.assume(band >= 5, band <= 100, f[0] == 0 if zero_bin else f[0] > 0)
        st.update(n=n, P=P, f=f, F=F, fc=fc, band=band)
        kw = dict(fa_frequencies=f, band=band)
        if targets != 'default':
            kw['smooth_fa_frequencies'] = fc
        if fn != 'matrix':
            kw['fa_spectrum'] = F
        return kw
    name = FR + ('calc_smoothing_matrix_konno_1998' if fn == 'matrix' else 'calc_smooth_fa_spectrum')
    for out in V.run(name, setup):
        out.replay_info = dict(module='smoothing', fn=fn, zero_bin=zero_bin, targets=targets)
        if not out.no_raise():
            continue
        out.side_conditions()
        n, P, f, F, fc, band = (st[k] for k in ('n', 'P', 'f', 'F', 'fc', 'band'))
        f_all = f
        if zero_bin:                                                   # the zero-frequency bin is dropped
            f, F, n = V.lib.getitem(f, slice(1, None)), V.lib.getitem(F, slice(1, None)), T.ssub(n, 1)
        W, Ssum = spec_weights(V, f, fc, band, n, P)
        r = out.result
        if fn == 'matrix':
            out.prove('matrix-shape', T.sand(len(r.shape) == 2, T.seq(r.shape[0], n), T.seq(r.shape[1], P)))
            for i in V.idx(0, n, 'i'):
                for j in V.idx(0, P, 'j'):
                    out.prove('entry-is-raw-Konno-Ohmachi-weight-over-its-column-sum', T.seq(r[i, j], T.sdiv(W[i, j], Ssum[j])))
                    out.prove('raw-weight-non-negative', T.sge(W[i, j], 0))
        else:
            Wn = V.op('/', W, Ssum)
            want = V.np.np_sum(V.op('*', V.lib.getitem(V.np.np_abs(F), (slice(None), None)), Wn), axis=0)
            out.prove('one-value-per-target', T.sand(len(r.shape) == 1, T.seq(r.shape[0], P)))
            for j in V.idx(0, P, 'j'):
                out.prove('smoothed-amplitude-is-sum_i |F_i| W_ij / S_j', T.seq(r[j], want[j]))
        out.unchanged('f', f_all)
        if targets != 'default':
            out.unchanged('fc', fc)


# ------------------------------------------------------------------------------------------------------ bandwidth
@unit('C07', 'bandwidth-limits', functions=['eqsig.im.calc_bandwidth_freqs', 'eqsig.im.calc_bandwidth_f_min', 'eqsig.im.calc_bandwidth_f_max',
                                            FR + 'get_sig_array_indexes_range'],
      cases=[dict(fn=f) for f in ('freqs', 'f_min', 'f_max', 'indexes')], modes=('bounded',), sizes=dict(m=[1, 3, 4]))
def bandwidth(V, fn):
    """Modular over the smoothing contract: for ANY positive smoothed spectrum on ascending smoothing frequencies."""
    st = {}

    def setup():
        m = V.size('m', 1)
        sm = V.array('sm', m, origin='owned')
        fs = V.array('fs', m, origin='owned')
        ratio = V.real('ratio')
        V.assume(ratio > 0, ratio < 1)
        for k in range(m):
            V.assume(T.sgt(sm[k], 0))
            if k:
                V.assume(T.slt(fs[k - 1], fs[k]))
        sig = V.obj('eqsig.single.AccSignal', _cached_smooth_fa=True, _smooth_fa_spectrum=sm, _smooth_fa_freqs=fs, _values=V.array('x', 2), _npts=2, _dt=Q('0.01'))
        st.update(m=m, sm=sm, fs=fs, ratio=ratio)
        if fn == 'indexes':
            return dict(fas1_smooth=sm, ratio=T.sdiv(1, ratio))
        return dict(asig=sig, ratio=ratio)
    name = {'freqs': 'eqsig.im.calc_bandwidth_freqs', 'f_min': 'eqsig.im.calc_bandwidth_f_min', 'f_max': 'eqsig.im.calc_bandwidth_f_max',
            'indexes': FR + 'get_sig_array_indexes_range'}[fn]
    for out in V.run(name, setup):
        if not out.no_raise():
            continue
        m, sm, fs, ratio = (st[k] for k in ('m', 'sm', 'fs', 'ratio'))
        peak = None
        for k in range(m):
            peak = sm[k] if peak is None else T.smax2(peak, sm[k])
        above = [T.sgt(sm[k], T.smul(peak, ratio)) for k in range(m)]
        first = S.first_index(lambda k: above[k], m)
        last = S.last_index(lambda k: above[k], m)
        at = lambda arr, idx: arr[idx] if isinstance(T.N(idx), int) else V.lib.getitem(arr, idx)
        r = out.result
        if fn == 'freqs':
            out.prove('lower-limit-is-first-frequency-above-ratio*peak', T.seq(r[0], at(fs, first)))
            out.prove('upper-limit-is-last-frequency-above-ratio*peak', T.seq(r[1], at(fs, last)))
            out.prove('ordered', T.sle(r[0], r[1]))
            for k in range(m):
                out.prove('brackets-the-smoothed-peak[%d]' % k, T.simplies(T.seq(sm[k], peak), T.sand(T.sle(r[0], fs[k]), T.sle(fs[k], r[1]))))
        elif fn == 'f_min':
            out.prove('lower-limit-is-first-frequency-above-ratio*peak', T.seq(r, at(fs, first)))
        elif fn == 'f_max':
            out.prove('upper-limit-is-last-frequency-above-ratio*peak', T.seq(r, at(fs, last)))
        else:
            out.prove('index-range-is-first-and-last-above-peak/ratio', T.sand(T.seq(r[0], first), T.seq(r[1], last)))


# ------------------------------------------------------------------------------------------------ object level
import contracts_common_signal as CS


@unit('C07', 'Signal.smooth_fa_spectrum', functions=['eqsig.single.Signal.gen_smooth_fa_spectrum', 'eqsig.single.Signal.generate_smooth_fa_spectrum',
                                                     'eqsig.single.Signal.smooth_fa_spectrum'],
      cases=[dict(how=h, cls=c, pre=p) for h in ('lazy', 'gen(band)', 'generate(band)', 'gen(targets, band)') for c in ('Signal', 'AccSignal')
             for p in ('fresh', 'after-a-request-with-another-band') if not (h == 'lazy' and p != 'fresh')],
      modes=('unbounded',), budget_ms=20000)
def object_level(V, how, cls, pre):
    """Modular over the function-level contract above (calc_smooth_fa_spectrum is summarised as a function of its four arguments):
    the object's smoothed spectrum is calc_smooth_fa_spectrum(fa_frequencies, fa_spectrum, target frequencies, band) for the band and
    targets of THIS request (band 40 and the object's own targets for a lazy read) -- also when the object already holds a smoothed
    spectrum for another band."""
    st = {}

    def setup():
        CS.install_cache_summaries(V)
        n = V.size('n', 2)
        x = V.array('x', n, origin='param')
        dt = V.real('dt')
        V.assume(dt > 0)
        sig = S.make_signal(V, cls, x, dt)
        b = V.real('band')
        V.assume(b >= 5, b <= 100)
        st.update(sig=sig, band=b, x=x)
        if how == 'gen(targets, band)':
            m = V.size('m', 1)
            sf = V.array('targets', m, origin='param')
            st['targets'] = sf
        if pre != 'fresh':
            b0 = V.real('band0')
            V.assume(b0 >= 5, b0 <= 100)
            st['band0'] = b0
        return ((sig,), {})

    def op(itp, sig):
        if pre != 'fresh':
            itp.call(itp.get_attr(sig, 'gen_smooth_fa_spectrum'), [], dict(band=st['band0']))
        if how == 'gen(band)':
            itp.call(itp.get_attr(sig, 'gen_smooth_fa_spectrum'), [], dict(band=st['band']))
        elif how == 'generate(band)':
            itp.call(itp.get_attr(sig, 'generate_smooth_fa_spectrum'), [], dict(band=st['band']))
        elif how == 'gen(targets, band)':
            itp.call(itp.get_attr(sig, 'gen_smooth_fa_spectrum'), [], dict(smooth_fa_freqs=st['targets'], band=st['band']))
        return itp.get_attr(sig, 'smooth_fa_spectrum')
    for out in V.run(op, setup):
        out.replay_info = dict(module='smoothing', op='object', how=how, cls=cls, pre=pre)
        if not out.no_raise():
            continue
        sig = st['sig']
        got = out.result
        band = 40 if how == 'lazy' else st['band']
        f = V.itp.get_attr(sig, 'fa_frequencies')
        F = V.itp.get_attr(sig, 'fa_spectrum')
        targets = V.itp.get_attr(sig, 'smooth_fa_freqs')
        if how == 'gen(targets, band)':
            out.prove('requested-targets-are-the-objects-targets', targets is st['targets'] or CS.values_equal(V, targets, st['targets']))
        want = V.itp.call(V.itp.get_function(FR + 'calc_smooth_fa_spectrum'), [f, F, targets], dict(band=band))
        out.prove('smoothed-spectrum-is-calc_smooth_fa_spectrum(frequencies, spectrum, targets, band-of-this-request)', CS.values_equal(V, got, want))
        out.unchanged('x', st['x'])


# ------------------------------------------------------ object-level smoothed spectrum AFTER the record or the settings changed
import contracts_c04_cache as C4

_CHANGES7 = ['reset_values', 'add_constant', 'add_series', 'remove_poly/1', 'butter_pass/band', 'smooth_fa_freqs=', 'smooth_fa_frequencies=',
             'set_smooth_fa_frequecies_by_range', 'smooth_freq_range=', 'smooth_freq_points=', 'gen_smooth_fa_spectrum(smooth_fa_freqs=)', 'gen_fa_spectrum()']


@unit('C07', 'smoothed-spectrum-after-the-record-or-the-settings-changed', functions=C4.FUNCS,
      cases=[dict(cls=c, op=k) for c in ('Signal', 'AccSignal') for k in _CHANGES7], modes=('unbounded',), budget_ms=3000)
def smoothed_after_change(V, cls, op):
    """History read the smoothed spectrum -> change the record / the smoothing frequencies through a public operation -> read again:
    the object reports the smoothed spectrum of a freshly constructed object with the NEW record and settings."""
    ops = dict(C4.COMMON_OPS)
    ops.update(C4.ACC_OPS)
    C4.run_op(V, cls, op, ops[op], ['smooth_fa_spectrum', 'smooth_fa_frequencies', 'smooth_fa_freqs'], prewarm=True)


from pyvc.api import int_variant
int_variant('C07', 'Signal.smooth_fa_spectrum', ['x'])

"""C08 -- velocity / displacement are cumulative trapezoid integrals; peaks are max abs."""
from pyvc.api import unit
from pyvc import terms as T
from pyvc.terms import Q

FN = 'eqsig.displacements.calc_velo_and_disp_from_accel_arr'


def _setup(V, trap, dtype='float'):
    def setup():
        n = V.size('n', 2)
        a = V.array('a', n, dtype)
        dt = V.real('dt')
        V.assume(dt > 0)
        return dict(acceleration=a, dt=dt, trap=trap)
    return setup


@unit('C08', 'calc_velo_and_disp_from_accel_arr', functions=[FN],
      cases=[dict(trap=True, dtype='float'), dict(trap=False, dtype='float'), dict(trap=True, dtype='int'), dict(trap=False, dtype='int')],
      sizes=dict(n=[2, 3, 5]))
def velo_disp(V, trap, dtype):
    for out in V.run(FN, _setup(V, trap, dtype)):
        if not out.no_raise():
            continue
        out.side_conditions()
        a, dt = out.args['acceleration'], out.args['dt']
        n = a.shape[0]
        v, d = out.result
        out.prove('lengths', T.sand(T.seq(v.shape[0], n), T.seq(d.shape[0], n)))
        out.prove('start-at-zero', T.sand(T.seq(v[0], 0), T.seq(d[0], 0)))
        for i in V.idx(1, n):
            if trap:
                out.prove('v-increment-trapezoid', T.seq(T.ssub(v[i], v[i - 1]), T.sdiv(T.smul(dt, T.sadd(a[i], a[i - 1])), 2)))
                out.prove('d-increment-trapezoid', T.seq(T.ssub(d[i], d[i - 1]), T.sdiv(T.smul(dt, T.sadd(v[i], v[i - 1])), 2)))
            else:
                # rectangle rule; a violation is reported only if neither end-point rule holds (DESIGN C08)
                dv = T.ssub(v[i], v[i - 1])
                dd = T.ssub(d[i], d[i - 1])
                out.prove('v-increment-rectangle', T.sor(T.seq(dv, T.smul(dt, a[i - 1])), T.seq(dv, T.smul(dt, a[i]))))
                out.prove('d-increment-rectangle', T.sor(T.seq(dd, T.smul(dt, v[i])), T.seq(dd, T.smul(dt, v[i - 1]))))
        out.unchanged('a', a)


@unit('C08', 'velocity_and_displacement_from_acceleration(wrapper)', functions=['eqsig.displacements.velocity_and_displacement_from_acceleration'],
      cases=[dict(trap=True), dict(trap=False)], sizes=dict(n=[3]))
def wrapper(V, trap):
    for out in V.run('eqsig.displacements.velocity_and_displacement_from_acceleration', _setup(V, trap)):
        if not out.no_raise():
            continue
        a, dt = out.args['acceleration'], out.args['dt']
        n = a.shape[0]
        v, d = out.result
        for i in V.idx(1, n):
            if trap:
                out.prove('v-increment-trapezoid', T.seq(T.ssub(v[i], v[i - 1]), T.sdiv(T.smul(dt, T.sadd(a[i], a[i - 1])), 2)))
                out.prove('d-increment-trapezoid', T.seq(T.ssub(d[i], d[i - 1]), T.sdiv(T.smul(dt, T.sadd(v[i], v[i - 1])), 2)))
            else:
                out.prove('v-increment-rectangle', T.seq(T.ssub(v[i], v[i - 1]), T.smul(dt, a[i - 1])))
                out.prove('d-increment-rectangle', T.seq(T.ssub(d[i], d[i - 1]), T.smul(dt, v[i])))


@unit('C08', 'calc_peak', functions=['eqsig.im.calc_peak'], sizes=dict(n=[1, 2, 4]))
def calc_peak(V):
    def setup():
        n = V.size('n', 1)
        return dict(motion=V.array('m', n))
    for out in V.run('eqsig.im.calc_peak', setup):
        if not out.no_raise():
            continue
        m = out.args['motion']
        n = m.shape[0]
        p = out.result
        for i in V.idx(0, n):
            out.prove('upper-bound', T.sge(p, T.sabs(m[i])))
        out.prove('non-negative', T.sge(p, 0))
        # attained: p is |m[j]| for some j.  Skolem-free form: p equals max or -min, both attained by the library contract.
        if V.mode == 'bounded':
            out.prove('attained', T.sor(*[T.seq(p, T.sabs(m[i])) for i in range(n)]))
        else:
            j = V.skolem('jw')
            out.prove('attained', T.sor(T.seq(p, V.itp.lib.models.np_max(m)), T.seq(p, T.sneg(V.itp.lib.models.np_min(m)))))
        out.unchanged('m', m)


# ------------------------------------------------------------------------------------------------ object level
import contracts_common_signal as CS


def _increments(V, out, v, d, a, n, dt, trap, tag):
    out.prove(tag + 'lengths', T.sand(T.seq(v.shape[0], n), T.seq(d.shape[0], n)))
    out.prove(tag + 'start-at-zero', T.sand(T.seq(v[0], 0), T.seq(d[0], 0)))
    for i in V.idx(1, n, 'i'):
        if trap:
            out.prove(tag + 'v-increment-trapezoid', T.seq(T.ssub(v[i], v[i - 1]), T.sdiv(T.smul(dt, T.sadd(a[i], a[i - 1])), 2)))
            out.prove(tag + 'd-increment-trapezoid', T.seq(T.ssub(d[i], d[i - 1]), T.sdiv(T.smul(dt, T.sadd(v[i], v[i - 1])), 2)))
        else:
            out.prove(tag + 'v-increment-rectangle', T.seq(T.ssub(v[i], v[i - 1]), T.smul(dt, a[i - 1])))
            out.prove(tag + 'd-increment-rectangle', T.seq(T.ssub(d[i], d[i - 1]), T.smul(dt, v[i])))


@unit('C08', 'AccSignal.velocity/displacement', functions=['eqsig.single.AccSignal.velocity', 'eqsig.single.AccSignal.displacement',
                                                          'eqsig.single.AccSignal.generate_displacement_and_velocity_series'],
      cases=[dict(how='lazy'), dict(how='generate-trap'), dict(how='generate-rect'), dict(how='generate-rect-then-trap')], modes=('unbounded',))
def object_series(V, how):
    """From an ARBITRARY object state (any cache warm or cold): lazy access gives the trapezoid series; an explicit
    generate_displacement_and_velocity_series(trap=...) call makes the object report the series of the requested rule."""
    st = {}

    def setup():
        CS.install_cache_summaries(V)
        o = CS.make_state(V, 'AccSignal')
        st['o'] = o
        return ((o,), {})

    def op(itp, o):
        gen = lambda **kw: itp.call(itp.get_attr(o, 'generate_displacement_and_velocity_series'), [], kw)
        if how == 'generate-trap':
            gen(trap=True)
        elif how == 'generate-rect':
            gen(trap=False)
        elif how == 'generate-rect-then-trap':
            gen(trap=False)
            gen(trap=True)
        return itp.get_attr(o, 'velocity'), itp.get_attr(o, 'displacement')
    for out in V.run(op, setup):
        if not out.no_raise():
            continue
        o = st['o']
        out.replay_info = dict(module='objects', kind='c08-series', how=how)
        v, d = out.result
        a, n, dt = o.attrs['_values'], o.attrs['_npts'], o.attrs['_dt']
        _increments(V, out, v, d, a, n, dt, how != 'generate-rect', '')


@unit('C08', 'AccSignal.pga/pgv/pgd', functions=['eqsig.single.AccSignal.pga', 'eqsig.single.AccSignal.pgv', 'eqsig.single.AccSignal.pgd'],
      cases=[dict(which='pga'), dict(which='pgv'), dict(which='pgd')], modes=('unbounded',))
def object_peaks(V, which):
    st = {}

    def setup():
        CS.install_cache_summaries(V)
        o = CS.make_state(V, 'AccSignal')
        st['o'] = o
        return ((o,), {})

    def op(itp, o):
        return itp.get_attr(o, which)
    for out in V.run(op, setup):
        if not out.no_raise():
            continue
        o = st['o']
        a, n, dt = o.attrs['_values'], o.attrs['_npts'], o.attrs['_dt']
        vel = V.np.sp_cumtrapz(a, dx=dt, initial=0)
        series = {'pga': a, 'pgv': vel, 'pgd': V.np.sp_cumtrapz(vel, dx=dt, initial=0)}[which]
        p = out.result
        for i in V.idx(0, n, 'i'):
            out.prove('peak-bounds-every-sample-of-the-right-series', T.sge(p, T.sabs(series[i])))
        out.prove('peak-attained', T.sor(T.seq(p, V.np.np_max(series)), T.seq(p, T.sneg(V.np.np_min(series)))))


# ------------------------------------------------------------------- object-level access AFTER the record has been changed
import contracts_c04_cache as C4

KIN_READERS = ['velocity', 'displacement', 'pga', 'pgv', 'pgd']
RECORD_CHANGING = ['reset_values', 'add_constant', 'add_series', 'add_signal', 'remove_average', 'remove_poly/1', 'running_average',
                   'butter_pass/band', 'remove_rolling_average/values', 'rebase_displacement', 'set_zero_residual_velocity',
                   'set_zero_residual_displacement', 'correct_me']


@unit('C08', 'velocity/displacement/peaks-after-the-record-changed', functions=C4.FUNCS,
      cases=[dict(op=k) for k in RECORD_CHANGING], modes=('unbounded',), budget_ms=3000)
def kinematics_after_change(V, op):
    """History read velocity, displacement, PGA, PGV, PGD -> change the record through a public operation -> read again: the object
    reports what a freshly constructed object with the NEW record reports (whose series are the cumulative trapezoid integrals by the
    units above), not the series of the record it held before."""
    ops = dict(C4.COMMON_OPS)
    ops.update(C4.ACC_OPS)
    C4.run_op(V, 'AccSignal', op, ops[op], KIN_READERS, prewarm=True)

"""C09 -- cumulative intensity measures: definition, monotonicity and scaling laws."""
import z3

from pyvc.api import unit
from pyvc import terms as T
from pyvc import spec as S
from pyvc.terms import Q

import contracts_common_signal as CS

G = Q('9.81')


DT = [dict(dtype='float'), dict(dtype='int')]      # the record as float64 and as an integer-dtype array (raw counts)


def setup_asig(V, st, min_n=1, dtype='float'):
    def setup():
        n = V.size('n', min_n)
        a = V.array('a', n, dtype)
        dt = V.real('dt')
        V.assume(dt > 0)
        asig = S.make_signal(V, 'AccSignal', a, dt)
        st.update(a=a, n=n, dt=dt, asig=asig)
        return dict(arg0=asig) if False else ((asig,), {})
    return setup


def signal_untouched(V, out, st):
    """frame: a measure is a pure reader of the signal -- afterwards the object still reports the record, velocity and
    displacement of a freshly constructed object (a measure that edits a cached series in place corrupts the NEXT measure)"""
    if 'asig' in st:
        CS.check_fresh_equivalence(V, out, st['asig'], ['values', 'velocity', 'displacement'], tag='frame/')


def series_clauses(V, out, c, n, first, inc, name='', st=None):
    """c has length n, c[0] == first, c[i]-c[i-1] == inc(i) >= 0 (hence non-decreasing)."""
    if st is not None:
        signal_untouched(V, out, st)
    out.prove(name + 'length-is-npts', T.sand(len(c.shape) == 1, T.seq(c.shape[0], n)))
    out.prove(name + 'first-value', T.seq(c[0], first))
    for i in V.idx(1, n):
        out.prove(name + 'increment-is-defining-quadrature-panel', T.seq(T.ssub(c[i], c[i - 1]), inc(i)))
        out.prove(name + 'non-decreasing', T.sge(c[i], c[i - 1]))


def trap(dt, f):
    return lambda i: T.sdiv(T.smul(dt, T.sadd(f(i), f(i - 1))), 2)


@unit('C09', 'calc_arias_intensity', functions=['eqsig.im.calc_arias_intensity', 'eqsig.im._raw_calc_arias_intensity'], cases=DT, sizes=dict(n=[1, 2, 4]))
def arias(V, dtype):
    st = {}
    for out in V.run('eqsig.im.calc_arias_intensity', setup_asig(V, st, dtype=dtype)):
        if not out.no_raise():
            continue
        out.side_conditions()
        a, n, dt = st['a'], st['n'], st['dt']
        c = out.result
        K = T.sdiv(T.pi(), T.smul(2, G))
        # value: pi/(2*9.81) times the cumulative trapezoid of a^2 (spec series shares the quadrature recurrence)
        spec = V.np.sp_cumtrapz(V.op('**', a, 2), dx=dt, initial=0)
        out.prove('length-is-npts', T.seq(c.shape[0], n))
        for i in V.idx(0, n):
            out.prove('value-is-constant-times-trapezoid-of-a2', T.seq(c[i], T.smul(K, spec[i])))
        out.prove('spec/first', T.seq(spec[0], 0))
        for i in V.idx(1, n):
            inc = trap(dt, lambda j: T.smul(a[j], a[j]))(i)
            out.prove('spec/panel', T.seq(T.ssub(spec[i], spec[i - 1]), inc))
            out.prove('spec/panel-non-negative', T.sge(inc, 0))
            out.prove('non-decreasing', T.sge(c[i], c[i - 1]), extra_hyps=[T.sge(spec[i], spec[i - 1])])
        out.unchanged('a', a)


@unit('C09', 'calc_cav', functions=['eqsig.im.calc_cav'], cases=DT, sizes=dict(n=[1, 2, 4]))
def cav(V, dtype):
    st = {}
    for out in V.run('eqsig.im.calc_cav', setup_asig(V, st, dtype=dtype)):
        if not out.no_raise():
            continue
        out.side_conditions()
        a, n, dt = st['a'], st['n'], st['dt']
        series_clauses(V, out, out.result, n, 0, trap(dt, lambda j: T.sabs(a[j])), st=st)


@unit('C09', 'calc_isv', functions=['eqsig.im.calc_isv'], cases=DT, sizes=dict(n=[2, 4]))
def isv(V, dtype):
    st = {}
    for out in V.run('eqsig.im.calc_isv', setup_asig(V, st, 2, dtype=dtype)):
        if not out.no_raise():
            continue
        out.side_conditions()
        a, n, dt = st['a'], st['n'], st['dt']
        v = V.np.sp_cumtrapz(a, dx=dt, initial=0)          # C08: velocity is the cumulative trapezoid of the record
        series_clauses(V, out, out.result, n, 0, trap(dt, lambda j: T.smul(v[j], v[j])), st=st)


@unit('C09', 'calc_integral_of_abs_acceleration', functions=['eqsig.im.calc_integral_of_abs_acceleration'], cases=DT, sizes=dict(n=[1, 2, 4]))
def int_abs_acc(V, dtype):
    st = {}
    for out in V.run('eqsig.im.calc_integral_of_abs_acceleration', setup_asig(V, st, dtype=dtype)):
        if not out.no_raise():
            continue
        out.side_conditions()
        a, n, dt = st['a'], st['n'], st['dt']
        series_clauses(V, out, out.result, n, T.smul(T.sabs(a[0]), dt), lambda i: T.smul(T.sabs(a[i]), dt), st=st)


@unit('C09', 'calc_integral_of_abs_velocity', functions=['eqsig.im.calc_integral_of_abs_velocity', 'eqsig.im.calc_cumulative_abs_displacement'],
      cases=[dict(fn=f, dtype=d) for f in ('calc_integral_of_abs_velocity', 'calc_cumulative_abs_displacement') for d in ('float', 'int')], sizes=dict(n=[2, 4]))
def int_abs_vel(V, fn, dtype):
    st = {}
    for out in V.run('eqsig.im.' + fn, setup_asig(V, st, 2, dtype=dtype)):
        if not out.no_raise():
            continue
        out.side_conditions()
        a, n, dt = st['a'], st['n'], st['dt']
        v = V.np.sp_cumtrapz(a, dx=dt, initial=0)
        series_clauses(V, out, out.result, n, 0, lambda i: T.smul(T.sabs(v[i]), dt), st=st)


@unit('C09', 'calc_unit_kinetic_energy', functions=['eqsig.im.calc_unit_kinetic_energy'], cases=DT, sizes=dict(n=[2, 4]))
def uke(V, dtype):
    st = {}
    for out in V.run('eqsig.im.calc_unit_kinetic_energy', setup_asig(V, st, 2, dtype=dtype)):
        if not out.no_raise():
            continue
        out.side_conditions()
        a, n, dt = st['a'], st['n'], st['dt']
        v = V.np.sp_cumtrapz(a, dx=dt, initial=0)
        ke = lambda j: T.smul(T.smul(Q('1/2'), v[j]), T.sabs(v[j]))      # 0.5 * v * |v|
        series_clauses(V, out, out.result, n, T.sabs(ke(0)), lambda i: T.sabs(T.ssub(ke(i), ke(i - 1))), st=st)


# ---------------------------------------------------------------------------------------------- standardised CAV
@unit('C09', 'calc_cav_dp', functions=['eqsig.im.calc_cav_dp'], modes=('bounded',), sizes=dict(pps=[2, 3], secs=[2, 3]),
      thorough_sizes=dict(pps=[2, 3, 4], secs=[2, 3]), budget_ms=20000)
def cav_dp(V):
    st = {}

    def setup():
        pps, secs = V.size('pps', 2), V.size('secs', 2)
        n = pps * secs + 1
        a = V.array('a', n)
        dt = Q(1, pps)                                  # integer number of samples per second (property's domain)
        asig = S.make_signal(V, 'AccSignal', a, dt)
        st.update(a=a, n=n, dt=dt, pps=pps, secs=secs)
        return ((asig,), {})
    for out in V.run('eqsig.im.calc_cav_dp', setup):
        if not out.no_raise():
            continue
        a, n, dt, pps, secs = st['a'], st['n'], st['dt'], st['pps'], st['secs']
        r = out.result
        ok = hasattr(r, 'shape') and tuple(r.shape) == (n,)
        out.prove('length-is-npts', ok)
        if not ok:
            continue
        g = lambda j: T.sdiv(T.sabs(a[j]), G)
        panel = lambda k: T.sdiv(T.smul(dt, T.sadd(g(k), g(k + 1))), 2)
        upper, lower, cav = Q(0), Q(0), Q(0)
        any_q = False
        for w in range(secs):
            js = range(w * pps, (w + 1) * pps + 1)
            peak = None
            for j in js:
                peak = g(j) if peak is None else T.smax2(peak, g(j))
            q = T.sge(peak, Q('0.025'))                 # the window reaches 0.025 g (at any of its samples, both ends included)
            any_q = T.sor(any_q, q)
            integ = Q(0)
            big = None
            for k in range(w * pps, (w + 1) * pps):
                integ = T.sadd(integ, panel(k))
                big = panel(k) if big is None else T.smax2(big, panel(k))
            upper = T.sadd(upper, T.site(q, integ, 0))
            lower = T.sadd(lower, T.site(q, T.ssub(integ, big), 0))
            cav = T.sadd(cav, integ)
        final = r[n - 1]
        out.prove('final-value-at-most-sum-of-qualifying-window-integrals', T.sle(final, upper))
        out.prove('final-value-within-one-panel-per-qualifying-window', T.sge(final, lower))
        out.prove('zero-when-no-window-reaches-0.025g', T.simplies(T.snot(any_q), T.sand(*[T.seq(r[i], 0) for i in range(n)])))
        out.prove('bounded-by-CAV/9.81', T.sle(final, cav))
        for i in range(n):
            out.prove('non-negative[%d]' % i, T.sge(r[i], 0))
            if i:
                out.prove('non-decreasing[%d]' % i, T.sge(r[i], r[i - 1]))
        out.unchanged('a', a)

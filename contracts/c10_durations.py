"""C10 -- significant and bracketed durations locate threshold crossings exactly."""
from pyvc.api import unit, Skip
from pyvc import terms as T
from pyvc import spec as S
from pyvc.terms import Q


def between(I, n, start, end):
    """q(i): start*I[-1] < I[i] < end*I[-1]  (both strict: taken from the property statement)."""
    last = I[T.ssub(n, 1)] if not isinstance(n, int) else I[n - 1]
    return lambda i: T.sand(T.slt(T.smul(start, last), I[i]), T.slt(I[i], T.smul(end, last)))


def duration_clauses(V, out, res, se, dt, n, q):
    F = S.first_index(q, n, 'F')
    L = S.last_index(q, n, 'L')
    t0, t1 = T.smul(F, dt), T.smul(L, dt)
    if se:
        ok_shape = isinstance(res, tuple) and len(res) == 2
        out.prove('se-returns-pair', ok_shape)
        if ok_shape:
            out.prove('start-time-is-first-crossing', T.seq(res[0], t0))
            out.prove('end-time-is-last-crossing', T.seq(res[1], t1))
            out.prove('ordered-within-record', T.sand(T.sle(0, res[0]), T.sle(res[0], res[1]), T.sle(res[1], T.smul(T.ssub(n, 1), dt))))
    else:
        ok_shape = T.is_scalar(res) and res is not None
        out.prove('returns-scalar', ok_shape)
        if ok_shape:
            out.prove('duration-is-last-minus-first', T.seq(res, T.ssub(t1, t0)))
            out.prove('duration-non-negative', T.sge(res, 0))


@unit('C10', 'calc_sig_dur_vals', functions=['eqsig.im.calc_sig_dur_vals'],
      cases=[dict(se=True, dtype='float'), dict(se=False, dtype='float'), dict(se=True, dtype='int')], sizes=dict(n=[2, 3, 4]))
def sig_dur_vals(V, se, dtype):
    st = {}

    def setup():
        n = V.size('n', 1)
        a = V.array('a', n, dtype)
        dt, start, end = V.real('dt'), V.real('start'), V.real('end')
        V.assume(dt > 0, 0 < start, start < end, end < 1)
        I = V.np.np_cumsum(V.op('**', a, 2))
        q = between(I, n, start, end)
        S.exists_index(V, q, n)                       # the property's precondition: some sample lies strictly between
        st.update(q=q, n=n)
        return dict(motion=a, dt=dt, start=start, end=end, se=se)
    for out in V.run('eqsig.im.calc_sig_dur_vals', setup):
        if not out.no_raise():
            continue
        out.side_conditions()
        duration_clauses(V, out, out.result, se, out.args['dt'], st['n'], st['q'])
        out.unchanged('a', out.args['motion'])


@unit('C10', 'calc_sig_dur_vals/defaults', functions=['eqsig.im.calc_sig_dur_vals'], sizes=dict(n=[3]))
def sig_dur_vals_defaults(V):
    st = {}

    def setup():
        n = V.size('n', 1)
        a = V.array('a', n)
        dt = V.real('dt')
        V.assume(dt > 0)
        I = V.np.np_cumsum(V.op('**', a, 2))
        q = between(I, n, Q('0.05'), Q('0.95'))
        S.exists_index(V, q, n)
        st.update(q=q, n=n)
        return dict(motion=a, dt=dt)
    for out in V.run('eqsig.im.calc_sig_dur_vals', setup):
        if not out.no_raise():
            continue
        duration_clauses(V, out, out.result, False, out.args['dt'], st['n'], st['q'])


def _asig(V, a, dt):
    return S.make_signal(V, 'AccSignal', a, dt)


@unit('C10', 'calc_sig_dur', functions=['eqsig.im.calc_sig_dur', 'eqsig.im.calc_arias_intensity', 'eqsig.im._raw_calc_arias_intensity'],
      cases=[dict(se=s, im=i, pre=p) for p in ('fresh', 'after-a-call-with-another-measure') for i in ('arias', 'custom') for s in (True, False)],
      sizes=dict(n=[3, 4]))
def sig_dur(V, se, im, pre):
    """pre='after-a-call-with-another-measure': the same AccSignal has already been asked for a significant duration with a
    DIFFERENT cumulative measure and other fractions; the answer must still be the one for the measure requested now."""
    st = {}
    if pre != 'fresh' and V.mode == 'bounded' and V.sizes.get('n', 0) > 3:
        raise Skip()                        # two calls square the number of paths: the history is run unbounded and at n = 3

    def setup():
        n = V.size('n', 1)
        a = V.array('a', n)
        dt, start, end = V.real('dt'), V.real('start'), V.real('end')
        V.assume(dt > 0, 0 < start, start < end, end < 1)
        asig = _asig(V, a, dt)
        if im == 'arias':
            I = V.op('*', T.sdiv(T.pi(), T.smul(2, Q('9.81'))), V.np.sp_cumtrapz(V.op('**', a, 2), dx=dt, initial=0))
            imf = None
        else:
            # a user supplied cumulative measure: an arbitrary array-valued function of the signal
            g = V.array('G', n, origin='fresh')
            I = g
            imf = V.opaque_callable('user_measure', lambda itp, sig: g)
        q = between(I, n, start, end)
        S.exists_index(V, q, n)
        st.update(q=q, n=n, dt=dt)
        if pre != 'fresh':
            h = V.array('H', n, origin='fresh')
            other = None if im == 'custom' else V.opaque_callable('other_measure', lambda itp, sig: h)
            s0, e0 = V.real('start0'), V.real('end0')
            V.assume(0 < s0, s0 < e0, e0 < 1)
            st.update(first=dict(start=s0, end=e0, im=other, se=False))
        return dict(asig=asig, start=start, end=end, im=imf, se=se)

    def two_calls(itp, asig, start, end, im, se):
        f = itp.get_function('eqsig.im.calc_sig_dur')
        try:
            itp.call(f, [asig], st['first'])          # its own result (or IndexError when nothing lies between) is irrelevant here
        except T.PyExc:
            pass
        return itp.call(f, [asig], dict(start=start, end=end, im=im, se=se))
    for out in V.run('eqsig.im.calc_sig_dur' if pre == 'fresh' else two_calls, setup):
        if pre != 'fresh':
            out.replay_info = dict(module='durations', se=se, im=im, pre=pre)
        if not out.no_raise():
            continue
        if pre == 'fresh':
            out.side_conditions()
        duration_clauses(V, out, out.result, se, st['dt'], st['n'], st['q'])


@unit('C10', 'calc_brac_dur', functions=['eqsig.im.calc_brac_dur'], cases=[dict(se=True), dict(se=False)], sizes=dict(n=[1, 2, 4]))
def brac_dur(V, se):
    st = {}

    def setup():
        n = V.size('n', 1)
        a = V.array('a', n)
        dt, thr = V.real('dt'), V.real('thr')
        V.assume(dt > 0, thr >= 0)
        asig = _asig(V, a, dt)
        st.update(a=a, n=n, dt=dt, thr=thr)
        return dict(asig=asig, threshold=thr, se=se)
    for out in V.run('eqsig.im.calc_brac_dur', setup):
        if not out.no_raise():
            continue
        out.side_conditions()
        a, n, dt, thr = st['a'], st['n'], st['dt'], st['thr']
        q = lambda i: T.sgt(T.sabs(a[i]), thr)
        F = S.first_index(q, n, 'F')
        L = S.last_index(q, n, 'L')
        res = out.result
        if isinstance(n, int):
            some = T.sor(*[q(k) for k in range(n)])
            none = T.snot(some)
            none_h = [none]
            some_h = [some]
        else:
            e = V.skolem('e', 0, n)
            some_h = [q(e)]
            import z3
            i = z3.Int('bi')
            none_h = [z3.ForAll([i], z3.Implies(z3.And(0 <= i, i < n), z3.Not(T.to_bool_term(q(i)))))]
        if se:
            ok = isinstance(res, tuple) and len(res) == 2
            out.prove('se-returns-pair', ok)
            if ok:
                if res[0] is None or res[1] is None:
                    out.prove('none-only-when-nothing-exceeds', False, extra_hyps=some_h)
                    out.prove('both-none', res[0] is None and res[1] is None)
                else:
                    out.prove('start-is-first-exceedance', T.seq(res[0], T.smul(F, dt)), extra_hyps=some_h)
                    out.prove('end-is-last-exceedance', T.seq(res[1], T.smul(L, dt)), extra_hyps=some_h)
                    out.prove('pair-only-when-something-exceeds', False, extra_hyps=none_h)
        else:
            ok = T.is_scalar(res) and res is not None
            out.prove('returns-number', ok)
            if ok:
                out.prove('duration-is-last-minus-first-exceedance', T.seq(res, T.smul(T.ssub(L, F), dt)), extra_hyps=some_h)
                out.prove('zero-when-nothing-exceeds', T.seq(res, 0), extra_hyps=none_h)
                out.prove('non-negative', T.sge(res, 0))


from pyvc.api import int_variant
int_variant('C10', 'calc_sig_dur', ['a'])
int_variant('C10', 'calc_brac_dur', ['a'])

"""C11 -- local-peak detection is sound and complete on every series (bounded symbolic stand-in: every real-valued
series of the stated lengths, i.e. every rise/fall/flat pattern)."""
from pyvc.api import unit, Skip
from pyvc import terms as T
from pyvc.terms import Q

PK = 'eqsig.fns.peaks_and_crossings.'


def nonconstant(V, x, n):
    V.assume(T.sor(*[T.sne(x[k], x[k + 1]) for k in range(n - 1)]))


def concrete_indices(r):
    """Result index array -> list of python ints (bounded mode yields concrete indices on every path) or None."""
    if not hasattr(r, 'shape') or len(r.shape) != 1:
        return None
    out = []
    for k in range(r.shape[0]):
        v = T.N(r[k])
        if not isinstance(v, int):
            return None
        out.append(v)
    return out


def peak_clauses(V, out, x, n, p):
    """The defining clauses of the reported turning-point set p (concrete ascending indices) for series x."""
    out.prove('strictly-ascending', all(a < b for a, b in zip(p, p[1:])) and len(p) >= 1 and all(0 <= a < n for a in p))
    out.prove('begins-at-index-0', p[0] == 0)
    last = p[-1]
    out.prove('ends-at-first-sample-of-final-constant-run',
              T.sand(*([T.seq(x[t], x[last]) for t in range(last, n)] + ([T.sne(x[last - 1], x[last])] if last > 0 else []))))
    dirs = []
    for a, b in zip(p, p[1:]):
        s = T.ssign(T.ssub(x[b], x[a]))
        dirs.append(s)
        out.prove('segment[%d,%d]-strict-net-movement' % (a, b), T.sne(s, 0))
        out.prove('segment[%d,%d]-monotone' % (a, b), T.sand(*[T.sge(T.smul(T.ssub(x[t + 1], x[t]), s), 0) for t in range(a, b)]))
    for j in range(len(dirs) - 1):
        out.prove('direction-alternates-at-%d' % p[j + 1], T.seq(dirs[j + 1], T.sneg(dirs[j])))
    for a in p[1:]:
        out.prove('reported-%d-is-first-sample-of-its-plateau' % a, T.sne(x[a - 1], x[a]))
    return dirs


@unit('C11', 'get_peak_array_indices', functions=[PK + 'get_peak_array_indices', PK + 'clean_out_non_changing',
                                                  PK + 'determine_indices_of_peaks_for_cleaned_array'],
      cases=[dict(dtype='float'), dict(dtype='int')], modes=('bounded',), sizes=dict(n=[2, 3, 4, 5]),
      thorough_sizes=dict(n=[2, 3, 4, 5, 6, 7]))
def peaks_all(V, dtype):
    st = {}

    def setup():
        n = V.size('n', 2)
        x = V.array('x', n, dtype)
        nonconstant(V, x, n)
        st.update(n=n, x=x)
        return dict(values=x)
    f = V.itp.get_function(PK + 'get_peak_array_indices')
    for out in V.run(PK + 'get_peak_array_indices', setup):
        if not out.no_raise():
            continue
        n, x = st['n'], st['x']
        p = concrete_indices(out.result)
        out.prove('returns-index-array', p is not None)
        if p is None:
            continue
        dirs = peak_clauses(V, out, x, n, p)
        out.unchanged('x', x)
        out.prove('at-least-two-reported-indices-for-a-non-constant-series', len(p) >= 2)
        if len(p) < 2:
            continue
        # max / min selections: exactly those reported indices that are local maxima / minima
        for ptype in ('max', 'min'):
            try:
                sel = concrete_indices(V.itp.call(f, [x], dict(ptype=ptype)))
            except T.PyExc as e:
                out.prove('%s-selection-no-exception[%s]' % (ptype, e.kind), False)
                continue
            out.prove('%s-selection-returns-indices' % ptype, sel is not None)
            if sel is None:
                continue
            out.prove('%s-selection-subset-of-reported' % ptype, all(s in p for s in sel))
            for j, idx in enumerate(p):
                # a reported index is a local maximum iff the series leaves it downwards (or arrives upwards at the last one)
                if j < len(dirs):
                    is_max = T.seq(dirs[j], -1)
                else:
                    is_max = T.seq(dirs[j - 1], 1)
                want = is_max if ptype == 'max' else T.snot(is_max)
                out.prove('%s-selection-membership-of-%d' % (ptype, idx), T.seq(idx in sel, want) if not isinstance(want, bool) else (idx in sel) == want)


# ------------------------------------------------------------------------------------ unbounded helper contracts
from pyvc import spec as S
import z3


@unit('C11', 'clean_out_non_changing', functions=[PK + 'clean_out_non_changing'], cases=[dict(dtype='float'), dict(dtype='int')],
      modes=('unbounded',))
def clean_out(V, dtype):
    st = {}

    def setup():
        n = V.size('n', 1)
        x = V.array('x', n, dtype)
        st.update(n=n, x=x)
        return dict(values=x)
    for out in V.run(PK + 'clean_out_non_changing', setup):
        if not out.no_raise():
            continue
        out.side_conditions()
        n, x = st['n'], st['x']
        ok = isinstance(out.result, tuple) and len(out.result) == 2
        out.prove('returns-pair', ok)
        if not ok:
            continue
        cleaned, idx = out.result
        m = idx.shape[0]
        out.prove('same-length', T.seq(cleaned.shape[0], m))
        out.prove('at-least-one-kept', T.sge(m, 1))
        out.prove('first-kept-index-is-0', T.seq(idx[0], 0))
        for k in V.idx(0, m, 'k'):
            out.prove('kept-index-in-range', T.sand(T.sle(0, idx[k]), T.slt(idx[k], n)))
            out.prove('cleaned-value-is-value-at-kept-index', T.seq(cleaned[k], x[idx[k]]))
        for k in V.idx(1, m, 'k1'):
            out.prove('kept-indices-ascending', T.sle(idx[k - 1], idx[k]))
            out.prove('kept-indices-strictly-ascending-after-the-first', T.simplies(T.sge(k, 2), T.slt(idx[k - 1], idx[k])))
            out.prove('kept-index-marks-a-change', T.simplies(T.sge(idx[k], 1), T.sne(x[idx[k]], x[T.ssub(idx[k], 1)])))
        # completeness: every change point is kept (some position j of idx holds it)
        for i in V.idx(1, n, 'i'):
            # witness: the library's where-contract supplies the position; stated as non-existence of a gap
            j = V.skolem('j', 1, m)
            out.prove('no-change-point-strictly-between-adjacent-kept-indices',
                      T.simplies(T.sand(T.slt(idx[j - 1], i), T.slt(i, idx[j])), T.seq(x[i], x[i - 1])))
            out.prove('no-change-point-after-the-last-kept-index',
                      T.simplies(T.sgt(i, idx[T.ssub(m, 1)]), T.seq(x[i], x[i - 1])))
        # transitive form of the ascent and the existence form of completeness (what the composition below consumes)
        a_, b_ = V.skolem('ka', 1, m), V.skolem('kb', 1, m)
        out.prove('kept-indices-strictly-ascending-transitively-after-the-first', T.simplies(T.slt(a_, b_), T.slt(idx[a_], idx[b_])),
                  inst=[a_, b_, T.ssub(a_, 1), T.ssub(b_, 1)])
        out.prove('kept-count-at-most-n+1', T.sle(m, T.sadd(n, 1)))
        wc = out.cx.cache.get('where-calls', [])
        out.prove('one-where-call', len(wc) == 1)
        if len(wc) == 1:
            pos = wc[0]['pos']
            for i in V.idx(1, n, 'ic'):
                kw = T.sadd(T.N(pos(T.to_int_term(i))), 1)
                out.prove('every-change-point-is-kept', T.simplies(T.sne(x[i], x[i - 1]), T.sand(T.sle(1, kw), T.slt(kw, m), T.seq(idx[kw], i))),
                          inst=[i, kw, T.ssub(kw, 1)])
        out.unchanged('x', x)


@unit('C11', 'determine_indices_of_peaks_for_cleaned_array', functions=[PK + 'determine_indices_of_peaks_for_cleaned_array',
                                                                         PK + 'determine_indices_of_peaks_for_cleaned'],
      cases=[dict(fn='determine_indices_of_peaks_for_cleaned_array'), dict(fn='determine_indices_of_peaks_for_cleaned')],
      modes=('unbounded',), opts=dict(no_resolve=True))
def peaks_cleaned(V, fn):
    st = {}

    def setup():
        n = V.size('n', 1)
        c = V.array('c', n)
        st.update(n=n, c=c)
        return dict(values=c)
    for out in V.run(PK + fn, setup):
        if not out.no_raise():
            continue
        out.side_conditions()
        n, c = st['n'], st['c']
        p = out.result
        m = p.shape[0]
        d = lambda k: T.site(T.seq(k, 0), 0, T.ssub(c[k], c[k - 1]))          # successive differences, d(0) = 0
        turn = lambda k: T.slt(T.smul(d(T.sadd(k, 1)), d(k)), 0)               # direction switches at k
        out.prove('at-least-first-and-last', T.sge(m, 2))
        out.prove('first-is-0', T.seq(p[0], 0))
        out.prove('last-is-final-index', T.seq(p[T.ssub(m, 1)], T.ssub(n, 1)))
        for j in V.idx(1, T.ssub(m, 1), 'j'):
            out.prove('interior-entry-is-a-direction-switch', T.sand(T.sle(0, p[j]), T.slt(p[j], T.ssub(n, 1)), turn(p[j])))
            out.prove('interior-entries-strictly-ascending', T.simplies(T.sge(j, 2), T.slt(p[j - 1], p[j])))
        for k in V.idx(0, T.ssub(n, 1), 'k'):
            j = V.skolem('jj', 1, m)
            out.prove('no-direction-switch-strictly-between-adjacent-entries',
                      T.simplies(T.sand(T.slt(p[j - 1], k), T.slt(k, p[j]), T.sge(j, 2), T.slt(j, T.ssub(m, 1))), T.snot(turn(k))))
            out.prove('no-direction-switch-before-first-interior-entry',
                      T.simplies(T.sand(T.sgt(m, 2), T.slt(k, p[1])), T.snot(turn(k))))
            out.prove('no-direction-switch-after-last-interior-entry',
                      T.simplies(T.sand(T.sgt(m, 2), T.sgt(k, p[T.ssub(m, 2)])), T.snot(turn(k))))
            out.prove('no-direction-switch-at-all-when-only-ends-reported', T.simplies(T.seq(m, 2), T.snot(turn(k))))
        # the same clauses with the direction switch written without a product (what the composition consumes: linear arithmetic only)
        switch = lambda k: T.sor(T.sand(T.sgt(d(T.sadd(k, 1)), 0), T.slt(d(k), 0)), T.sand(T.slt(d(T.sadd(k, 1)), 0), T.sgt(d(k), 0)))
        for j in V.idx(1, T.ssub(m, 1), 'js'):
            out.prove('interior-entry-is-a-direction-switch/sign-form', switch(p[j]))
        for k in V.idx(0, T.ssub(n, 1), 'ks'):
            jj = V.skolem('jjs', 1, m)
            out.prove('no-direction-switch-strictly-between-adjacent-entries/sign-form',
                      T.simplies(T.sand(T.slt(p[jj - 1], k), T.slt(k, p[jj]), T.sge(jj, 2), T.slt(jj, T.ssub(m, 1))), T.snot(switch(k))))
            out.prove('no-direction-switch-before-first-interior-entry/sign-form', T.simplies(T.sand(T.sgt(m, 2), T.slt(k, p[1])), T.snot(switch(k))))
            out.prove('no-direction-switch-after-last-interior-entry/sign-form', T.simplies(T.sand(T.sgt(m, 2), T.sgt(k, p[T.ssub(m, 2)])), T.snot(switch(k))))
            out.prove('no-direction-switch-at-all-when-only-ends-reported/sign-form', T.simplies(T.seq(m, 2), T.snot(switch(k))))
        a_, b_ = V.skolem('ja', 1, T.ssub(m, 1)), V.skolem('jb', 1, T.ssub(m, 1))
        out.prove('interior-entries-strictly-ascending-transitively', T.simplies(T.slt(a_, b_), T.slt(p[a_], p[b_])),
                  inst=[a_, b_, T.ssub(a_, 1), T.ssub(b_, 1)])
        out.prove('interior-entry-at-least-1', T.sge(p[a_], 1), inst=[a_, T.ssub(a_, 1)])
        out.unchanged('c', c)


@unit('C11', 'get_n_cyc_array', functions=[PK + 'get_n_cyc_array'], cases=[dict(start='origin'), dict(start='peak')],
      modes=('bounded',), sizes=dict(n=[2, 3, 4]), thorough_sizes=dict(n=[2, 3, 4, 5, 6]))
def n_cyc(V, start):
    st = {}

    def setup():
        n = V.size('n', 2)
        x = V.array('x', n)
        nonconstant(V, x, n)
        st.update(n=n, x=x)
        return dict(values=x, opt='all', start=start)
    f = V.itp.get_function(PK + 'get_peak_array_indices')
    for out in V.run(PK + 'get_n_cyc_array', setup):
        if not out.no_raise():
            continue
        n, x = st['n'], st['x']
        r = out.result
        ok = hasattr(r, 'shape') and tuple(r.shape) == (n,)
        out.prove('length-is-series-length', ok)
        if not ok:
            continue
        p = concrete_indices(V.itp.call(f, [x], {}))
        sv = Q('-0.25') if start == 'origin' else Q(0)
        for j, idx in enumerate(p):
            out.prove('count-at-reported-peak-%d' % idx, T.seq(r[idx], T.sadd(Q(j, 2), sv if j >= 1 else 0)))
        for i in range(1, n):
            out.prove('non-decreasing[%d]' % i, T.sge(r[i], r[i - 1]))
        out.unchanged('x', x)


@unit('C11', 'get_n_cyc_array/bad-options', functions=[PK + 'get_n_cyc_array'], cases=[dict(opt='nope', start='origin'), dict(opt='all', start='nope')],
      modes=('bounded',), sizes=dict(n=[3]))
def n_cyc_bad(V, opt, start):
    def setup():
        n = V.size('n', 2)
        x = V.array('x', n)
        nonconstant(V, x, n)
        return dict(values=x, opt=opt, start=start)
    for out in V.run(PK + 'get_n_cyc_array', setup):
        out.prove('raises-ValueError', out.raised is not None and out.raised.kind == 'ValueError')


from pyvc.api import int_variant
int_variant('C11', 'get_n_cyc_array', ['x'])


# ------------------------------------------------------------------------ unbounded composition of the two helper contracts
from pyvc import arrays as A
from pyvc.arrays import CArr, is_arr


def clean_summary(itp, values):
    """Contract of clean_out_non_changing (every clause is proved by the unit 'clean_out_non_changing' above) as an assumption at the
    call site: kept indices idx[0..m) with idx[0] = 0, in range, strictly ascending after the first (transitively), every kept index
    after the first marks a change, no change point strictly between adjacent kept indices or after the last, every change point is
    kept; cleaned[k] = values[idx[k]]."""
    M = itp.lib.models
    x = M.asarray(values)
    n = x.shape[0]
    rx = A.reader(x)
    c = T.ctx()
    m = T.fresh('m_kept', T.I)
    F = T.fresh_fn('kept_idx', T.I, T.I)
    KP = T.fresh_fn('kept_pos', T.I, T.I)
    nz = T.to_int_term(n)
    k, a_, b_, i = z3.Ints('cs_k cs_a cs_b cs_i')
    xv = lambda t: T.to_z3(rx(t))
    c.fact(z3.And(m >= 1, m <= nz + 1, F(0) == 0))
    c.fact(z3.ForAll([k], z3.Implies(z3.And(0 <= k, k < m), z3.And(0 <= F(k), F(k) < nz)), patterns=[F(k)]))
    c.fact(z3.ForAll([a_, b_], z3.Implies(z3.And(1 <= a_, a_ < b_, b_ < m), F(a_) < F(b_)), patterns=[z3.MultiPattern(F(a_), F(b_))]))
    c.fact(z3.ForAll([k], z3.Implies(z3.And(1 <= k, k < m, F(k) >= 1), xv(F(k)) != xv(F(k) - 1)), patterns=[F(k)]))
    c.fact(z3.ForAll([k, i], z3.Implies(z3.And(1 <= k, k < m, F(k - 1) < i, i < F(k)), xv(i) == xv(i - 1)), patterns=[z3.MultiPattern(F(k), xv(i))]))
    c.fact(z3.ForAll([i], z3.Implies(z3.And(F(m - 1) < i, i < nz), xv(i) == xv(i - 1)), patterns=[xv(i)]))
    c.fact(z3.ForAll([i], z3.Implies(z3.And(1 <= i, i < nz, xv(i) != xv(i - 1)), z3.And(1 <= KP(i), KP(i) < m, F(KP(i)) == i)), patterns=[KP(i)]))
    c.assumed.append('contract of clean_out_non_changing (proved under C11)')
    c.cache['clean-summary'] = dict(m=m, F=F, KP=KP, x=x)
    idx = CArr.from_fn(lambda kk: T.N(F(T.to_int_term(kk))), (m,), 'int')
    cleaned = CArr.from_fn(lambda kk: rx(T.N(F(T.to_int_term(kk)))), (m,), x.dtype)
    return cleaned, idx


def peaks_summary(itp, values):
    """Contract of determine_indices_of_peaks_for_cleaned_array (proved by the unit of that name above) as an assumption at the call site."""
    M = itp.lib.models
    cv = M.asarray(values)
    m = cv.shape[0]
    rc = A.reader(cv)
    c = T.ctx()
    q = T.fresh('q_peaks', T.I)
    G = T.fresh_fn('peak_idx', T.I, T.I)
    mz = T.to_int_term(m)
    j, a_, b_, k = z3.Ints('ps_j ps_a ps_b ps_k')
    cz = lambda t: T.to_real(rc(t))
    d = lambda t: z3.If(t == 0, z3.RealVal(0), cz(t) - cz(t - 1))
    turn = lambda t: z3.Or(z3.And(d(t + 1) > 0, d(t) < 0), z3.And(d(t + 1) < 0, d(t) > 0))      # sign form (proved next to the product form)
    c.fact(z3.And(q >= 2, G(0) == 0, G(q - 1) == mz - 1))
    c.fact(z3.ForAll([j], z3.Implies(z3.And(1 <= j, j < q - 1), z3.And(1 <= G(j), G(j) < mz - 1, turn(G(j)))), patterns=[G(j)]))
    c.fact(z3.ForAll([a_, b_], z3.Implies(z3.And(1 <= a_, a_ < b_, b_ < q - 1), G(a_) < G(b_)), patterns=[z3.MultiPattern(G(a_), G(b_))]))
    c.fact(z3.ForAll([j, k], z3.Implies(z3.And(2 <= j, j < q - 1, G(j - 1) < k, k < G(j)), z3.Not(turn(k))), patterns=[z3.MultiPattern(G(j), cz(k))]))
    c.fact(z3.ForAll([k], z3.Implies(z3.And(q > 2, 0 <= k, k < G(1)), z3.Not(turn(k))), patterns=[cz(k)]))
    c.fact(z3.ForAll([k], z3.Implies(z3.And(q > 2, G(q - 2) < k, k < mz - 1), z3.Not(turn(k))), patterns=[cz(k)]))
    c.fact(z3.ForAll([k], z3.Implies(z3.And(q == 2, 0 <= k, k < mz - 1), z3.Not(turn(k))), patterns=[cz(k)]))
    c.assumed.append('contract of determine_indices_of_peaks_for_cleaned_array (proved under C11)')
    c.cache['peaks-summary'] = dict(q=q, G=G, c=cv, d=d, turn=turn)
    return CArr.from_fn(lambda jj: T.N(G(T.to_int_term(jj))), (q,), 'int')


@unit('C11', 'get_peak_array_indices/composition (unbounded)', functions=[PK + 'get_peak_array_indices'],
      cases=[dict(dtype='float'), dict(dtype='int')], modes=('unbounded',), budget_ms=30000, opts=dict(histories=()))
def peaks_composition(V, dtype):
    """The whole function for a series of ANY length, verified modularly: the two helpers are used through their contracts (proved by
    the units above), the body of get_peak_array_indices is executed symbolically.  Proved: the reported indices begin at 0, are strictly
    ascending, end at the first sample of the final constant run, and every reported index after the first is the first sample of its
    plateau.  (Monotone segments / alternation / max-min selection: bounded unit above.)"""
    st = {}

    def setup():
        V.itp.contracts[PK + 'clean_out_non_changing'] = clean_summary
        V.itp.contracts[PK + 'determine_indices_of_peaks_for_cleaned_array'] = peaks_summary
        n = V.size('n', 2)
        x = V.array('x', n, dtype)
        e = V.skolem('e_change', 0, T.ssub(n, 1))
        V.assume(T.sne(x[e], x[T.sadd(e, 1)]))                     # non-constant series (the property's domain)
        st.update(n=n, x=x, e=e)
        return dict(values=x)
    for out in V.run(PK + 'get_peak_array_indices', setup):
        if not out.no_raise():
            continue
        n, x, e = st['n'], st['x'], st['e']
        cs, ps = out.cx.cache.get('clean-summary'), out.cx.cache.get('peaks-summary')
        out.prove('both-helpers-called-once-through-their-contracts', cs is not None and ps is not None)
        if cs is None or ps is None:
            continue
        m, F, q, G = cs['m'], cs['F'], ps['q'], ps['G']
        Fi = lambda t: T.N(F(T.to_int_term(t)))
        Gi = lambda t: T.N(G(T.to_int_term(t)))
        R = out.result
        common = [e, T.sadd(e, 1), 0, 1, T.ssub(m, 1), T.ssub(q, 1), T.ssub(q, 2), Gi(1), Gi(T.ssub(q, 2))]
        out.side_conditions()
        out.prove('one-index-per-reported-turning-point', T.seq(R.shape[0], q))
        for j in V.idx(0, q, 'j'):
            out.prove('reported-index-is-kept-index-of-cleaned-peak', T.seq(R[j], Fi(Gi(j))))
        out.prove('begins-at-index-0', T.seq(R[0], 0))
        # the last kept index is positive (the series changes somewhere) -- used by the clauses below
        out.prove('lemma/last-kept-index-positive', T.sand(T.sge(m, 2), T.sgt(Fi(T.ssub(m, 1)), 0)), inst=common)
        out.assume(T.sand(T.sge(m, 2), T.sgt(Fi(T.ssub(m, 1)), 0)))
        for j in V.idx(1, q, 'j1'):
            ins = common + [j, T.ssub(j, 1), Gi(j), Gi(T.ssub(j, 1)), T.sadd(Gi(j), 1), T.ssub(Gi(j), 1)]
            # quantifier-free from hand-picked instances of the two contracts (no E-matching: stable solver time)
            jm = T.ssub(j, 1)
            singles = [j, jm, Gi(j), Gi(jm), 0, 1, T.ssub(m, 1), T.ssub(q, 1), T.ssub(q, 2), Gi(1), Gi(T.ssub(q, 2)), e, T.sadd(e, 1)]
            pairs = [(jm, j), (Gi(jm), Gi(j)), (1, Gi(j)), (Gi(T.ssub(q, 2)), T.ssub(m, 1)), (Gi(jm), T.ssub(m, 1)), (1, T.ssub(m, 1))]
            out.prove_qf('strictly-ascending', T.slt(R[j - 1], R[j]), singles=singles, pairs=pairs)
            out.assume(T.sand(T.slt(R[j - 1], R[j]), T.sge(R[j - 1], 0)))          # just proved / range fact of the kept indices
            out.prove_qf('reported-index-is-first-sample-of-its-plateau', T.sand(T.sge(R[j], 1), T.sne(x[R[j]], x[T.ssub(R[j], 1)])),
                         singles=singles, pairs=pairs)
        last = R[T.ssub(q, 1)]
        out.prove('last-reported-is-last-kept-index', T.seq(last, Fi(T.ssub(m, 1))))
        # the series is constant from the last reported index on (induction over the samples after it)
        kt = V.skolem('k_tail')
        out.prove('ends-at-first-sample-of-final-constant-run/constant-from-there-on/step',
                  T.simplies(T.sand(T.slt(last, kt), T.slt(kt, n), T.seq(x[T.ssub(kt, 1)], x[last])), T.seq(x[kt], x[last])),
                  inst=[kt, T.ssub(kt, 1), T.ssub(m, 1), T.ssub(q, 1)])
        # (base: the sample at the last reported index itself; with the step this is  forall t in [last, n): x[t] = x[last]  -- A7)
        out.unchanged('x', x)
        if dtype == 'float':
            # (an integer series is converted to a float copy by the first statement of the function; the rest of the body is the same)
            monotone_segments(V, out, st, cs, ps)


def monotone_segments(V, out, st, cs, ps):
    """Between consecutive reported indices the series is monotone, its net movement is strict, and the direction alternates from one
    segment to the next -- for a series of any length, from the two helper contracts, by three inductions (each: a base and a step
    obligation, quantifier free from hand-picked instances; the universally quantified conclusion is then added as a fact, A7):
      L0  the series is constant from a kept index up to the next one;
      L1  inside a segment every successive difference of the cleaned array has the sign of the segment's first difference;
      L2  hence the cleaned values move strictly in that direction along the segment."""
    n, x = st['n'], st['x']
    m, F, KP, q, G = cs['m'], cs['F'], cs['KP'], ps['q'], ps['G']
    rx = A.reader(cs['x'])
    xv = lambda t: T.to_z3(T.to_real(rx(t)))
    cz = lambda k: xv(F(k))
    d = lambda k: cz(k) - cz(k - 1)                                   # k >= 1
    mz, qz, nz = T.to_int_term(m), T.to_int_term(q), T.to_int_term(n)
    facts = out.cx.facts
    I = z3.Int

    def qf(name, goal, singles=(), pairs=()):
        out.prove_qf(name, goal, singles=list(singles), pairs=list(pairs))
    # ---- L0: constant between adjacent kept indices (induction on the sample index t, for an arbitrary kept position k)
    k, t = T.fresh('k_l0', T.I), T.fresh('t_l0', T.I)
    rng_k = z3.And(1 <= k, k < mz)
    qf('segments/L0-constant-between-kept-indices/step',
       z3.Implies(z3.And(rng_k, F(k - 1) < t, t < F(k), xv(t - 1) == cz(k - 1)), xv(t) == cz(k - 1)), singles=[k, t], pairs=[(k, t)])
    qf('segments/L0-constant-between-kept-indices/base', z3.Implies(rng_k, xv(F(k - 1)) == cz(k - 1)))
    kk, tt = I('l0_k'), I('l0_t')
    facts.append(z3.ForAll([kk, tt], z3.Implies(z3.And(1 <= kk, kk < mz, F(kk - 1) <= tt, tt < F(kk)), xv(tt) == cz(kk - 1)),
                           patterns=[z3.MultiPattern(F(kk), xv(tt))]))
    # ---- D: successive cleaned values differ (from the second kept position on; from the first when it is not the duplicated index 0)
    k = T.fresh('k_d', T.I)
    qf('segments/D-successive-cleaned-values-differ', z3.Implies(z3.And(1 <= k, k < mz, F(k) >= 1, F(k - 1) < F(k)), d(k) != 0),
       singles=[k, k - 1], pairs=[(k, F(k) - 1)])
    facts.append(z3.ForAll([kk], z3.Implies(z3.And(1 <= kk, kk < mz, F(kk) >= 1, F(kk - 1) < F(kk)), d(kk) != 0), patterns=[F(kk)]))
    # ---- segment j runs over the cleaned positions lo(j) .. hi(j)
    k0 = z3.If(F(1) > 0, z3.IntVal(1), z3.IntVal(2))
    lo = lambda j: z3.If(j == 0, k0, G(j) + 1)
    hi = lambda j: G(j + 1)
    j = T.fresh('j_seg', T.I)
    rng_j = z3.And(0 <= j, j < qz - 1)
    base_s = [j, j + 1, 0, 1, 2, mz - 1, qz - 1, qz - 2, G(j), G(j + 1), G(1), G(qz - 2), lo(j), lo(j) - 1, hi(j), st['e'], st['e'] + 1]
    base_p = [(j, j + 1), (G(j), G(j + 1)), (1, G(j + 1)), (1, mz - 1), (1, 2), (1, lo(j)), (lo(j) - 1, lo(j)), (G(qz - 2), mz - 1), (lo(j), F(lo(j)) - 1)]
    qf('segments/every-segment-is-non-empty-and-starts-with-a-non-zero-difference',
       z3.Implies(rng_j, z3.And(1 <= lo(j), lo(j) <= hi(j), hi(j) <= mz - 1, d(lo(j)) != 0, F(lo(j)) >= 1, F(lo(j) - 1) < F(lo(j)))), singles=base_s, pairs=base_p)
    jj = I('seg_j')
    facts.append(z3.ForAll([jj], z3.Implies(z3.And(0 <= jj, jj < qz - 1), z3.And(1 <= lo(jj), lo(jj) <= hi(jj), hi(jj) <= mz - 1, d(lo(jj)) != 0,
                                                                                 F(lo(jj)) >= 1, F(lo(jj) - 1) < F(lo(jj)))), patterns=[G(jj + 1)]))
    # ---- L1: inside a segment all differences have the sign of the first one (induction on the cleaned position k)
    k = T.fresh('k_l1', T.I)
    same_sign = lambda a, b: z3.And(a != 0, (a > 0) == (b > 0))
    qf('segments/L1-differences-keep-the-sign-of-the-first-one/step',
       z3.Implies(z3.And(rng_j, lo(j) < k, k <= hi(j), same_sign(d(k - 1), d(lo(j)))), same_sign(d(k), d(lo(j)))),
       singles=base_s + [k, k - 1, k - 2], pairs=base_p + [(j + 1, k - 1), (k, F(k) - 1), (k - 1, k), (1, k), (1, k - 1), (lo(j), k), (lo(j), k - 1)])
    qf('segments/L1-differences-keep-the-sign-of-the-first-one/base', z3.Implies(rng_j, same_sign(d(lo(j)), d(lo(j)))), singles=base_s, pairs=base_p)
    facts.append(z3.ForAll([jj, kk], z3.Implies(z3.And(0 <= jj, jj < qz - 1, lo(jj) <= kk, kk <= hi(jj)), same_sign(d(kk), d(lo(jj)))),
                           patterns=[z3.MultiPattern(G(jj + 1), cz(kk))]))
    # ---- L2: the cleaned values move strictly in the segment's direction
    k = T.fresh('k_l2', T.I)
    moved = lambda kx, jx: z3.And(z3.Implies(d(lo(jx)) > 0, cz(kx) > cz(lo(jx) - 1)), z3.Implies(d(lo(jx)) < 0, cz(kx) < cz(lo(jx) - 1)))
    qf('segments/L2-cleaned-values-move-strictly-in-the-direction-of-the-segment/step',
       z3.Implies(z3.And(rng_j, lo(j) < k, k <= hi(j), moved(k - 1, j)), moved(k, j)), singles=base_s + [k, k - 1], pairs=base_p + [(j, k), (j, k - 1)])
    qf('segments/L2-cleaned-values-move-strictly-in-the-direction-of-the-segment/base', z3.Implies(rng_j, moved(lo(j), j)), singles=base_s, pairs=base_p)
    facts.append(z3.ForAll([jj, kk], z3.Implies(z3.And(0 <= jj, jj < qz - 1, lo(jj) <= kk, kk <= hi(jj)), moved(kk, jj)),
                           patterns=[z3.MultiPattern(G(jj + 1), cz(kk))]))
    # ---- the clauses of the property, for an arbitrary segment j and an arbitrary sample t inside it
    R = lambda jx: F(G(jx))
    up = d(lo(j)) > 0
    qf('segment-start-value-is-the-cleaned-value-before-the-segment', z3.Implies(rng_j, cz(lo(j) - 1) == xv(R(j))), singles=base_s, pairs=base_p)
    out.assume(z3.Implies(rng_j, cz(lo(j) - 1) == xv(R(j))))
    qf('segment-strict-net-movement', z3.Implies(rng_j, z3.And(z3.Implies(up, xv(R(j + 1)) > xv(R(j))), z3.Implies(z3.Not(up), xv(R(j + 1)) < xv(R(j))))),
       singles=base_s, pairs=base_p + [(j, hi(j))])
    t = T.fresh('t_seg', T.I)
    kt = KP(t + 1)
    qf('segment-monotone', z3.Implies(z3.And(rng_j, R(j) <= t, t < R(j + 1)),
                                      z3.And(z3.Implies(up, xv(t + 1) >= xv(t)), z3.Implies(z3.Not(up), xv(t + 1) <= xv(t)))),
       singles=base_s + [t, t + 1, kt, kt - 1], pairs=base_p + [(kt, t), (kt - 1, kt), (j, kt), (kt, G(j)), (G(j), kt), (kt, G(j + 1)), (G(j + 1), kt), (1, kt), (kt, 1), (kt, F(kt) - 1)])
    # vacuity guard: with all lemmas added the hypotheses must still be satisfiable -- a false statement must NOT be provable
    st['canary'] = (base_s, base_p)
    qf('direction-alternates-from-one-segment-to-the-next', z3.Implies(z3.And(rng_j, j + 1 < qz - 1), (d(lo(j + 1)) > 0) == z3.Not(up)),
       singles=base_s + [j + 2, G(j + 2), lo(j + 1), hi(j) + 1], pairs=base_p + [(j, hi(j)), (j + 1, j + 2), (G(j + 1), G(j + 2))])
    # the two segment clauses as facts for every segment (j was arbitrary)
    upj = lambda jx: d(lo(jx)) > 0
    facts.append(z3.ForAll([jj], z3.Implies(z3.And(0 <= jj, jj + 1 < qz - 1), upj(jj + 1) == z3.Not(upj(jj))), patterns=[G(jj + 2)]))
    facts.append(z3.ForAll([jj], z3.Implies(z3.And(0 <= jj, jj < qz - 1), z3.And(z3.Implies(upj(jj), xv(R(jj + 1)) > xv(R(jj))),
                                                                                 z3.Implies(z3.Not(upj(jj)), xv(R(jj + 1)) < xv(R(jj))))), patterns=[G(jj + 1)]))
    return dict(up=upj, xv=xv, R=R, F=F, G=G, qz=qz, mz=mz, lo=lo)


@unit('C11', 'get_peak_array_indices/max-min-selection (unbounded)', functions=[PK + 'get_peak_array_indices'],
      cases=[dict(ptype='max'), dict(ptype='min')], modes=('unbounded',), budget_ms=30000, opts=dict(histories=()))
def peaks_selection(V, ptype):
    """ptype='max' / 'min' for a series of any length: the function returns EXACTLY those reported turning points that are local maxima
    (minima).  From the segment lemmas of the composition unit (alternating directions) by one more induction (the direction of segment j
    is the first direction iff j is even) and the parity of the slices [::2] / [1::2]."""
    st = {}

    def setup():
        V.itp.contracts[PK + 'clean_out_non_changing'] = clean_summary
        V.itp.contracts[PK + 'determine_indices_of_peaks_for_cleaned_array'] = peaks_summary
        n = V.size('n', 2)
        x = V.array('x', n, 'float')
        e = V.skolem('e_change', 0, T.ssub(n, 1))
        V.assume(T.sne(x[e], x[T.sadd(e, 1)]))
        st.update(n=n, x=x, e=e)
        return dict(values=x, ptype=ptype)
    for out in V.run(PK + 'get_peak_array_indices', setup):
        if not out.no_raise():
            continue
        n, x, e = st['n'], st['x'], st['e']
        cs, ps = out.cx.cache.get('clean-summary'), out.cx.cache.get('peaks-summary')
        out.prove('both-helpers-called-once-through-their-contracts', cs is not None and ps is not None)
        if cs is None or ps is None:
            continue
        out.side_conditions()
        m, F, q, G = cs['m'], cs['F'], ps['q'], ps['G']
        Fi = lambda t: T.N(F(T.to_int_term(t)))
        Gi = lambda t: T.N(G(T.to_int_term(t)))
        common = [e, T.sadd(e, 1), 0, 1, T.ssub(m, 1), T.ssub(q, 1), T.ssub(q, 2), Gi(1), Gi(T.ssub(q, 2))]
        out.prove('lemma/last-kept-index-positive', T.sand(T.sge(m, 2), T.sgt(Fi(T.ssub(m, 1)), 0)), inst=common)
        out.assume(T.sand(T.sge(m, 2), T.sgt(Fi(T.ssub(m, 1)), 0)))
        H = monotone_segments(V, out, st, cs, ps)
        up, xv, R, qz = H['up'], H['xv'], H['R'], H['qz']
        # parity of the directions: segment j goes up iff (the first segment goes up) == (j is even)   -- induction on j
        j = T.fresh('j_par', T.I)
        par = lambda jx: up(jx) == (up(0) == (jx % 2 == 0))
        out.prove_qf('selection/direction-parity/step', z3.Implies(z3.And(1 <= j, j < qz - 1, par(j - 1)), par(j)), singles=[j - 1, j])
        jj = z3.Int('par_j')
        out.cx.facts.append(z3.ForAll([jj], z3.Implies(z3.And(0 <= jj, jj < qz - 1), par(jj)), patterns=[G(jj + 1)]))
        sel = out.result
        ok = is_arr(sel) and len(sel.shape) == 1
        out.prove('selection/returns-an-index-array', ok)
        if not ok:
            continue
        L = T.to_int_term(sel.shape[0])
        # the result is a strided view [o::2] of the array of reported indices: read the offset from the view, then PROVE what it means
        ax = [a for a in getattr(sel, 'axes', []) if a[0] == 'ax']
        o = T.N(ax[0][2]) if len(ax) == 1 else None
        out.prove('selection/result-is-a-view-[o::2]-of-the-reported-indices', o in (0, 1) and T.N(ax[0][3]) == 2)
        if o not in (0, 1):
            continue
        out.prove('selection/length-is-the-number-of-reported-indices-of-that-parity', L == (qz - o + 1) / 2)
        for i in V.idx(0, sel.shape[0], 'i_sel'):
            ji = T.sadd(T.smul(2, i), o)
            out.prove_qf('selection/entry-i-is-reported-index-2i+%d' % o, T.seq(sel[i], Fi(Gi(ji))), singles=[ji, 0, 1, T.ssub(q, 1), T.ssub(q, 2)])
        first_up = up(0)
        out.prove_qf('selection/offset-is-1-exactly-when-the-first-movement-%s' % ('rises' if ptype == 'max' else 'falls'),
                     (first_up if ptype == 'max' else z3.Not(first_up)) == z3.BoolVal(o == 1),
                     singles=[0, 1, qz - 1, qz - 2, G(0), G(1), T.to_int_term(m) - 1, T.to_int_term(e), T.to_int_term(e) + 1])
        out.assume((first_up if ptype == 'max' else z3.Not(first_up)) == z3.BoolVal(o == 1))
        # a reported index is a local maximum iff the series leaves it downwards (or arrives upwards at the last one)
        js = T.fresh('j_sel', T.I)
        is_max = z3.Or(z3.And(js < qz - 1, z3.Not(up(js))), z3.And(js == qz - 1, up(qz - 2)))
        want = is_max if ptype == 'max' else z3.Not(is_max)
        out.prove_qf('selection/exactly-the-reported-indices-that-are-local-%s' % ('maxima' if ptype == 'max' else 'minima'),
                     z3.Implies(z3.And(0 <= js, js < qz), want == (js % 2 == o)),
                     singles=[js, js - 1, 0, 1, qz - 2, qz - 1, T.to_int_term(e), T.to_int_term(e) + 1])
        out.unchanged('x', x)

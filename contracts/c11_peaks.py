"""C11 -- local-peak detection is sound and complete on every series (bounded symbolic stand-in: every real-valued
series of the stated lengths, i.e. every rise/fall/flat pattern)."""
from pyvc.api import unit, Skip
from pyvc import terms as T
from pyvc.terms import Q

PK = 'eqsig.fns.peaks_and_crossings.'


def nonconstant(V, x, n):
    V.assume(T.sor(*[T.sne(x[k], x[k + 1]) for k in range(n - 1)]))


def concrete_indices(r):
    """Result index array -> list of python ints (bounded mode yields concrete indices on every path) or None."""
    if not hasattr(r, 'shape') or len(r.shape) != 1:
        return None
    out = []
    for k in range(r.shape[0]):
        v = T.N(r[k])
        if not isinstance(v, int):
            return None
        out.append(v)
    return out


def peak_clauses(V, out, x, n, p):
    """The defining clauses of the reported turning-point set p (concrete ascending indices) for series x."""
    out.prove('strictly-ascending', all(a < b for a, b in zip(p, p[1:])) and len(p) >= 1 and all(0 <= a < n for a in p))
    out.prove('begins-at-index-0', p[0] == 0)
    last = p[-1]
    out.prove('ends-at-first-sample-of-final-constant-run',
              T.sand(*([T.seq(x[t], x[last]) for t in range(last, n)] + ([T.sne(x[last - 1], x[last])] if last > 0 else []))))
    dirs = []
    for a, b in zip(p, p[1:]):
        s = T.ssign(T.ssub(x[b], x[a]))
        dirs.append(s)
        out.prove('segment[%d,%d]-strict-net-movement' % (a, b), T.sne(s, 0))
        out.prove('segment[%d,%d]-monotone' % (a, b), T.sand(*[T.sge(T.smul(T.ssub(x[t + 1], x[t]), s), 0) for t in range(a, b)]))
    for j in range(len(dirs) - 1):
        out.prove('direction-alternates-at-%d' % p[j + 1], T.seq(dirs[j + 1], T.sneg(dirs[j])))
    for a in p[1:]:
        out.prove('reported-%d-is-first-sample-of-its-plateau' % a, T.sne(x[a - 1], x[a]))
    return dirs


@unit('C11', 'get_peak_array_indices', functions=[PK + 'get_peak_array_indices', PK + 'clean_out_non_changing',
                                                  PK + 'determine_indices_of_peaks_for_cleaned_array'],
      cases=[dict(dtype='float'), dict(dtype='int')], modes=('bounded',), sizes=dict(n=[2, 3, 4, 5]),
      thorough_sizes=dict(n=[2, 3, 4, 5, 6, 7]))
def peaks_all(V, dtype):
    st = {}

    def setup():
        n = V.size('n', 2)
        x = V.array('x', n, dtype)
        nonconstant(V, x, n)
        st.update(n=n, x=x)
        return dict(values=x)
    f = V.itp.get_function(PK + 'get_peak_array_indices')
    for out in V.run(PK + 'get_peak_array_indices', setup):
        if not out.no_raise():
            continue
        n, x = st['n'], st['x']
        p = concrete_indices(out.result)
        out.prove('returns-index-array', p is not None)
        if p is None:
            continue
        dirs = peak_clauses(V, out, x, n, p)
        out.unchanged('x', x)
        out.prove('at-least-two-reported-indices-for-a-non-constant-series', len(p) >= 2)
        if len(p) < 2:
            continue
        # max / min selections: exactly those reported indices that are local maxima / minima
        for ptype in ('max', 'min'):
            try:
                sel = concrete_indices(V.itp.call(f, [x], dict(ptype=ptype)))
            except T.PyExc as e:
                out.prove('%s-selection-no-exception[%s]' % (ptype, e.kind), False)
                continue
            out.prove('%s-selection-returns-indices' % ptype, sel is not None)
            if sel is None:
                continue
            out.prove('%s-selection-subset-of-reported' % ptype, all(s in p for s in sel))
            for j, idx in enumerate(p):
                # a reported index is a local maximum iff the series leaves it downwards (or arrives upwards at the last one)
                if j < len(dirs):
                    is_max = T.seq(dirs[j], -1)
                else:
                    is_max = T.seq(dirs[j - 1], 1)
                want = is_max if ptype == 'max' else T.snot(is_max)
                out.prove('%s-selection-membership-of-%d' % (ptype, idx), T.seq(idx in sel, want) if not isinstance(want, bool) else (idx in sel) == want)


# ------------------------------------------------------------------------------------ unbounded helper contracts
from pyvc import spec as S
import z3


@unit('C11', 'clean_out_non_changing', functions=[PK + 'clean_out_non_changing'], cases=[dict(dtype='float'), dict(dtype='int')],
      modes=('unbounded',))
def clean_out(V, dtype):
    st = {}

    def setup():
        n = V.size('n', 1)
        x = V.array('x', n, dtype)
        st.update(n=n, x=x)
        return dict(values=x)
    for out in V.run(PK + 'clean_out_non_changing', setup):
        if not out.no_raise():
            continue
        out.side_conditions()
        n, x = st['n'], st['x']
        ok = isinstance(out.result, tuple) and len(out.result) == 2
        out.prove('returns-pair', ok)
        if not ok:
            continue
        cleaned, idx = out.result
        m = idx.shape[0]
        out.prove('same-length', T.seq(cleaned.shape[0], m))
        out.prove('at-least-one-kept', T.sge(m, 1))
        out.prove('first-kept-index-is-0', T.seq(idx[0], 0))
        for k in V.idx(0, m, 'k'):
            out.prove('kept-index-in-range', T.sand(T.sle(0, idx[k]), T.slt(idx[k], n)))
            out.prove('cleaned-value-is-value-at-kept-index', T.seq(cleaned[k], x[idx[k]]))
        for k in V.idx(1, m, 'k1'):
            out.prove('kept-indices-ascending', T.sle(idx[k - 1], idx[k]))
            out.prove('kept-indices-strictly-ascending-after-the-first', T.simplies(T.sge(k, 2), T.slt(idx[k - 1], idx[k])))
            out.prove('kept-index-marks-a-change', T.simplies(T.sge(idx[k], 1), T.sne(x[idx[k]], x[T.ssub(idx[k], 1)])))
        # completeness: every change point is kept (some position j of idx holds it)
        for i in V.idx(1, n, 'i'):
            # witness: the library's where-contract supplies the position; stated as non-existence of a gap
            j = V.skolem('j', 1, m)
            out.prove('no-change-point-strictly-between-adjacent-kept-indices',
                      T.simplies(T.sand(T.slt(idx[j - 1], i), T.slt(i, idx[j])), T.seq(x[i], x[i - 1])))
            out.prove('no-change-point-after-the-last-kept-index',
                      T.simplies(T.sgt(i, idx[T.ssub(m, 1)]), T.seq(x[i], x[i - 1])))
        out.unchanged('x', x)


@unit('C11', 'determine_indices_of_peaks_for_cleaned_array', functions=[PK + 'determine_indices_of_peaks_for_cleaned_array',
                                                                         PK + 'determine_indices_of_peaks_for_cleaned'],
      cases=[dict(fn='determine_indices_of_peaks_for_cleaned_array'), dict(fn='determine_indices_of_peaks_for_cleaned')],
      modes=('unbounded',), opts=dict(no_resolve=True))
def peaks_cleaned(V, fn):
    st = {}

    def setup():
        n = V.size('n', 1)
        c = V.array('c', n)
        st.update(n=n, c=c)
        return dict(values=c)
    for out in V.run(PK + fn, setup):
        if not out.no_raise():
            continue
        out.side_conditions()
        n, c = st['n'], st['c']
        p = out.result
        m = p.shape[0]
        d = lambda k: T.site(T.seq(k, 0), 0, T.ssub(c[k], c[k - 1]))          # successive differences, d(0) = 0
        turn = lambda k: T.slt(T.smul(d(T.sadd(k, 1)), d(k)), 0)               # direction switches at k
        out.prove('at-least-first-and-last', T.sge(m, 2))
        out.prove('first-is-0', T.seq(p[0], 0))
        out.prove('last-is-final-index', T.seq(p[T.ssub(m, 1)], T.ssub(n, 1)))
        for j in V.idx(1, T.ssub(m, 1), 'j'):
            out.prove('interior-entry-is-a-direction-switch', T.sand(T.sle(0, p[j]), T.slt(p[j], T.ssub(n, 1)), turn(p[j])))
            out.prove('interior-entries-strictly-ascending', T.simplies(T.sge(j, 2), T.slt(p[j - 1], p[j])))
        for k in V.idx(0, T.ssub(n, 1), 'k'):
            j = V.skolem('jj', 1, m)
            out.prove('no-direction-switch-strictly-between-adjacent-entries',
                      T.simplies(T.sand(T.slt(p[j - 1], k), T.slt(k, p[j]), T.sge(j, 2), T.slt(j, T.ssub(m, 1))), T.snot(turn(k))))
            out.prove('no-direction-switch-before-first-interior-entry',
                      T.simplies(T.sand(T.sgt(m, 2), T.slt(k, p[1])), T.snot(turn(k))))
            out.prove('no-direction-switch-after-last-interior-entry',
                      T.simplies(T.sand(T.sgt(m, 2), T.sgt(k, p[T.ssub(m, 2)])), T.snot(turn(k))))
            out.prove('no-direction-switch-at-all-when-only-ends-reported', T.simplies(T.seq(m, 2), T.snot(turn(k))))
        out.unchanged('c', c)


@unit('C11', 'get_n_cyc_array', functions=[PK + 'get_n_cyc_array'], cases=[dict(start='origin'), dict(start='peak')],
      modes=('bounded',), sizes=dict(n=[2, 3, 4]), thorough_sizes=dict(n=[2, 3, 4, 5, 6]))
def n_cyc(V, start):
    st = {}

    def setup():
        n = V.size('n', 2)
        x = V.array('x', n)
        nonconstant(V, x, n)
        st.update(n=n, x=x)
        return dict(values=x, opt='all', start=start)
    f = V.itp.get_function(PK + 'get_peak_array_indices')
    for out in V.run(PK + 'get_n_cyc_array', setup):
        if not out.no_raise():
            continue
        n, x = st['n'], st['x']
        r = out.result
        ok = hasattr(r, 'shape') and tuple(r.shape) == (n,)
        out.prove('length-is-series-length', ok)
        if not ok:
            continue
        p = concrete_indices(V.itp.call(f, [x], {}))
        sv = Q('-0.25') if start == 'origin' else Q(0)
        for j, idx in enumerate(p):
            out.prove('count-at-reported-peak-%d' % idx, T.seq(r[idx], T.sadd(Q(j, 2), sv if j >= 1 else 0)))
        for i in range(1, n):
            out.prove('non-decreasing[%d]' % i, T.sge(r[i], r[i - 1]))
        out.unchanged('x', x)


@unit('C11', 'get_n_cyc_array/bad-options', functions=[PK + 'get_n_cyc_array'], cases=[dict(opt='nope', start='origin'), dict(opt='all', start='nope')],
      modes=('bounded',), sizes=dict(n=[3]))
def n_cyc_bad(V, opt, start):
    def setup():
        n = V.size('n', 2)
        x = V.array('x', n)
        nonconstant(V, x, n)
        return dict(values=x, opt=opt, start=start)
    for out in V.run(PK + 'get_n_cyc_array', setup):
        out.prove('raises-ValueError', out.raised is not None and out.raised.kind == 'ValueError')

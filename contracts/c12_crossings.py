"""C12 -- zero crossings and per-half-cycle (switched) peaks are exact."""
import importlib.util
import os
import sys

from pyvc.api import unit, Skip
from pyvc import terms as T
from pyvc.terms import Q

PK = 'eqsig.fns.peaks_and_crossings.'


def concrete_indices(r):
    if not hasattr(r, 'shape') or len(r.shape) != 1:
        return None
    out = []
    for k in range(r.shape[0]):
        v = T.N(r[k])
        if not isinstance(v, int):
            return None
        out.append(v)
    return out


def crossing_member(x, i, keep_adj):
    """i belongs to the zero-crossing set of x (definition from the property statement)."""
    if i == 0:
        return True
    is_zero = T.seq(x[i], 0)
    first_of_run = True if keep_adj else T.sne(x[i - 1], 0)
    return T.sor(T.sand(is_zero, first_of_run), T.slt(T.smul(x[i], x[i - 1]), 0))


@unit('C12', 'get_zero_crossings_array_indices', functions=[PK + 'get_zero_crossings_array_indices'],
      cases=[dict(keep_adj=k, dtype=d) for k in (False, True) for d in ('float', 'int')],
      modes=('bounded',), sizes=dict(n=[1, 2, 3, 4]), thorough_sizes=dict(n=[1, 2, 3, 4, 5, 6]))
def zero_crossings(V, keep_adj, dtype):
    st = {}

    def setup():
        n = V.size('n', 1)
        x = V.array('x', n, dtype)
        st.update(n=n, x=x)
        return dict(values=x, keep_adj_zeros=keep_adj)
    for out in V.run(PK + 'get_zero_crossings_array_indices', setup):
        if not out.no_raise():
            continue
        n, x = st['n'], st['x']
        z = concrete_indices(out.result)
        out.prove('returns-index-array', z is not None)
        if z is None:
            continue
        out.prove('ascending-without-duplicates', all(a < b for a, b in zip(z, z[1:])) and all(0 <= a < n for a in z))
        for i in range(n):
            want = crossing_member(x, i, keep_adj)
            out.prove('membership-of-%d' % i, T.seq(i in z, want) if not isinstance(want, bool) else (i in z) == want)
        out.unchanged('x', x)


@unit('C12', 'get_zero_crossings_array_indices/tol', functions=[PK + 'get_zero_crossings_array_indices'],
      cases=[dict(keep_adj=k) for k in (False, True)], modes=('bounded',), sizes=dict(n=[2, 3, 4]), thorough_sizes=dict(n=[2, 3, 4, 5]))
def zero_crossings_tol(V, keep_adj):
    st = {}

    def setup():
        n = V.size('n', 1)
        x = V.array('x', n)
        tol = V.real('tol')
        V.assume(tol > 0)
        st.update(n=n, x=x)
        return dict(values=x, keep_adj_zeros=keep_adj, tol=tol)
    f = V.itp.get_function(PK + 'get_zero_crossings_array_indices')
    for out in V.run(PK + 'get_zero_crossings_array_indices', setup):
        if not out.no_raise():
            continue
        n, x = st['n'], st['x']
        z = concrete_indices(out.result)
        out.prove('returns-index-array', z is not None)
        if z is None:
            continue
        z0 = concrete_indices(V.itp.call(f, [x], dict(keep_adj_zeros=keep_adj)))
        out.prove('subsequence-of-zero-tolerance-result', all(a in z0 for a in z) and all(a < b for a, b in zip(z, z[1:])))


@unit('C12', 'get_zero_crossings_array_indices/negative-tol', functions=[PK + 'get_zero_crossings_array_indices'], modes=('bounded',), sizes=dict(n=[2]))
def zero_crossings_negtol(V):
    def setup():
        n = V.size('n', 1)
        tol = V.real('tol')
        V.assume(tol < 0)
        return dict(values=V.array('x', n), tol=tol)
    for out in V.run(PK + 'get_zero_crossings_array_indices', setup):
        out.prove('negative-tolerance-is-rejected', out.raised is not None)


def sgn(v):
    return T.ssign(v)


def switched_clauses(V, out, x, n, sp, tol_zero=True):
    out.prove('strictly-ascending', all(a < b for a, b in zip(sp, sp[1:])) and all(0 <= a < n for a in sp))
    # excursions: maximal runs [s, e] of samples sharing one strict sign
    for s in range(n):
        for e in range(s, n):
            same = T.sand(T.sne(sgn(x[s]), 0), *[T.seq(sgn(x[t]), sgn(x[s])) for t in range(s, e + 1)])
            left = True if s == 0 else T.sne(sgn(x[s - 1]), sgn(x[s]))
            right = True if e == n - 1 else T.sne(sgn(x[e + 1]), sgn(x[s]))
            is_exc = T.sand(same, left, right)
            if is_exc is False:
                continue
            inside = [r for r in sp if s <= r <= e]
            if len(inside) != 1:
                out.prove('excursion[%d,%d]-has-exactly-one-reported-peak' % (s, e), T.snot(is_exc))
            else:
                r = inside[0]
                out.prove('excursion[%d,%d]-peak-at-largest-magnitude' % (s, e),
                          T.simplies(is_exc, T.sand(*[T.sge(T.sabs(x[r]), T.sabs(x[t])) for t in range(s, e + 1)])))
    for a, b in zip(sp, sp[1:]):
        out.prove('consecutive-%d-%d-do-not-share-a-strict-sign' % (a, b), T.sor(T.sle(T.smul(x[a], x[b]), 0)))


@unit('C12', 'get_switched_peak_array_indices', functions=[PK + 'get_switched_peak_array_indices', PK + 'get_peak_array_indices'],
      cases=[dict(dtype='float'), dict(dtype='int')], modes=('bounded',), sizes=dict(n=[2, 3, 4]), thorough_sizes=dict(n=[2, 3, 4, 5, 6]))
def switched(V, dtype):
    st = {}

    def setup():
        n = V.size('n', 2)
        x = V.array('x', n, dtype)
        V.assume(T.sor(*[T.sne(x[k], x[k + 1]) for k in range(n - 1)]))
        st.update(n=n, x=x)
        return dict(values=x)
    fp = V.itp.get_function(PK + 'get_peak_array_indices')
    for out in V.run(PK + 'get_switched_peak_array_indices', setup):
        if not out.no_raise():
            continue
        n, x = st['n'], st['x']
        sp = concrete_indices(out.result)
        out.prove('returns-index-array', sp is not None)
        if sp is None:
            continue
        switched_clauses(V, out, x, n, sp)
        peaks = concrete_indices(V.itp.call(fp, [x], {}))
        out.prove('subset-of-local-peaks', all(a in peaks for a in sp))
        for a in sp:
            # any reported index that is not the peak of an excursion is a zero-valued turning point
            pass
        # global absolute maximum is always included
        gmax = None
        for t in range(n):
            gmax = T.sabs(x[t]) if gmax is None else T.smax2(gmax, T.sabs(x[t]))
        out.prove('global-absolute-maximum-included', T.sor(*[T.seq(T.sabs(x[a]), gmax) for a in sp]))
        out.unchanged('x', x)


# ------------------------------------------------------------------------------------ unbounded (tol = 0)
def member_sym(x, i, keep_adj):
    is_zero = T.seq(x[i], 0)
    prev = x[T.ssub(i, 1)]
    first_of_run = True if keep_adj else T.sne(prev, 0)
    return T.sor(T.seq(i, 0), T.sand(T.sge(i, 1), T.sor(T.sand(is_zero, first_of_run), T.slt(T.smul(x[i], prev), 0))))


@unit('C12', 'get_zero_crossings_array_indices/unbounded', functions=[PK + 'get_zero_crossings_array_indices'],
      cases=[dict(keep_adj=True), dict(keep_adj=False)], modes=('unbounded',), budget_ms=90000)
def zero_crossings_unbounded(V, keep_adj):
    st = {}

    def setup():
        n = V.size('n', 1)
        x = V.array('x', n)
        st.update(n=n, x=x)
        return dict(values=x, keep_adj_zeros=keep_adj)
    for out in V.run(PK + 'get_zero_crossings_array_indices', setup):
        if not out.no_raise():
            continue
        out.side_conditions()
        n, x = st['n'], st['x']
        z = out.result
        m = z.shape[0]
        out.prove('non-empty', T.sge(m, 1))
        out.prove('first-is-0', T.seq(z[0], 0))
        for k in V.idx(0, m, 'k'):
            out.prove('every-entry-in-range', T.sand(T.sle(0, z[k]), T.slt(z[k], n)))
            out.prove('every-entry-is-a-crossing', member_sym(x, z[k], keep_adj))
        for k in V.idx(1, m, 'k1'):
            # quantifier-free proof from hand-picked instances (no E-matching): sortedness at the two adjacent sorted positions,
            # the permutation axioms there (pre-images p, q, distinct because the inverse differs), strict ascent of every
            # where() result at (p, q) / (q, p), also shifted by the length of each where() result (the concatenation
            # boundary) and mapped through each where() function (the filtered zeros are take(where(..), where(..))), and
            # the membership axioms of where() at all of those positions
            cache = out.cx.cache
            singles, pairs = [], []
            for a, b in ((T.ssub(k, 1), k), (T.ssub(k, 2), T.ssub(k, 1))):
                singles += [a, b]
                pairs += [(a, b)]
                for sc in cache.get('sort-calls', []):
                    p_, q_ = T.N(sc['fwd'](T.to_int_term(a))), T.N(sc['fwd'](T.to_int_term(b)))
                    singles += [p_, q_]
                    pairs += [(p_, q_), (q_, p_)]
                    for wc in cache.get('where-calls', []):
                        ps, qs = T.ssub(p_, wc['m']), T.ssub(q_, wc['m'])
                        pw, qw = T.N(wc['w'](T.to_int_term(p_))), T.N(wc['w'](T.to_int_term(q_)))
                        singles += [ps, qs, pw, qw]
                        pairs += [(ps, qs), (qs, ps), (pw, qw), (qw, pw)]
            out.prove_qf('ascending-without-duplicates', T.slt(z[k - 1], z[k]), singles=singles, pairs=pairs)
        # completeness (every crossing is reported): the WITNESS position is built from the position functions of the where() calls, the
        # inverse permutation of the sort and the front insertion of 0; quantifier free from the instances the witness needs
        cache = out.cx.cache
        wcs, scs = cache.get('where-calls', []), cache.get('sort-calls', [])
        i = V.skolem('i_c', 0, n)
        I_ = lambda t: T.to_int_term(t)
        is_zero_hit = T.sand(T.sge(i, 1), T.seq(x[i], 0), True if keep_adj else T.sne(x[T.ssub(i, 1)], 0))
        is_change = T.sand(T.sge(i, 1), T.slt(T.smul(x[i], x[T.ssub(i, 1)]), 0))
        ok_struct = len(wcs) in (2, 3) and len(scs) <= 1
        out.prove('completeness/where-and-sort-calls-as-expected', ok_struct)
        if ok_struct:
            W1, W3 = wcs[0], wcs[-1]
            W2 = wcs[1] if len(wcs) == 3 else None
            p1 = T.N(W1['pos'](I_(i)))
            o_zero = T.N(W2['pos'](I_(p1))) if W2 is not None else p1
            nzero = W2['m'] if W2 is not None else W1['m']
            p3 = T.N(W3['pos'](I_(i)))
            o_thr = T.sadd(nzero, p3)
            base = [i, T.ssub(i, 1), p1, T.ssub(p1, 1), p3, o_zero, o_thr, 0, 1, nzero, T.ssub(nzero, 1)]
            if scs:
                L, bwd = scs[0]['n'], scs[0]['bwd']
                ins = T.ssub(m, L)                                  # 1 when a leading 0 was inserted, else 0
                for nm, o, cond in (('exact-zero', o_zero, is_zero_hit), ('sign-change', o_thr, is_change)):
                    sp_ = T.N(bwd(I_(o)))
                    k = T.sadd(sp_, ins)
                    singles = base + [o, sp_, k, T.ssub(k, 1), T.ssub(o, nzero)]
                    pairs = [(T.ssub(p1, 1), p1), (0, p1), (0, p3)]
                    out.prove_qf('completeness/every-%s-crossing-is-reported' % nm,
                                 T.simplies(cond, T.sand(T.sle(0, k), T.slt(k, m), T.seq(z[k], i))), singles=singles, pairs=pairs)
                    if os.environ.get('PYVC_CANARY'):
                        # vacuity guard (tools): the same instance set with the crossing condition assumed must NOT prove False
                        out.prove_qf('CANARY/%s' % nm, T.simplies(cond, False), singles=singles, pairs=pairs)
            else:
                # nothing found at all (the function returns [0]): then no sample other than 0 is a crossing
                out.prove_qf('completeness/no-crossing-exists-when-only-0-is-reported', T.snot(T.sor(is_zero_hit, is_change)), singles=base, pairs=[(0, p1), (0, p3)])
        out.unchanged('x', x)


@unit('C12', 'get_switched_peak_array_indices/tol', functions=[PK + 'get_switched_peak_array_indices'], modes=('bounded',),
      sizes=dict(n=[2, 3, 4]), thorough_sizes=dict(n=[2, 3, 4, 5]))
def switched_tol(V):
    st = {}

    def setup():
        n = V.size('n', 2)
        x = V.array('x', n)
        V.assume(T.sor(*[T.sne(x[k], x[k + 1]) for k in range(n - 1)]))
        tol = V.real('tol')
        V.assume(tol > 0)
        st.update(n=n, x=x)
        return dict(values=x, tol=tol)
    f = V.itp.get_function(PK + 'get_switched_peak_array_indices')
    for out in V.run(PK + 'get_switched_peak_array_indices', setup):
        if not out.no_raise():
            continue
        n, x = st['n'], st['x']
        sp = concrete_indices(out.result)
        out.prove('returns-index-array', sp is not None)
        if sp is None:
            continue
        out.prove('strictly-ascending-with-tolerance', all(a < b for a, b in zip(sp, sp[1:])))
        sp0 = concrete_indices(V.itp.call(f, [x], {}))
        # KNOWN FINDING K5 (known_findings.json): merging excursions under a tolerance can report the largest sample of a
        # merged group that is not a zero-tolerance switched peak
        out.prove('subsequence-of-zero-tolerance-switched-peaks', all(a in sp0 for a in sp))
        # the part of the clause that HOLDS on the unchanged code and is therefore not covered by K5: a tolerance that does not exceed the
        # peak of any half cycle cannot merge a half cycle away, so the reported indices must be zero-tolerance switched peaks
        small_tol = T.sand(*[T.sle(V.real('tol'), T.sabs(x[p_])) for p_ in sp0]) if sp0 else True
        out.replay_info = dict(module='switched_tol')
        out.prove('subsequence-when-the-tolerance-does-not-exceed-any-half-cycle-peak', T.simplies(small_tol, all(a in sp0 for a in sp)))

"""C13 -- peak-only series conserve total variation; equivalent-cycle measures."""
from pyvc.api import unit, Skip
from pyvc import terms as T
from pyvc.terms import Q

PK = 'eqsig.fns.peaks_and_crossings.'


def concrete_indices(r):
    out = []
    for k in range(r.shape[0]):
        v = T.N(r[k])
        if not isinstance(v, int):
            return None
        out.append(v)
    return out


def total(vals):
    t = 0
    for v in vals:
        t = T.sadd(t, v)
    return t


def _setup(V, st, dtype, container):
    def setup():
        n = V.size('n', 2)
        x = V.array('x', n, dtype)
        V.assume(T.sor(*[T.sne(x[k], x[k + 1]) for k in range(n - 1)]))
        st.update(n=n, x=x)
        arg = x if container == 'array' else [x[k] for k in range(n)]
        st['arg'] = arg
        return dict(values=arg)
    return setup


CASES = [dict(dtype='float', container='array'), dict(dtype='int', container='array'), dict(dtype='float', container='list')]


def common(V, out, st, fn):
    n, x = st['n'], st['x']
    r = out.result
    ok = hasattr(r, 'shape') and tuple(r.shape) == (n,)
    out.prove('length-is-series-length', ok)
    if not ok:
        return None
    fp = V.itp.get_function(PK + 'get_peak_array_indices')
    p = concrete_indices(V.itp.call(fp, [x], {}))
    for i in range(n):
        if i not in p:
            out.prove('zero-away-from-peaks[%d]' % i, T.seq(r[i], 0))
    # input not written (array container) / list container untouched
    if isinstance(st['arg'], list):
        out.prove('list-input-unchanged', all(a is b or T.seq(a, b) is True for a, b in zip(st['arg'], [x[k] for k in range(n)])))
    else:
        out.unchanged('x', x)
    # independent of a constant shift of the series
    c = V.real('shift') if x.dtype == 'float' else V.int('shift')
    shifted = V.op('+', x, c)
    r2 = V.itp.call(V.itp.get_function(PK + fn), [shifted], {})
    out.prove('independent-of-constant-shift', T.sand(*[T.seq(r[i], r2[i]) for i in range(n)]))
    return r, p


@unit('C13', 'determine_peaks_only_delta_series', functions=[PK + 'determine_peaks_only_delta_series', PK + 'determine_peak_only_delta_series_4_cleaned_data'],
      cases=CASES, modes=('bounded',), sizes=dict(n=[2, 3, 4]), thorough_sizes=dict(n=[2, 3, 4, 5]))
def delta_series(V, dtype, container):
    st = {}
    for out in V.run(PK + 'determine_peaks_only_delta_series', _setup(V, st, dtype, container)):
        if not out.no_raise():
            continue
        got = common(V, out, st, 'determine_peaks_only_delta_series')
        if got is None:
            continue
        r, p = got
        n, x = st['n'], st['x']
        tv = total([T.sabs(T.ssub(x[i + 1], x[i])) for i in range(n - 1)])
        out.prove('absolute-values-sum-to-total-variation', T.seq(total([T.sabs(r[i]) for i in range(n)]), tv))
        out.prove('signed-sum-has-magnitude-of-net-change', T.seq(T.sabs(total([r[i] for i in range(n)])), T.sabs(T.ssub(x[n - 1], x[0]))))


@unit('C13', 'determine_pseudo_cyclic_peak_only_series', functions=[PK + 'determine_pseudo_cyclic_peak_only_series', PK + '_determine_peak_only_series_4_cleaned_data'],
      cases=CASES, modes=('bounded',), sizes=dict(n=[2, 3, 4]), thorough_sizes=dict(n=[2, 3, 4, 5]))
def pseudo_cyclic(V, dtype, container):
    st = {}
    for out in V.run(PK + 'determine_pseudo_cyclic_peak_only_series', _setup(V, st, dtype, container)):
        if not out.no_raise():
            continue
        got = common(V, out, st, 'determine_pseudo_cyclic_peak_only_series')
        if got is None:
            continue
        r, p = got
        n, x = st['n'], st['x']
        tv = total([T.sabs(T.ssub(x[i + 1], x[i])) for i in range(n - 1)])
        last_move = T.ssign(T.ssub(x[p[-1]], x[p[-2]]))
        want = T.sadd(T.sdiv(tv, 2), T.smul(T.sdiv(T.ssub(x[n - 1], x[0]), 2), last_move))
        out.prove('sum-is-half-total-variation-plus-half-signed-offset', T.seq(total([r[i] for i in range(n)]), want))


# ------------------------------------------------------------------------------------ unbounded helper contracts
@unit('C13', 'determine_peak_only_delta_series_4_cleaned_data', functions=[PK + 'determine_peak_only_delta_series_4_cleaned_data'],
      modes=('unbounded',), budget_ms=60000)
def delta_cleaned(V):
    st = {}

    def setup():
        n = V.size('n', 2)
        c = V.array('c', n)
        st.update(n=n, c=c)
        return dict(values=c)
    fp = V.itp.get_function(PK + 'determine_indices_of_peaks_for_cleaned_array')
    for out in V.run(PK + 'determine_peak_only_delta_series_4_cleaned_data', setup):
        if not out.no_raise():
            continue
        out.side_conditions()
        n, c = st['n'], st['c']
        r = out.result
        p = V.itp.call(fp, [c], {})
        m = p.shape[0]
        out.prove('length-kept', T.seq(r.shape[0], n))
        out.prove('first-peak-carries-zero', T.seq(r[p[0]], 0))
        for j in V.idx(1, m, 'j'):
            out.prove('peak-entry-is-change-since-previous-peak', T.seq(r[p[j]], T.ssub(c[p[j]], c[p[j - 1]])), inst=[j, T.ssub(j, 1)])
        for i in V.idx(0, n, 'i'):
            j = V.skolem('jj', 1, m)
            out.prove('zero-strictly-between-adjacent-peaks', T.simplies(T.sand(T.slt(p[j - 1], i), T.slt(i, p[j])), T.seq(r[i], 0)), inst=[j, T.ssub(j, 1)])
        out.unchanged('c', c)


@unit('C13', '_determine_peak_only_series_4_cleaned_data', functions=[PK + '_determine_peak_only_series_4_cleaned_data'],
      modes=('unbounded',), budget_ms=60000)
def cyclic_cleaned(V):
    st = {}

    def setup():
        n = V.size('n', 2)
        c = V.array('c', n)
        st.update(n=n, c=c)
        return dict(values=c)
    fp = V.itp.get_function(PK + 'determine_indices_of_peaks_for_cleaned_array')
    for out in V.run(PK + '_determine_peak_only_series_4_cleaned_data', setup):
        if not out.no_raise():
            continue
        out.side_conditions()
        n, c = st['n'], st['c']
        r = out.result
        p = V.itp.call(fp, [c], {})
        m = p.shape[0]
        out.prove('length-kept', T.seq(r.shape[0], n))
        for j in V.idx(0, m, 'j'):
            # alternating sign convention: even-numbered peaks keep |value| unless the value is positive ... (from the code):
            # delta = -|v| if (-sign_j * v) < 0 else |v| with sign_j = +1 (even j), -1 (odd j)
            v = c[p[j]]
            sj = T.site(T.seq(T.smod(j, 2), 1), -1, 1)
            want = T.site(T.slt(T.smul(T.sneg(sj), v), 0), T.sneg(T.sabs(v)), T.sabs(v))
            out.prove('peak-entry-magnitude-is-peak-value-magnitude', T.seq(T.sabs(r[p[j]]), T.sabs(v)), inst=[j])
            out.prove('peak-entry-sign-rule', T.seq(r[p[j]], want), inst=[j])
        for i in V.idx(0, n, 'i'):
            j = V.skolem('jj', 1, m)
            out.prove('zero-strictly-between-adjacent-peaks', T.simplies(T.sand(T.slt(p[j - 1], i), T.slt(i, p[j])), T.seq(r[i], 0)), inst=[j, T.ssub(j, 1)])
        out.unchanged('c', c)


# ------------------------------------------------------------------------------------ power-law equivalent cycles
import z3
from pyvc.arrays import is_arr

IM = 'eqsig.im.'


def _pow_args(t):
    """(base, exponent) of a term pow(base, exponent) built by the engine, or None"""
    t = T.N(t)
    if T.is_z3(t) and z3.is_app(t) and t.decl().name() == 'pow' and t.num_args() == 2:
        return t.arg(0), t.arg(1)
    return None


def _pl_setup(V, st, dtype, n_arrays=1, need_nonzero=False):
    def setup():
        n = V.size('n', 2)
        xs = [V.array('x%d' % k if n_arrays > 1 else 'x', n, dtype) for k in range(n_arrays)]
        b = V.real('b')
        ncyc = V.real('n_cyc')
        V.assume(T.sgt(b, Q('0.05')), T.sle(b, 1), T.sgt(ncyc, 0))
        if need_nonzero:
            for x in xs:
                for i in range(n):
                    V.assume(T.sne(x[i], 0))
        st.update(n=n, xs=xs, x=xs[0], b=b, ncyc=ncyc)
        if n_arrays == 1:
            return dict(values=xs[0], n_cyc=ncyc, b=b)
        return dict(values0=xs[0], values1=xs[1], n_cyc=ncyc, b=b)
    return setup


def _peak_power_sums(V, x, n, b, ncyc):
    """spec: S[i] = sum over the switched peaks j <= i of |x[j]|**(1/b) / 2 / n_cyc  (the switched-peak set is the one the real
    get_switched_peak_array_indices reports for x: C12)"""
    fp = V.itp.get_function(PK + 'get_switched_peak_array_indices')
    p = concrete_indices(V.itp.call(fp, [x], {}))
    E = T.sdiv(Q(1), b)
    S, acc = [], Q(0)
    for i in range(n):
        term = T.spow(T.sabs(T.to_real(x[i])), E) if (p is not None and i in p) else T.spow(Q(0), E)
        acc = T.sadd(acc, T.sdiv(T.sdiv(term, 2), ncyc))
        S.append(acc)
    return p, S


@unit('C13', 'calc_cyc_amp_array_w_power_law', functions=[IM + 'calc_cyc_amp_array_w_power_law'], cases=[dict(dtype='float'), dict(dtype='int')],
      modes=('bounded',), sizes=dict(n=[2, 3]), thorough_sizes=dict(n=[2, 3, 4]), budget_ms=20000)
def cyc_amp(V, dtype):
    """equivalent uniform amplitude: length, defining formula (sum over the half-cycle peaks), non-decreasing"""
    st = {}
    for out in V.run(IM + 'calc_cyc_amp_array_w_power_law', _pl_setup(V, st, dtype)):
        out.replay_info = dict(module='power_law', fn='amp', dtype=dtype)
        if not out.no_raise():
            continue
        n, x, b, ncyc = st['n'], st['x'], st['b'], st['ncyc']
        r = out.result
        ok = is_arr(r) and tuple(r.shape) == (n,)
        out.prove('length-is-series-length', ok)
        if not ok:
            continue
        p, S = _peak_power_sums(V, x, n, b, ncyc)
        out.prove('switched-peaks-are-concrete-on-this-path', p is not None)
        for i in range(n):
            out.prove('amplitude-is-(sum-of-peak**(1/b)/(2 n_cyc))**b[%d]' % i, T.seq(r[i], T.spow(S[i], b)))
        # monotone: x -> x**b is non-decreasing on x >= 0 for b > 0 (instances of that law for the partial sums, A4)
        for i in range(1, n):
            out.assume(T.simplies(T.sand(T.sge(S[i - 1], 0), T.sle(S[i - 1], S[i])), T.sle(T.spow(S[i - 1], b), T.spow(S[i], b))))
            out.prove('non-decreasing[%d]' % i, T.sge(r[i], r[i - 1]))
        if dtype == 'float':
            out.unchanged('x', x)


@unit('C13', 'two-identical-components', functions=[IM + 'calc_cyc_amp_combined_arrays_w_power_law', IM + 'calc_cyc_amp_gm_arrays_w_power_law',
                                                    IM + 'calc_cyc_amp_array_w_power_law'],
      cases=[dict(fn='combined', dtype='float'), dict(fn='gm', dtype='float'), dict(fn='combined', dtype='int'), dict(fn='gm', dtype='int')],
      modes=('bounded',), sizes=dict(n=[2, 3]), thorough_sizes=dict(n=[2, 3, 4]), budget_ms=20000)
def two_components(V, fn, dtype):
    """two identical components give 2**b times (combined) / exactly (geometric mean) the single-component amplitude"""
    st = {}
    single = V.itp.get_function(IM + 'calc_cyc_amp_array_w_power_law')

    def setup():
        n = V.size('n', 2)
        x = V.array('x', n, dtype)
        b = V.real('b')
        ncyc = V.real('n_cyc')
        V.assume(T.sgt(b, Q('0.05')), T.sle(b, 1), T.sgt(ncyc, 0))
        st.update(n=n, x=x, b=b, ncyc=ncyc)
        return dict(values0=x, values1=x, n_cyc=ncyc, b=b)
    qn = IM + ('calc_cyc_amp_combined_arrays_w_power_law' if fn == 'combined' else 'calc_cyc_amp_gm_arrays_w_power_law')
    for out in V.run(qn, setup):
        out.replay_info = dict(module='power_law', fn=fn, dtype=dtype)
        if not out.no_raise():
            continue
        n, x, b, ncyc = st['n'], st['x'], st['b'], st['ncyc']
        r = out.result
        ok = is_arr(r) and tuple(r.shape) == (n,)
        out.prove('length-is-series-length', ok)
        if not ok:
            continue
        p, S = _peak_power_sums(V, x, n, b, ncyc)
        for i in range(n):
            one = T.spow(S[i], b)                       # the single-component amplitude by its defining formula (unit above)
            if fn == 'combined':
                # (2 S)**b = 2**b * S**b  (power of a product, A4)
                out.assume(T.simplies(T.sge(S[i], 0), T.seq(T.spow(T.smul(2, S[i]), b), T.smul(T.spow(Q(2), b), one))))
                out.prove('combined-of-two-identical-components-is-2**b-times-the-single-amplitude[%d]' % i, T.seq(r[i], T.smul(T.spow(Q(2), b), one)))
            else:
                out.prove('geometric-mean-of-two-identical-components-is-the-single-amplitude[%d]' % i, T.seq(r[i], one))


@unit('C13', 'calc_n_cyc_array_w_power_law', functions=[IM + 'calc_n_cyc_array_w_power_law'], cases=[dict(dtype='float'), dict(dtype='int')],
      modes=('bounded',), sizes=dict(n=[2, 3]), thorough_sizes=dict(n=[2, 3, 4]), budget_ms=20000)
def n_cyc_power_law(V, dtype):
    """equivalent number of cycles (cut_off = 0, records without exact zeros): length, defining running sum 0.5*(p_k/a_ref)**(1/b) over
    the half-cycle peaks reached so far, non-decreasing; and the INVERSE law: the amplitude computed for N = cycles(a_ref) is a_ref."""
    st = {}
    amp = V.itp.get_function(IM + 'calc_cyc_amp_array_w_power_law')

    def setup():
        n = V.size('n', 2)
        x = V.array('x', n, dtype)
        b = V.real('b')
        a_ref = V.real('a_ref')
        V.assume(T.sgt(b, Q('0.05')), T.sle(b, 1), T.sgt(a_ref, 0))
        for i in range(n):
            V.assume(T.sne(x[i], 0))
        st.update(n=n, x=x, b=b, a_ref=a_ref)
        return dict(values=x, a_ref=a_ref, b=b, cut_off=0)
    for out in V.run(IM + 'calc_n_cyc_array_w_power_law', setup):
        out.replay_info = dict(module='power_law', fn='cycles', dtype=dtype)
        if not out.no_raise():
            continue
        n, x, b, a_ref = st['n'], st['x'], st['b'], st['a_ref']
        r = out.result
        ok = is_arr(r) and tuple(r.shape)[:1] == (n,)
        out.prove('length-is-series-length', ok)
        if not ok:
            continue
        cell = (lambda i: r[i, 0]) if len(r.shape) == 2 else (lambda i: r[i])
        fp = V.itp.get_function(PK + 'get_switched_peak_array_indices')
        p = concrete_indices(V.itp.call(fp, [x], {}))
        out.prove('switched-peaks-are-concrete-on-this-path', p is not None)
        E = T.sdiv(Q(1), b)
        acc, C = Q(0), []
        for i in range(n):
            if i in p:
                acc = T.sadd(acc, T.sdiv(Q('1/2'), T.spow(T.sdiv(a_ref, T.sabs(T.to_real(x[i]))), E)))
            C.append(acc)
        for i in range(n):
            out.prove('cycles-are-the-running-sum-of-0.5/(a_ref/peak)**(1/b)[%d]' % i, T.seq(cell(i), C[i]))
        for i in range(1, n):
            out.prove('non-decreasing[%d]' % i, T.sge(cell(i), cell(i - 1)))
        if dtype == 'float':
            out.unchanged('x', x)
        # inverse law, from the two defining formulas: N = sum_k 0.5 (p_k/a_ref)^E ; amp = (sum_k p_k^E / (2N))^b = a_ref
        out.replay_info = dict(module='power_law', fn='inverse', dtype=dtype)
        N_ = cell(n - 1)
        try:
            back = V.itp.call(amp, [x], dict(n_cyc=N_, b=b))
        except T.PyExc as e:
            out.prove('inverse/no-exception[%s]' % e.kind, False)
            continue
        A = T.spow(a_ref, E)
        lem = [T.sgt(A, 0), T.seq(T.spow(A, b), a_ref)]                                   # (a_ref**(1/b))**b = a_ref  (A4)
        pk = [T.spow(T.sabs(T.to_real(x[i])), E) for i in p]
        for i, q in zip(p, pk):
            lem.append(T.sgt(q, 0))
            lem.append(T.seq(T.spow(T.sdiv(a_ref, T.sabs(T.to_real(x[i]))), E), T.sdiv(A, q)))   # (a/p)**E = a**E / p**E  (A4)
        for h in lem:
            out.assume(h)
        got = back[n - 1]
        pa = _pow_args(got)
        out.prove('inverse/amplitude-has-the-form-S**b', pa is not None)
        if pa is not None and len(p) <= 2:            # (three or more half cycles: the rational identity exceeds the solver budget; bound stated)
            out.prove('inverse/normalised-sum-equals-a_ref**(1/b)', T.seq(T.N(pa[0]), A))
            out.prove('inverse/amplitude-for-N=cycles(a_ref)-is-a_ref', T.seq(got, a_ref), extra_hyps=[T.seq(T.N(pa[0]), A)])

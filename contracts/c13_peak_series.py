"""C13 -- peak-only series conserve total variation; equivalent-cycle measures."""
from pyvc.api import unit, Skip
from pyvc import terms as T
from pyvc.terms import Q

PK = 'eqsig.fns.peaks_and_crossings.'


def concrete_indices(r):
    out = []
    for k in range(r.shape[0]):
        v = T.N(r[k])
        if not isinstance(v, int):
            return None
        out.append(v)
    return out


def total(vals):
    t = 0
    for v in vals:
        t = T.sadd(t, v)
    return t


def _setup(V, st, dtype, container):
    def setup():
        n = V.size('n', 2)
        x = V.array('x', n, dtype)
        V.assume(T.sor(*[T.sne(x[k], x[k + 1]) for k in range(n - 1)]))
        st.update(n=n, x=x)
        arg = x if container == 'array' else [x[k] for k in range(n)]
        st['arg'] = arg
        return dict(values=arg)
    return setup


CASES = [dict(dtype='float', container='array'), dict(dtype='int', container='array'), dict(dtype='float', container='list')]


def common(V, out, st, fn):
    n, x = st['n'], st['x']
    r = out.result
    ok = hasattr(r, 'shape') and tuple(r.shape) == (n,)
    out.prove('length-is-series-length', ok)
    if not ok:
        return None
    fp = V.itp.get_function(PK + 'get_peak_array_indices')
    p = concrete_indices(V.itp.call(fp, [x], {}))
    for i in range(n):
        if i not in p:
            out.prove('zero-away-from-peaks[%d]' % i, T.seq(r[i], 0))
    # input not written (array container) / list container untouched
    if isinstance(st['arg'], list):
        out.prove('list-input-unchanged', all(a is b or T.seq(a, b) is True for a, b in zip(st['arg'], [x[k] for k in range(n)])))
    else:
        out.unchanged('x', x)
    # independent of a constant shift of the series
    c = V.real('shift') if x.dtype == 'float' else V.int('shift')
    shifted = V.op('+', x, c)
    r2 = V.itp.call(V.itp.get_function(PK + fn), [shifted], {})
    out.prove('independent-of-constant-shift', T.sand(*[T.seq(r[i], r2[i]) for i in range(n)]))
    return r, p


@unit('C13', 'determine_peaks_only_delta_series', functions=[PK + 'determine_peaks_only_delta_series', PK + 'determine_peak_only_delta_series_4_cleaned_data'],
      cases=CASES, modes=('bounded',), sizes=dict(n=[2, 3, 4]), thorough_sizes=dict(n=[2, 3, 4, 5, 6]))
def delta_series(V, dtype, container):
    st = {}
    for out in V.run(PK + 'determine_peaks_only_delta_series', _setup(V, st, dtype, container)):
        if not out.no_raise():
            continue
        got = common(V, out, st, 'determine_peaks_only_delta_series')
        if got is None:
            continue
        r, p = got
        n, x = st['n'], st['x']
        tv = total([T.sabs(T.ssub(x[i + 1], x[i])) for i in range(n - 1)])
        out.prove('absolute-values-sum-to-total-variation', T.seq(total([T.sabs(r[i]) for i in range(n)]), tv))
        out.prove('signed-sum-has-magnitude-of-net-change', T.seq(T.sabs(total([r[i] for i in range(n)])), T.sabs(T.ssub(x[n - 1], x[0]))))


@unit('C13', 'determine_pseudo_cyclic_peak_only_series', functions=[PK + 'determine_pseudo_cyclic_peak_only_series', PK + '_determine_peak_only_series_4_cleaned_data'],
      cases=CASES, modes=('bounded',), sizes=dict(n=[2, 3, 4]), thorough_sizes=dict(n=[2, 3, 4, 5, 6]))
def pseudo_cyclic(V, dtype, container):
    st = {}
    for out in V.run(PK + 'determine_pseudo_cyclic_peak_only_series', _setup(V, st, dtype, container)):
        if not out.no_raise():
            continue
        got = common(V, out, st, 'determine_pseudo_cyclic_peak_only_series')
        if got is None:
            continue
        r, p = got
        n, x = st['n'], st['x']
        tv = total([T.sabs(T.ssub(x[i + 1], x[i])) for i in range(n - 1)])
        last_move = T.ssign(T.ssub(x[p[-1]], x[p[-2]]))
        want = T.sadd(T.sdiv(tv, 2), T.smul(T.sdiv(T.ssub(x[n - 1], x[0]), 2), last_move))
        out.prove('sum-is-half-total-variation-plus-half-signed-offset', T.seq(total([r[i] for i in range(n)]), want))


# ------------------------------------------------------------------------------------ unbounded helper contracts
@unit('C13', 'determine_peak_only_delta_series_4_cleaned_data', functions=[PK + 'determine_peak_only_delta_series_4_cleaned_data'],
      modes=('unbounded',), budget_ms=60000)
def delta_cleaned(V):
    st = {}

    def setup():
        n = V.size('n', 2)
        c = V.array('c', n)
        st.update(n=n, c=c)
        return dict(values=c)
    fp = V.itp.get_function(PK + 'determine_indices_of_peaks_for_cleaned_array')
    for out in V.run(PK + 'determine_peak_only_delta_series_4_cleaned_data', setup):
        if not out.no_raise():
            continue
        out.side_conditions()
        n, c = st['n'], st['c']
        r = out.result
        p = V.itp.call(fp, [c], {})
        m = p.shape[0]
        out.prove('length-kept', T.seq(r.shape[0], n))
        out.prove('first-peak-carries-zero', T.seq(r[p[0]], 0))
        for j in V.idx(1, m, 'j'):
            out.prove('peak-entry-is-change-since-previous-peak', T.seq(r[p[j]], T.ssub(c[p[j]], c[p[j - 1]])), inst=[j, T.ssub(j, 1)])
        for i in V.idx(0, n, 'i'):
            j = V.skolem('jj', 1, m)
            out.prove('zero-strictly-between-adjacent-peaks', T.simplies(T.sand(T.slt(p[j - 1], i), T.slt(i, p[j])), T.seq(r[i], 0)), inst=[j, T.ssub(j, 1)])
        out.unchanged('c', c)


@unit('C13', '_determine_peak_only_series_4_cleaned_data', functions=[PK + '_determine_peak_only_series_4_cleaned_data'],
      modes=('unbounded',), budget_ms=60000)
def cyclic_cleaned(V):
    st = {}

    def setup():
        n = V.size('n', 2)
        c = V.array('c', n)
        st.update(n=n, c=c)
        return dict(values=c)
    fp = V.itp.get_function(PK + 'determine_indices_of_peaks_for_cleaned_array')
    for out in V.run(PK + '_determine_peak_only_series_4_cleaned_data', setup):
        if not out.no_raise():
            continue
        out.side_conditions()
        n, c = st['n'], st['c']
        r = out.result
        p = V.itp.call(fp, [c], {})
        m = p.shape[0]
        out.prove('length-kept', T.seq(r.shape[0], n))
        for j in V.idx(0, m, 'j'):
            # alternating sign convention: even-numbered peaks keep |value| unless the value is positive ... (from the code):
            # delta = -|v| if (-sign_j * v) < 0 else |v| with sign_j = +1 (even j), -1 (odd j)
            v = c[p[j]]
            sj = T.site(T.seq(T.smod(j, 2), 1), -1, 1)
            want = T.site(T.slt(T.smul(T.sneg(sj), v), 0), T.sneg(T.sabs(v)), T.sabs(v))
            out.prove('peak-entry-magnitude-is-peak-value-magnitude', T.seq(T.sabs(r[p[j]]), T.sabs(v)), inst=[j])
            out.prove('peak-entry-sign-rule', T.seq(r[p[j]], want), inst=[j])
        for i in V.idx(0, n, 'i'):
            j = V.skolem('jj', 1, m)
            out.prove('zero-strictly-between-adjacent-peaks', T.simplies(T.sand(T.slt(p[j - 1], i), T.slt(i, p[j])), T.seq(r[i], 0)), inst=[j, T.ssub(j, 1)])
        out.unchanged('c', c)


# ------------------------------------------------------------------------------------ power-law equivalent cycles
IM = 'eqsig.im.'


@unit('C13', 'calc_cyc_amp_array_w_power_law', functions=[IM + 'calc_cyc_amp_array_w_power_law'], cases=[dict(bkind='scalar')],
      modes=('bounded',), sizes=dict(n=[2, 3]))
def cyc_amp(V, bkind):
    st = {}

    def setup():
        n = V.size('n', 2)
        x = V.array('x', n)
        b = V.real('b')
        ncyc = V.real('n_cyc')
        V.assume(T.sgt(b, Q('0.05')), T.sle(b, 1), T.sgt(ncyc, 0))
        st.update(n=n, x=x, b=b, ncyc=ncyc)
        return dict(values=x, n_cyc=ncyc, b=b)
    for out in V.run(IM + 'calc_cyc_amp_array_w_power_law', setup):
        if not out.no_raise():
            continue
        r = out.result
        out.prove('length', tuple(r.shape) == (st['n'],))

"""C14 -- resampling keeps the record: bounded step, retained samples."""
import z3

from pyvc.api import unit
from pyvc import terms as T
from pyvc import spec as S
from pyvc.terms import Q

FN = 'eqsig.fns.time_step.interp_array_to_approx_dt'


def _setup(V, st, even, regime):
    def setup():
        n = V.size('n', 2)
        x = V.array('x', n)
        dt, tgt = V.real('dt'), V.real('target_dt')
        V.assume(dt > 0, tgt > 0)
        # the three regimes of the factor rule are separate cases so that each path has a fixed integer/real typing
        if regime == 'refine':
            V.assume(dt > tgt)
        elif regime == 'equal':
            V.assume(dt == tgt)
        else:
            V.assume(dt < tgt)
        st.update(n=n, x=x, dt=dt, tgt=tgt)
        return dict(values=x, dt=dt, target_dt=tgt, even=even)
    return setup


@unit('C14', 'interp_array_to_approx_dt', functions=[FN],
      cases=[dict(even=e, regime=r) for e in (True, False) for r in ('refine', 'equal', 'decimate')], sizes=dict(n=[2, 3, 5]))
def interp_array(V, even, regime):
    st = {}
    for out in V.run(FN, _setup(V, st, even, regime)):
        if not out.no_raise():
            continue
        out.side_conditions()
        n, x, dt, tgt = st['n'], st['x'], st['dt'], st['tgt']
        ok = isinstance(out.result, tuple) and len(out.result) == 2
        out.prove('returns-pair', ok)
        if not ok:
            continue
        y, new_dt = out.result
        m_out = y.shape[0]
        out.prove('new-step-positive', T.sgt(new_dt, 0))
        out.prove('new-step-does-not-exceed-target', T.sle(new_dt, tgt))
        if regime == 'refine':
            f = T.sceil(T.sdiv(dt, tgt))                      # integer refinement factor
            out.prove('ratio-is-integer', T.seq(T.smul(new_dt, f), dt))
            full = T.smul(f, n)
            out.prove('length', T.seq(m_out, T.smul(2, T.sfloordiv(full, 2)) if even else full))
            for k in V.idx(0, n):
                out.prove('original-samples-retained', T.simplies(T.slt(T.smul(k, f), m_out), T.seq(y[T.smul(k, f)], x[k])),
                          budget_ms=20000)
        elif regime == 'equal':
            out.prove('ratio-is-one', T.seq(new_dt, dt))
            out.prove('length', T.seq(m_out, T.smul(2, T.sfloordiv(n, 2)) if even else n))
            for k in V.idx(0, m_out):
                out.prove('samples-unchanged', T.seq(y[k], x[k]))
        else:
            m = T.sfloor(T.sdiv(tgt, dt))                     # integer decimation factor
            out.prove('ratio-is-reciprocal-integer', T.seq(new_dt, T.smul(dt, m)))
            for k in V.idx(0, m_out):
                out.prove('output-is-subsequence', T.sand(T.slt(T.smul(k, m), n), T.seq(y[k], x[T.smul(k, m)])), budget_ms=20000)
            cnt = T.sceil(T.sdiv(n, m))                       # ceil(n/m) samples before the even rule
            out.prove('length', T.seq(m_out, T.smul(2, T.strunc(T.sdiv(T.sdiv(n, m), 2))) if even else cnt), budget_ms=20000)
        if even:
            out.prove('length-even', T.seq(T.smod(m_out, 2), 0))
        # values never leave the input range: every output lies between two input samples
        lo, hi = V.np.np_min(x), V.np.np_max(x)
        for k in V.idx(0, m_out):
            out.prove('within-input-range', T.sand(T.sle(lo, y[k]), T.sle(y[k], hi)), budget_ms=20000)
        out.unchanged('x', x)

"""C14 -- resampling keeps the record: bounded step, retained samples."""
import z3

from pyvc.api import unit
from pyvc import terms as T
from pyvc import spec as S
from pyvc.terms import Q

FN = 'eqsig.fns.time_step.interp_array_to_approx_dt'


def _setup(V, st, even, regime):
    def setup():
        n = V.size('n', 2)
        x = V.array('x', n)
        dt, tgt = V.real('dt'), V.real('target_dt')
        V.assume(dt > 0, tgt > 0)
        # the three regimes of the factor rule are separate cases so that each path has a fixed integer/real typing
        if regime == 'refine':
            V.assume(dt > tgt)
        elif regime == 'equal':
            V.assume(dt == tgt)
        else:
            V.assume(dt < tgt)
        st.update(n=n, x=x, dt=dt, tgt=tgt)
        return dict(values=x, dt=dt, target_dt=tgt, even=even)
    return setup


@unit('C14', 'interp_array_to_approx_dt', functions=[FN],
      cases=[dict(even=e, regime=r) for e in (True, False) for r in ('refine', 'equal', 'decimate')], sizes=dict(n=[2, 3, 5]))
def interp_array(V, even, regime):
    st = {}
    for out in V.run(FN, _setup(V, st, even, regime)):
        if not out.no_raise():
            continue
        out.side_conditions()
        n, x, dt, tgt = st['n'], st['x'], st['dt'], st['tgt']
        ok = isinstance(out.result, tuple) and len(out.result) == 2
        out.prove('returns-pair', ok)
        if not ok:
            continue
        y, new_dt = out.result
        m_out = y.shape[0]
        out.prove('new-step-positive', T.sgt(new_dt, 0))
        out.prove('new-step-does-not-exceed-target', T.sle(new_dt, tgt))
        if regime == 'refine':
            f = T.sceil(T.sdiv(dt, tgt))                      # integer refinement factor
            out.prove('ratio-is-integer', T.seq(T.smul(new_dt, f), dt))
            full = T.smul(f, n)
            out.prove('length', T.seq(m_out, T.smul(2, T.sfloordiv(full, 2)) if even else full))
            for k in V.idx(0, n):
                out.prove('original-samples-retained', T.simplies(T.slt(T.smul(k, f), m_out), T.seq(y[T.smul(k, f)], x[k])),
                          budget_ms=20000)
        elif regime == 'equal':
            out.prove('ratio-is-one', T.seq(new_dt, dt))
            out.prove('length', T.seq(m_out, T.smul(2, T.sfloordiv(n, 2)) if even else n))
            for k in V.idx(0, m_out):
                out.prove('samples-unchanged', T.seq(y[k], x[k]))
        else:
            m = T.sfloor(T.sdiv(tgt, dt))                     # integer decimation factor
            out.prove('ratio-is-reciprocal-integer', T.seq(new_dt, T.smul(dt, m)))
            for k in V.idx(0, m_out):
                out.prove('output-is-subsequence', T.sand(T.slt(T.smul(k, m), n), T.seq(y[k], x[T.smul(k, m)])), budget_ms=20000)
            cnt = T.sceil(T.sdiv(n, m))                       # ceil(n/m) samples before the even rule
            out.prove('length', T.seq(m_out, T.smul(2, T.strunc(T.sdiv(T.sdiv(n, m), 2))) if even else cnt), budget_ms=20000)
        if even:
            out.prove('length-even', T.seq(T.smod(m_out, 2), 0))
        # values never leave the input range: every output lies between two input samples
        lo, hi = V.np.np_min(x), V.np.np_max(x)
        for k in V.idx(0, m_out):
            out.prove('within-input-range', T.sand(T.sle(lo, y[k]), T.sle(y[k], hi)), budget_ms=20000)
        out.unchanged('x', x)


# ------------------------------------------------------------------------------------------------ object level
@unit('C14', 'interp_to_approx_dt', functions=['eqsig.fns.time_step.interp_to_approx_dt'],
      cases=[dict(even=e, regime=r) for e in (True, False) for r in ('refine', 'decimate')], modes=('unbounded',))
def interp_object(V, even, regime):
    st = {}

    def setup():
        import contracts_common_signal as CS
        CS.install_cache_summaries(V)
        n = V.size('n', 2)
        x = V.array('x', n, origin='param')
        dt, tgt = V.real('dt'), V.real('target_dt')
        V.assume(dt > 0, tgt > 0, dt > tgt if regime == 'refine' else dt < tgt)
        asig = S.make_signal(V, 'AccSignal', x, dt)
        st.update(n=n, x=x, dt=dt, tgt=tgt)
        return dict(asig=asig, target_dt=tgt, even=even)
    f_arr = V.itp.get_function(FN)
    for out in V.run('eqsig.fns.time_step.interp_to_approx_dt', setup):
        if not out.no_raise():
            continue
        r = out.result
        want_vals, want_dt = V.itp.call(f_arr, [st['x'], st['dt']], dict(target_dt=st['tgt'], even=even))
        out.prove('returns-an-AccSignal', getattr(getattr(r, 'cls', None), 'name', None) == 'AccSignal')
        import contracts_common_signal as CS
        out.prove('values-are-the-array-level-result', CS.values_equal(V, r.attrs['_values'], want_vals))
        out.prove('time-step-is-the-array-level-result', T.seq(r.attrs['_dt'], want_dt))
        out.unchanged('x', st['x'])


@unit('C14', 'resample_to_approx_dt', functions=['eqsig.fns.time_step.resample_to_approx_dt'],
      cases=[dict(even=e, regime=r) for e in (True, False) for r in ('refine', 'equal', 'decimate')], modes=('unbounded',))
def resample(V, even, regime):
    """Periodic (Fourier) resampling: the step rule, and -- what band-limited exactness under scipy.signal.resample's contract
    reduces to -- that the number of samples requested is EXACTLY factor * npts and an int."""
    st = {}

    def setup():
        import contracts_common_signal as CS
        CS.install_cache_summaries(V)
        n = V.size('n', 2)
        x = V.array('x', n, origin='param')
        dt, tgt = V.real('dt'), V.real('target_dt')
        V.assume(dt > 0, tgt > 0)
        V.assume(dt > tgt if regime == 'refine' else (dt == tgt if regime == 'equal' else dt < tgt))
        asig = S.make_signal(V, 'AccSignal', x, dt)
        st.update(n=n, x=x, dt=dt, tgt=tgt)
        return dict(asig=asig, target_dt=tgt, even=even)
    for out in V.run('eqsig.fns.time_step.resample_to_approx_dt', setup):
        out.replay_info = dict(module='resample', even=even, regime=regime)
        n, dt, tgt = st['n'], st['dt'], st['tgt']
        tag = 'even=%s,%s' % (even, regime)
        if out.raised is not None:
            # K3 (known finding): decimation / equal step with even=False hands a float sample count to scipy.signal.resample
            out.prove('sample-count-passed-to-scipy-is-an-int[%s]' % tag, False, kind='safety')
            continue
        r = out.result
        new_dt = r.attrs['_dt']
        out.prove('new-step-does-not-exceed-target', T.sle(new_dt, tgt))
        calls = [c for c in out.cx.cache.get('opaque-calls', []) if c[0] == 'resample']
        out.prove('one-resample-call', len(calls) == 1)
        if len(calls) != 1:
            continue
        xarg, num = calls[0][1][0], calls[0][1][1]
        # band-limited exactness is SciPy's contract for scipy.signal.resample(record, num): it applies only if the RECORD ITSELF (not a
        # filtered / windowed / truncated copy) is what is resampled, and the result is handed on unchanged
        from pyvc.arrays import is_arr
        okx = is_arr(xarg) and len(xarg.shape) == 1
        out.prove('the-record-itself-is-resampled/length', okx and T.seq(xarg.shape[0], n))
        if okx:
            for k in V.idx(0, n, 'kx'):
                out.prove('the-record-itself-is-resampled/values', T.seq(xarg[k], st['x'][k]))
            res = V.np.sp_resample(xarg, num)                    # the (hash-consed) result of that very call
            vals = r.attrs['_values']
            out.prove('returned-values-are-the-resampled-series/length', is_arr(vals) and T.seq(vals.shape[0], res.shape[0]))
            if is_arr(vals):
                for k in V.idx(0, res.shape[0], 'kr'):
                    out.prove('returned-values-are-the-resampled-series/values', T.seq(vals[k], res[k]))
        # K2 (known finding): with even=True the count is rounded down to an even number but the step still says dt/factor
        out.prove('sample-count-times-new-step-is-the-record-duration[%s]' % tag, T.seq(T.smul(num, new_dt), T.smul(n, dt)))
        if even:
            out.prove('length-even', T.seq(T.smod(num, 2), 0))
        out.unchanged('x', st['x'])


from pyvc.api import int_variant
int_variant('C14', 'interp_array_to_approx_dt', ['x'])
int_variant('C14', 'interp_to_approx_dt', ['x'])

"""C15 -- Stockwell transform: definition, Fourier marginal and exact inverse.

Bounded symbolic with EXACT small DFTs (N = 4, 8; twiddle factors 1, i, sqrt(1/2)): every time-frequency cell of every real
record of length 4, 5, 8, 9 is compared with the discrete S-transform written out from the property statement."""
import math

import z3

from pyvc.api import unit, Skip
from pyvc import terms as T
from pyvc import arrays as A
from pyvc import spec as S
from pyvc.terms import Q, Cx
from pyvc.arrays import is_arr
from pyvc.np_models2 import _twiddle

SW = 'eqsig.stockwell.'


def dft_exact(xs, N):
    out = []
    for k in range(N):
        acc = Cx(Q(0), Q(0))
        for t in range(min(N, len(xs))):
            acc = T.sadd(acc, T.smul(T.as_cx(xs[t]), _twiddle((k * t) % N, N, False)))
        out.append(acc)
    return out


def gauss(m, k):
    """frequency-domain Gaussian window exp(-2 pi^2 m^2 / k^2) (time-domain width 1/f)"""
    p = T.smul(T.smul(2, T.pi()), T.sdiv(Q(m), Q(k)))
    return T.sexp(T.sneg(T.sdiv(T.smul(p, p), 2)))


def s_transform_conj(xs, N):
    """rows rho = 0 .. N/2-1 for k = N/2 - rho (Nyquist first):  conj( (1/N) sum_m X[m+k] exp(-2 pi^2 m^2/k^2) e^{i 2 pi m t / N} )"""
    X = dft_exact(xs, N)
    rows = []
    for rho in range(N // 2):
        k = N // 2 - rho
        row = []
        for t in range(N):
            acc = Cx(Q(0), Q(0))
            for j in range(N):
                m = j if j <= N // 2 else j - N                    # signed frequency index
                term = T.smul(T.smul(X[(m + k) % N], gauss(m, k)), _twiddle((j * t) % N, N, True))
                acc = T.sadd(acc, term)
            acc = Cx(T.sdiv(acc.re, N), T.sdiv(acc.im, N))
            row.append(acc.conj())
        rows.append(row)
    return rows, X


def cx_eq(a, b):
    a, b = T.as_cx(a), T.as_cx(b)
    return T.sand(T.seq(a.re, b.re), T.seq(a.im, b.im))


@unit('C15', 'transform-is-the-conjugate-discrete-S-transform', functions=[SW + 'transform', SW + 'transform_w_scipy_fft', SW + 'generate_gaussian'],
      cases=[dict(fn='transform'), dict(fn='transform_w_scipy_fft')], modes=('bounded',), sizes=dict(n=[4, 5, 8]), thorough_sizes=dict(n=[4, 5, 8, 9]),
      budget_ms=120000)
def definition(V, fn):
    st = {}

    def setup():
        n = V.size('n', 4)
        x = V.array('x', n, origin='param')
        st.update(n=n, x=x)
        return dict(acc=x)
    other = V.itp.get_function(SW + ('transform_w_scipy_fft' if fn == 'transform' else 'transform'))
    for out in V.run(SW + fn, setup):
        out.replay_info = dict(module='stockwell')
        if not out.no_raise():
            continue
        n, x = st['n'], st['x']
        N = 2 * (n // 2)
        r = out.result
        ok = is_arr(r) and tuple(r.shape) == (N // 2, N)
        out.prove('shape-is-(n/2, n)-for-the-even-truncated-record', ok)
        if not ok:
            continue
        want, X = s_transform_conj([x[t] for t in range(N)], N)
        for rho in range(N // 2):
            out.prove('row-%d-is-conj(S-transform)-at-frequency-index-%d' % (rho, N // 2 - rho),
                      T.sand(*[cx_eq(r[rho, t], want[rho][t]) for t in range(N)]), atomize=True)
            # Fourier marginal: the row sums over time to the conjugate Fourier coefficient of that frequency
            tot = Cx(Q(0), Q(0))
            for t in range(N):
                tot = T.sadd(tot, T.as_cx(r[rho, t]))
            out.prove('row-%d-sums-to-the-conjugate-Fourier-coefficient' % rho, cx_eq(tot, X[N // 2 - rho].conj()), atomize=True)
        r2 = V.itp.call(other, [x], {})
        out.prove('both-implementations-agree', T.sand(*[cx_eq(r[rho, t], r2[rho, t]) for rho in range(N // 2) for t in range(N)]), atomize=True)
        out.unchanged('x', x)


@unit('C15', 'linear', functions=[SW + 'transform'], modes=('bounded',), sizes=dict(n=[4, 5]), budget_ms=60000)
def linear(V):
    st = {}

    def setup():
        n = V.size('n', 4)
        x, y = V.array('x', n, origin='param'), V.array('y', n, origin='param')
        st.update(n=n, x=x, y=y)
        return dict(acc=x)
    f = V.itp.get_function(SW + 'transform')
    for out in V.run(SW + 'transform', setup):
        out.replay_info = dict(module='stockwell')
        if not out.no_raise():
            continue
        n, x, y = st['n'], st['x'], st['y']
        N = 2 * (n // 2)
        al, be = V.real('alpha'), V.real('beta')
        rx = out.result
        ry = V.itp.call(f, [y], {})
        rz = V.itp.call(f, [V.op('+', V.op('*', x, al), V.op('*', y, be))], {})
        for rho in range(N // 2):
            out.prove('transform(alpha*x+beta*y)-row-%d' % rho,
                      T.sand(*[cx_eq(rz[rho, t], T.sadd(T.smul(T.as_cx(rx[rho, t]), al), T.smul(T.as_cx(ry[rho, t]), be))) for t in range(N)]), atomize=True)


@unit('C15', 'itransform-recovers-record-minus-mean-and-Nyquist', functions=[SW + 'itransform', SW + 'transform'], modes=('bounded',),
      sizes=dict(n=[4, 8]), budget_ms=120000)
def inverse(V):
    st = {}

    def setup():
        n = V.size('n', 4)
        x = V.array('x', n, origin='param')
        st.update(n=n, x=x)
        return dict(acc=x)

    def op(itp, acc):
        stock = itp.call(itp.get_function(SW + 'transform'), [acc], {})
        return itp.call(itp.get_function(SW + 'itransform'), [stock], {})
    for out in V.run(op, setup):
        out.replay_info = dict(module='stockwell')
        if not out.no_raise():
            continue
        n, x = st['n'], st['x']
        r = out.result
        ok = is_arr(r) and tuple(r.shape) == (n,)
        out.prove('inverse-has-the-record-length', ok)
        if not ok:
            continue
        mean = T.sdiv(sum_list([x[k] for k in range(n)]), n)
        nyq = T.sdiv(sum_list([T.smul(x[k], 1 if k % 2 == 0 else -1) for k in range(n)]), n)
        for k in range(n):
            want = T.ssub(T.ssub(x[k], mean), T.smul(nyq, 1 if k % 2 == 0 else -1))
            out.prove('sample-%d-recovered' % k, T.seq(r[k], want), atomize=True)


def sum_list(xs):
    t = 0
    for v in xs:
        t = T.sadd(t, v)
    return t


@unit('C15', 'dominant-frequency-axis', functions=[SW + 'get_max_tifq_vals_freq', SW + 'get_max_stockwell_freq'],
      cases=[dict(fn='tifq'), dict(fn='asig')], modes=('bounded',), sizes=dict(rows=[2, 3]), budget_ms=30000)
def freq_axis(V, fn):
    """For ANY complex time-frequency array with `rows` frequency rows (Nyquist first) the reported frequency in a time column is
    k/(N dt) of a row of largest modulus there (N = 2*rows)."""
    st = {}

    def setup():
        rows = V.size('rows', 2)
        cols = 2
        Sx = V.array('S', (rows, cols), 'complex', origin='param')
        dt = V.real('dt')
        V.assume(dt > 0)
        st.update(rows=rows, cols=cols, S=Sx, dt=dt)
        if fn == 'tifq':
            return dict(tifq_values=Sx, dt=dt)
        sig = V.obj('eqsig.single.AccSignal', swtf=Sx, _values=V.array('x', 2), _npts=2, _dt=dt)
        return dict(asig=sig)
    name = SW + ('get_max_tifq_vals_freq' if fn == 'tifq' else 'get_max_stockwell_freq')
    for out in V.run(name, setup):
        out.replay_info = dict(module='stockwell')
        if not out.no_raise():
            continue
        rows, cols, Sx, dt = st['rows'], st['cols'], st['S'], st['dt']
        r = out.result
        ok = is_arr(r) and tuple(r.shape) == (cols,)
        out.prove('one-frequency-per-time-column', ok)
        if not ok:
            continue
        ab2 = lambda c: T.sadd(T.smul(T.as_cx(c).re, T.as_cx(c).re), T.smul(T.as_cx(c).im, T.as_cx(c).im))
        for t in range(cols):
            goals = []
            for rho in range(rows):
                k = rows - rho
                fk = T.sdiv(k, T.smul(2 * rows, dt))
                goals.append(T.sand(T.seq(r[t], fk), *[T.sge(ab2(Sx[rho, t]), ab2(Sx[q, t])) for q in range(rows)]))
            out.prove('column-%d-reports-k/(N*dt)-of-a-largest-modulus-row' % t, T.sor(*goals), atomize=True)


# ------------------------------------------------------------------------------------------------------ unbounded pieces
@unit('C15', 'generate_gaussian (unbounded)', functions=[SW + 'generate_gaussian'], cases=[dict(half='non-negative'), dict(half='negative')], modes=('unbounded',),
      budget_ms=60000)
def gaussian_window(V, half):
    st = {}

    def setup():
        nd2 = V.size('n_d2', 1)
        st.update(nd2=nd2)
        return dict(n_d2=nd2)
    for out in V.run(SW + 'generate_gaussian', setup):
        if not out.no_raise():
            continue
        out.side_conditions(skip=('nonzero-divisor',))
        nd2 = st['nd2']
        G = out.result
        out.prove('shape-is-(n/2, n)', T.sand(len(G.shape) == 2, T.seq(G.shape[0], nd2), T.seq(G.shape[1], T.smul(2, nd2))))
        k = V.skolem('k', 1, T.sadd(nd2, 1))                       # frequency index of row k-1
        if half == 'non-negative':
            j = V.skolem('j', 0, T.sadd(nd2, 1))
            m = j
        else:
            j = V.skolem('j', T.sadd(nd2, 1), T.smul(2, nd2))
            m = T.ssub(j, T.smul(2, nd2))                            # signed index of the upper half of the bins
        g = G[T.ssub(k, 1), j]
        is_exp = T.is_z3(g) and z3.is_app(g) and g.decl().name() == 'exp'
        out.prove('entry-is-an-exponential', bool(is_exp))
        if is_exp:
            p2 = T.smul(T.smul(T.pi(), T.pi()), 2)
            want = T.sneg(T.sdiv(T.smul(p2, T.smul(m, m)), T.smul(k, k)))
            out.prove('exponent-is -2 pi^2 m^2 / k^2  (window of width 1/f)', T.seq(g.arg(0), want))


@unit('C15', 'dominant-frequency-axis (unbounded)', functions=[SW + 'get_max_tifq_vals_freq'], modes=('unbounded',), budget_ms=30000)
def freq_axis_unbounded(V):
    st = {}

    def setup():
        rows, cols = V.size('rows', 1), V.size('cols', 1)
        Sx = V.array('S', (rows, cols), 'float', origin='param')     # (modulus taken by the function; a real array suffices for the axis)
        dt = V.real('dt')
        V.assume(dt > 0)
        st.update(rows=rows, cols=cols, S=Sx, dt=dt)
        return dict(tifq_values=Sx, dt=dt)
    for out in V.run(SW + 'get_max_tifq_vals_freq', setup):
        out.replay_info = dict(module='stockwell')
        if not out.no_raise():
            continue
        out.side_conditions()
        rows, cols, Sx, dt = st['rows'], st['cols'], st['S'], st['dt']
        r = out.result
        out.prove('one-frequency-per-time-column', T.sand(len(r.shape) == 1, T.seq(r.shape[0], cols)))
        w = V.np.np_argmax(V.np.np_abs(Sx), axis=0)
        for t in V.idx(0, cols, 't'):
            out.prove('reported-frequency-is-(rows - argmax)/(2 rows dt), i.e. k/(N dt) with the Nyquist row first',
                      T.seq(r[t], T.sdiv(T.ssub(rows, w[t]), T.smul(T.smul(2, rows), dt))))
        out.unchanged('S', Sx)


from pyvc.api import int_variant
int_variant('C15', 'transform-is-the-conjugate-discrete-S-transform', ['x'])


@unit('C15', 'both-implementations-agree (any length)', functions=[SW + 'transform', SW + 'transform_w_scipy_fft'],
      cases=[dict(parity='even'), dict(parity='odd')], modes=('unbounded',), budget_ms=30000, opts=dict(histories=()))
def agree_unbounded(V, parity):
    """For a record of ANY length (even / odd): transform and transform_w_scipy_fft return arrays of the same shape (n//2, 2*(n//2)) whose
    every cell is equal -- both are the flipped row-wise inverse DFT (one uninterpreted kernel) of the SAME product of the Toeplitz
    matrix of the record's DFT with the Gaussian window.  (What that common value is: bounded units above, exact DFT sizes.)"""
    st = {}

    def setup():
        h = V.size('h', 2)
        n = T.sadd(T.smul(2, h), 0 if parity == 'even' else 1)
        x = V.array('x', n, origin='param')
        st.update(h=h, n=n, x=x)
        return dict(acc=x)
    other = V.itp.get_function(SW + 'transform')
    for out in V.run(SW + 'transform_w_scipy_fft', setup):
        if not out.no_raise():
            continue
        h, x = st['h'], st['x']
        a = out.result
        try:
            b = V.itp.call(other, [x], {})
        except T.PyExc as e:
            out.prove('transform-no-exception[%s]' % e.kind, False)
            continue
        ok = is_arr(a) and is_arr(b) and len(a.shape) == 2 and len(b.shape) == 2
        out.prove('both-return-2-d-arrays', ok)
        if not ok:
            continue
        out.prove('shape-is-(n/2, n)-for-the-even-truncated-record', T.sand(T.seq(a.shape[0], h), T.seq(a.shape[1], T.smul(2, h)),
                                                                           T.seq(b.shape[0], h), T.seq(b.shape[1], T.smul(2, h))))
        for r in V.idx(0, h, 'r'):
            for c in V.idx(0, T.smul(2, h), 'c'):
                out.prove('every-cell-agrees', cx_eq(a[r, c], b[r, c]))
        out.unchanged('x', x)


@unit('C15', 'both-implementations-agree (n = 258: 129 rows)', functions=[SW + 'transform', SW + 'transform_w_scipy_fft'], modes=('bounded',), sizes=dict(n=[258]),
      budget_ms=30000, opts=dict(histories=()), tier='thorough')
def agree_258(V):
    """A concrete length with n/2 = 129 = 128 + 1 rows (block-wise implementations with a block of 2**k rows leave a remainder of one row):
    with the DFT kernels uninterpreted, both implementations must still return cell-wise equal arrays of shape (129, 258)."""
    st = {}

    def setup():
        n = V.size('n', 4)
        x = V.array('x', n, origin='param')
        st.update(n=n, x=x)
        return dict(acc=x)
    other = V.itp.get_function(SW + 'transform')
    for out in V.run(SW + 'transform_w_scipy_fft', setup):
        out.replay_info = dict(module='stockwell')
        if not out.no_raise():
            continue
        n, x = st['n'], st['x']
        a = out.result
        b = V.itp.call(other, [x], {})
        ok = is_arr(a) and is_arr(b) and tuple(a.shape) == (n // 2, 2 * (n // 2)) and tuple(b.shape) == tuple(a.shape)
        out.prove('shape-is-(n/2, n)', ok)
        if not ok:
            continue
        for r in (0, 1, n // 4, n // 2 - 2, n // 2 - 1):
            out.prove('row-%d-agrees' % r, all(cx_eq(a[r, c], b[r, c]) is True for c in range(0, 2 * (n // 2), 7)) or
                      T.sand(*[cx_eq(a[r, c], b[r, c]) for c in range(0, 2 * (n // 2), 7)]))

"""C16 -- saved signals load back unchanged (to the format's precision).

Text is handled in a small decimal-text domain (pyvc/text.py): numeric fields stay symbolic, the structure of the text is
concrete; open/write/read and np.genfromtxt (incl. its name sanitiser) are ASSUMED library contracts (A2)."""
import z3

from pyvc.api import unit, Skip
from pyvc import terms as T
from pyvc import spec as S
from pyvc.terms import Q
from pyvc.arrays import is_arr

LD = 'eqsig.loader.'
PATH = 'virtual/motion.txt'


def _save(V, st, n, label='a label with spaces', dt_range=('1/10000', '100')):
    x = V.array('x', n, origin='param')
    dt = V.real('dt')
    V.assume(dt >= Q(dt_range[0]), dt <= Q(dt_range[1]))
    for k in range(n):
        V.assume(T.sand(T.sge(x[k], -1000000), T.sle(x[k], 1000000)))
    st.update(x=x, dt=dt, n=n, label=label)
    return x, dt


@unit('C16', 'save-then-load', functions=[LD + 'save_values_and_dt', LD + 'save_signal', LD + 'load_values_and_dt', LD + 'load_signal', LD + 'load_sig', LD + 'load_asig'],
      cases=[dict(entry=e, saver=s, label='words') for e in ('load_values_and_dt', 'load_signal/signal', 'load_signal/acc_sig', 'load_sig', 'load_sig/m', 'load_asig', 'load_asig/m')
             for s in ('save_values_and_dt',)] +
            [dict(entry='load_asig/label', saver=s, label=l) for s in ('save_values_and_dt', 'save_signal') for l in ('words', 'blank-edges', 'empty', 'any-text')],
      modes=('bounded',), sizes=dict(n=[1, 2, 3]), budget_ms=30000)
def save_load(V, entry, saver, label):
    """label='any-text': an ARBITRARY one-line label (text domain piece Txt: no line-boundary characters, otherwise unconstrained)"""
    st = {}
    LABELS = {'words': 'a label with spaces', 'blank-edges': '  station 12 ', 'empty': ''}

    def setup():
        from pyvc import text as TX
        n = V.size('n', 1)
        _save(V, st, n, label=LABELS[label] if label in LABELS else TX.SymStr([TX.Txt('label')]))
        return ((), {})

    def op(itp, *a):
        x, dt, label = st['x'], st['dt'], st['label']
        if saver == 'save_values_and_dt':
            itp.call(itp.get_function(LD + 'save_values_and_dt'), [PATH, x, dt, label], {})
        else:
            sig = S.make_signal(V, 'AccSignal', x, dt, label=label)
            itp.call(itp.get_function(LD + 'save_signal'), [PATH, sig], {})
        m = V.real('m')
        st['m'] = m
        if entry == 'load_values_and_dt':
            return itp.call(itp.get_function(LD + 'load_values_and_dt'), [PATH], {})
        if entry.startswith('load_signal'):
            return itp.call(itp.get_function(LD + 'load_signal'), [PATH], dict(astype='signal' if entry.endswith('/signal') else 'acc_sig'))
        if entry.startswith('load_sig'):
            return itp.call(itp.get_function(LD + 'load_sig'), [PATH], dict(m=m) if entry.endswith('/m') else {})
        kw = {}
        if entry.endswith('/label'):
            kw['load_label'] = True
        if entry.endswith('/m'):
            kw['m'] = m
        return itp.call(itp.get_function(LD + 'load_asig'), [PATH], kw)
    for out in V.run(op, setup):
        out.replay_info = dict(module='loader', entry=entry, saver=saver, label=LABELS.get(label))
        if not out.no_raise():
            continue
        x, dt, n, label, m = st['x'], st['dt'], st['n'], st['label'], st['m']
        r = out.result
        if entry == 'load_values_and_dt':
            ok = isinstance(r, tuple) and len(r) == 2
            out.prove('returns-(values, dt)', ok)
            if not ok:
                continue
            vals, ldt, scale = r[0], r[1], 1
        else:
            want_cls = 'Signal' if entry in ('load_signal/signal', 'load_sig', 'load_sig/m') else 'AccSignal'
            out.prove('requested-object-type-is-returned', getattr(getattr(r, 'cls', None), 'name', None) == want_cls)
            if getattr(r, 'cls', None) is None:
                continue
            vals, ldt = r.attrs['_values'], r.attrs['_dt']
            scale = m if entry.endswith('/m') else 1
            if entry.endswith('/label'):
                out.prove('label-is-restored', r.attrs.get('label') == label)
        out.prove('same-number-of-points', is_arr(vals) and tuple(vals.shape) == (n,))
        out.prove('time-step-equal-to-4-decimals', T.sle(T.sabs(T.ssub(ldt, dt)), Q('0.00005')))
        if is_arr(vals) and tuple(vals.shape) == (n,):
            for k in range(n):
                out.prove('value-%d-equal-to-6-decimals-(scaled-by-m)' % k, T.sle(T.sabs(T.ssub(vals[k], T.smul(x[k], scale))), T.smul(Q('0.0000005'), T.sabs(scale))))


@unit('C16', 'header-line-round-trip (all npts, all dt)', functions=[LD + 'save_values_and_dt', LD + 'load_values_and_dt'], modes=('unbounded',))
def header_round_trip(V):
    """Loop-free and fully symbolic in (npts, dt): the header expression is taken from the REAL source of save_values_and_dt
    (the element of `para` that formats len(values) and dt) and evaluated for a record of symbolic length; the real
    load_values_and_dt then parses a file with that header (two symbolic value lines follow it)."""
    import ast as _ast
    st = {}

    def setup():
        n = V.size('n', 1)
        x = V.array('x', n, origin='param')
        dt = V.real('dt')
        V.assume(dt >= Q('1/10000'), dt <= 100)
        a, b = V.real('v0'), V.real('v1')
        V.assume(a >= -1000000, a <= 1000000, b >= -1000000, b <= 1000000)
        st.update(n=n, dt=dt, a=a, b=b, x=x)
        return ((), {})

    def op(itp, *args):
        from pyvc.interp import Frame
        from pyvc import text as TX
        f = itp.get_function(LD + 'save_values_and_dt')
        para_assign = next(s_ for s_ in f.node.body if isinstance(s_, _ast.Assign) and isinstance(s_.targets[0], _ast.Name) and s_.targets[0].id == 'para')
        fr = Frame(f, dict(values=st['x'], dt=st['dt'], label='some label', ffp=PATH))
        para = itp.ev(para_assign.value, fr)                      # [label, "<npts> <dt>"] exactly as the saver builds it
        value_fmt = next(n_ for n_ in _ast.walk(f.node) if isinstance(n_, _ast.BinOp) and isinstance(n_.op, _ast.Mod) and isinstance(n_.left, _ast.Constant)
                         and isinstance(n_.left.value, str) and '%' in n_.left.value and n_.left.value != para_assign.value.elts[1].left.value)
        lines = list(para) + [itp.lib.binop(_ast.Mod, value_fmt.left.value, st['a']), itp.lib.binop(_ast.Mod, value_fmt.left.value, st['b'])]
        T.ctx().cache.setdefault('vfs', {})[PATH] = TX.join('\n', lines)
        return itp.call(itp.get_function(LD + 'load_values_and_dt'), [PATH], {})
    for out in V.run(op, setup):
        out.replay_info = dict(module='loader', entry='load_values_and_dt')
        if not out.no_raise():
            continue
        vals, ldt = out.result
        out.prove('time-step-equal-to-4-decimals-for-every-npts-and-dt', T.sle(T.sabs(T.ssub(ldt, st['dt'])), Q('0.00005')))
        out.prove('value-lines-parsed-to-6-decimals', T.sand(tuple(vals.shape) == (2,), T.sle(T.sabs(T.ssub(vals[0], st['a'])), Q('0.0000005')),
                                                             T.sle(T.sabs(T.ssub(vals[1], st['b'])), Q('0.0000005'))))

"""C17 -- Butterworth filtering structure, exact polynomial detrending, element-wise addition, running average."""
import z3

from pyvc.api import unit, Skip
from pyvc import terms as T
from pyvc import spec as S
from pyvc.terms import Q
from pyvc.arrays import is_arr

import contracts_common_signal as CS

S_ = 'eqsig.single.'


def _obj(V, cls, n_name='n', lo=2, dtype='float'):
    n = V.size(n_name, lo)
    a = V.array('a', n, dtype, origin='param')
    dt = V.real('dt')
    V.assume(dt > 0)
    o = S.make_signal(V, cls, a, dt)
    return o, a, n, dt


# --------------------------------------------------------------------------------------------------- butter_pass
CUTS = {
    'band-tuple': lambda V: ((V.real('f_lo'), V.real('f_hi')), 'band'),
    'band-list': lambda V: ([V.real('f_lo'), V.real('f_hi')], 'band'),
    'band-ndarray': lambda V: (V.np.np_array([V.real('f_lo'), V.real('f_hi')]), 'band'),
    'low': lambda V: ((None, V.real('f_hi')), 'low'),
    'high': lambda V: ((V.real('f_lo'), None), 'high'),
}


@unit('C17', 'butter_pass', functions=[S_ + 'Signal.butter_pass'],
      cases=[dict(cut=c, gibbs=g, cls=k) for c in CUTS for g in (None, 'start', 'end', 'mid') for k in ('AccSignal',)] +
            [dict(cut='band-tuple', gibbs=None, cls='Signal'), dict(cut='low', gibbs='mid', cls='Signal')],
      modes=('unbounded',), budget_ms=20000)
def butter_pass(V, cut, gibbs, cls):
    st = {}

    def setup():
        CS.install_cache_summaries(V)
        o, a, n, dt = _obj(V, cls, lo=2)
        V.assume(n >= 60)                  # the record must be longer than filtfilt's edge padding (scipy precondition)
        cut_off, ftype = CUTS[cut](V)
        order = V.int('order')
        V.assume(order >= 1, order <= 4)
        st.update(o=o, a=a, n=n, dt=dt, cut_off=cut_off, ftype=ftype)
        kw = dict(filter_order=3)
        if gibbs is not None:
            kw.update(remove_gibbs=gibbs, gibbs_extra=1, gibbs_range=50)
        return ((o,), dict(cut_off=cut_off, **kw))
    for out in V.run(S_ + 'Signal.butter_pass', setup):
        out.replay_info = dict(module='filter', cls=cls, cut=cut, gibbs=gibbs)
        if not out.no_raise():
            continue
        out.side_conditions(skip=('nonzero-divisor', 'mean-of-nonempty'))
        o, a, n, dt, ftype = st['o'], st['a'], st['n'], st['dt'], st['ftype']
        vals = o.attrs['_values']
        # frame: the caller's cut-off container still holds the requested cut-offs (it is routinely reused for the next record)
        co = st['cut_off']
        want_co = {'band': ('f_lo', 'f_hi'), 'low': (None, 'f_hi'), 'high': ('f_lo', None)}[ftype]
        ok_co = (is_arr(co) and tuple(co.shape) == (2,)) or (isinstance(co, (list, tuple)) and len(co) == 2)
        out.prove('cut-off-container-not-modified', ok_co and T.sand(*[(co[i] is None) if w is None else T.seq(co[i], V.real(w)) for i, w in enumerate(want_co)]))
        out.prove('length-preserved', T.sand(T.seq(vals.shape[0], n), T.seq(o.attrs['_npts'], n)))
        out.prove('time-step-preserved', T.seq(o.attrs['_dt'], dt))
        # specification of the SciPy calls: exactly one butter() and one filtfilt() call; filter type from the None pattern,
        # cut-off normalised by the Nyquist frequency 0.5/dt, requested order; filtered series = the (padded) record
        calls = out.cx.cache.get('opaque-calls', [])
        bcalls = [c for c in calls if c[0].startswith('butter_b_')]
        fcalls = [c for c in calls if c[0] == 'filtfilt']
        out.prove('exactly-one-filtfilt-call-and-at-most-one-filter-design', len(bcalls) <= 1 and len(fcalls) == 1)
        if len(bcalls) > 1 or len(fcalls) != 1:
            continue
        nyq = T.sdiv(Q('0.5'), dt)
        if len(bcalls) == 1:
            out.prove('filter-type-from-None-pattern', bcalls[0][0] == 'butter_b_' + ftype)
            order_arg, wn_arg = bcalls[0][1]
            out.prove('requested-filter-order-is-used', T.seq(order_arg, 3))
            if ftype == 'band':
                ok = is_arr(wn_arg) and tuple(wn_arg.shape) == (2,)
                out.prove('band-cut-off-is-a-pair', ok)
                if ok:
                    out.prove('cut-off-normalised-by-nyquist', T.sand(T.seq(wn_arg[0], T.sdiv(V.real('f_lo'), nyq)), T.seq(wn_arg[1], T.sdiv(V.real('f_hi'), nyq))))
            else:
                out.prove('cut-off-normalised-by-nyquist', T.is_scalar(wn_arg) and T.seq(wn_arg, T.sdiv(V.real('f_hi' if ftype == 'low' else 'f_lo'), nyq)))
        b_arg, a_arg, x_arg = fcalls[0][1]
        # whatever route the coefficients took (designed now, or handed over from an earlier request): they are the Butterworth design of
        # THIS request -- type from the None pattern, order 3, cut-off(s) normalised by the Nyquist frequency
        from pyvc.np_models2 import butter_fn
        import z3 as _z3
        w0 = T.sdiv(V.real('f_lo' if ftype in ('band', 'high') else 'f_hi'), nyq)
        w1 = T.sdiv(V.real('f_hi'), nyq) if ftype == 'band' else Q(0)
        ncoef = (6 if ftype == 'band' else 3) + 1
        okc = is_arr(b_arg) and is_arr(a_arg) and tuple(b_arg.shape) == (ncoef,) and tuple(a_arg.shape) == (ncoef,)
        out.prove('filter-coefficients-have-the-length-of-the-requested-design', okc)
        if okc:
            for which, arr in (('b', b_arg), ('a', a_arg)):
                F = butter_fn(which, ftype)
                out.prove('filtfilt-%s-coefficients-are-the-Butterworth-design-of-this-request' % which,
                          T.sand(*[T.seq(arr[k], T.N(F(_z3.IntVal(3), T.to_z3(T.to_real(w0)), T.to_z3(T.to_real(w1)), _z3.IntVal(k)))) for k in range(ncoef)]))
        filt = V.np.sp_filtfilt(b_arg, a_arg, x_arg)               # the (hash-consed) result of that very call
        if gibbs is None:
            off = 0
            out.prove('filtered-series-is-the-record', T.seq(x_arg.shape[0], n))
            for k in V.idx(0, n, 'kx'):
                out.prove('filtered-series-is-the-record/values', T.seq(x_arg[k], a[k]))
        else:
            nidx = T.sadd(T.strunc(T.to_real(T.sceil(T.slog(n, 2)))), 1)
            new_len = T.pow2(nidx)
            diff_len = T.ssub(new_len, n)
            off = 0 if gibbs == 'start' else (diff_len if gibbs == 'end' else T.strunc(T.sdiv(diff_len, 2)))
            start_v = V.np.np_mean(V.lib.getitem(a, slice(None, 50)))
            end_v = V.np.np_mean(V.lib.getitem(a, slice(-50, None)))
            f_len = T.sadd(off, n)
            out.prove('padded-length-is-next-power-of-two-times-two', T.seq(x_arg.shape[0], new_len))
            out.prove('padded-length-not-shorter-than-record', T.sge(diff_len, 0))
            for k in V.idx(0, new_len, 'kx'):
                want_k = T.site(T.slt(k, off), start_v, T.site(T.slt(k, f_len), a[T.ssub(k, off)], end_v))
                out.prove('padded-series-is-start-mean|record|end-mean', T.seq(x_arg[k], want_k))
        for k in V.idx(0, n, 'k'):
            out.prove('values-are-the-filter-output-at-the-record-positions', T.seq(vals[k], filt[T.sadd(k, off)]))
        out.unchanged('a', a)


@unit('C17', 'butter_pass/rejects-bad-cut-off', functions=[S_ + 'Signal.butter_pass'],
      cases=[dict(kind='scalar'), dict(kind='three')], modes=('unbounded',))
def butter_bad(V, kind):
    def setup():
        CS.install_cache_summaries(V)
        o, a, n, dt = _obj(V, 'Signal')
        return ((o,), dict(cut_off=V.real('f') if kind == 'scalar' else (V.real('f'), V.real('g'), V.real('h'))))
    for out in V.run(S_ + 'Signal.butter_pass', setup):
        out.prove('raises-ValueError', out.raised is not None and out.raised.kind == 'ValueError')


# ------------------------------------------------------------------------------------------------- add_* (unbounded)
@unit('C17', 'add_constant/add_series/add_signal', functions=[S_ + 'Signal.add_constant', S_ + 'Signal.add_series', S_ + 'Signal.add_signal'],
      cases=[dict(op=o, cls=c) for o in ('constant', 'series', 'signal', 'series-mismatch', 'signal-dt', 'signal-type') for c in ('Signal', 'AccSignal')],
      modes=('unbounded', 'bounded'), sizes=dict(n=[3]))
def add_ops(V, op, cls):
    st = {}

    def setup():
        CS.install_cache_summaries(V)
        o, a, n, dt = _obj(V, cls)
        st.update(o=o, a=a, n=n, dt=dt)
        if op == 'constant':
            c = V.real('c')
            st['add'] = lambda k: c
            return ((o, c), {})
        if op in ('series', 'series-mismatch'):
            m = n if op == 'series' else (V.size('m', 1) if V.mode == 'unbounded' else n + 1)
            if op == 'series-mismatch' and V.mode == 'unbounded':
                V.assume(m != n)
            s = V.array('s', m, origin='param')
            st['add'] = lambda k: s[k]
            st['s'] = s
            return ((o, s), {})
        if op == 'signal-type':
            s = V.array('s', n, origin='param')
            return ((o, s), {})
        dt2 = dt if op == 'signal' else V.real('dt2')
        if op == 'signal-dt':
            V.assume(dt2 != dt, dt2 > 0)
        b = V.array('b', n, origin='param')
        other = S.make_signal(V, 'Signal', b, dt2)
        st['add'] = lambda k: b[k]
        return ((o, other), {})
    meth = {'constant': 'add_constant', 'series': 'add_series', 'series-mismatch': 'add_series'}.get(op, 'add_signal')
    for out in V.run(S_ + 'Signal.' + meth, setup):
        o, a, n = st['o'], st['a'], st['n']
        vals = o.attrs['_values']
        if op in ('series-mismatch', 'signal-dt', 'signal-type'):
            out.prove('rejected-with-SignalProcessingError', out.raised is not None and out.raised.kind == 'SignalProcessingError')
            for k in V.idx(0, n, 'k'):
                out.prove('values-untouched-after-rejection', T.seq(vals[k], a[k]))
            continue
        if not out.no_raise():
            continue
        out.prove('length-kept', T.sand(T.seq(vals.shape[0], n), T.seq(o.attrs['_npts'], n)))
        for k in V.idx(0, n, 'k'):
            out.prove('element-wise-sum', T.seq(vals[k], T.sadd(a[k], st['add'](k))))
        out.unchanged('a', a)


# ------------------------------------------------------------------------------------------------ remove_poly
def _poly_at(cofs, deg, x):
    acc = Q(0)
    for c in range(deg + 1):
        acc = T.sadd(acc, T.smul(cofs[c], T.spow(x, deg - c)))
    return acc


@unit('C17', 'remove_poly/subtracts-one-polynomial', functions=[S_ + 'Signal.remove_poly', 'eqsig.fns.generic.remove_poly'],
      cases=[dict(level=l, deg=d) for l in ('object', 'array') for d in (0, 1, 2, 3, 4)], modes=('unbounded',))
def remove_poly_structure(V, level, deg):
    st = {}

    def setup():
        CS.install_cache_summaries(V)
        o, a, n, dt = _obj(V, 'Signal')
        V.assume(n >= deg + 2)
        st.update(o=o, a=a, n=n)
        if level == 'object':
            return ((o,), dict(poly_fit=deg))
        return ((a,), dict(poly_fit=deg))
    fn = S_ + 'Signal.remove_poly' if level == 'object' else 'eqsig.fns.generic.remove_poly'
    for out in V.run(fn, setup):
        out.replay_info = dict(module='filter', op='remove_poly', level=level, deg=deg)
        if not out.no_raise():
            continue
        o, a, n = st['o'], st['a'], st['n']
        res = o.attrs['_values'] if level == 'object' else out.result
        x = V.np.np_linspace(0, Q(1), n)
        cofs = V.np.np_polyfit(x, a, deg)                      # best-fit coefficients (library contract)
        out.prove('length-kept', T.seq(res.shape[0], n))
        for k in V.idx(0, n, 'k'):
            out.prove('residual-is-record-minus-best-fit-polynomial-of-degree-%d' % deg, T.seq(res[k], T.ssub(a[k], _poly_at(cofs, deg, x[k]))))
        out.unchanged('a', a)


@unit('C17', 'remove_poly/exactness', functions=[S_ + 'Signal.remove_poly', 'eqsig.fns.generic.remove_poly'],
      cases=[dict(level=l, deg=d) for l in ('object', 'array') for d in (0, 1, 2)], modes=('bounded',), sizes=dict(n=[3, 4, 5]),
      thorough_sizes=dict(n=[3, 4, 5, 6, 7]), budget_ms=20000)
def remove_poly_exact(V, level, deg):
    st = {}

    def setup():
        CS.install_cache_summaries(V)
        o, a, n, dt = _obj(V, 'Signal')
        if n < deg + 2:
            raise Skip()
        st.update(o=o, a=a, n=n, dt=dt)
        if level == 'object':
            return ((o,), dict(poly_fit=deg))
        return ((a,), dict(poly_fit=deg))
    fn = S_ + 'Signal.remove_poly' if level == 'object' else 'eqsig.fns.generic.remove_poly'
    f_arr = V.itp.get_function('eqsig.fns.generic.remove_poly')
    for out in V.run(fn, setup):
        out.replay_info = dict(module='filter', op='remove_poly', level=level, deg=deg)
        if not out.no_raise():
            continue
        o, a, n = st['o'], st['a'], st['n']
        res = o.attrs['_values'] if level == 'object' else out.result
        x = V.np.np_linspace(0, Q(1), n)
        fit = V.np.np_polyfit(x, res, deg)
        for c in range(deg + 1):
            out.prove('best-fit-polynomial-of-residual-is-zero[coef%d]' % c, T.seq(fit[c], 0))
        again = V.itp.call(f_arr, [res], dict(poly_fit=deg))
        out.prove('idempotent', T.sand(*[T.seq(again[k], res[k]) for k in range(n)]))
        # unaffected by adding any polynomial of degree <= deg beforehand
        q = [V.real('q%d' % c) for c in range(deg + 1)]
        shifted = V.np.np_array([T.sadd(a[k], _poly_at(q, deg, x[k])) for k in range(n)])
        res2 = V.itp.call(f_arr, [shifted], dict(poly_fit=deg))
        out.prove('unaffected-by-adding-a-polynomial-first', T.sand(*[T.seq(res2[k], res[k]) for k in range(n)]))


# ---------------------------------------------------------------------------------------------- running_average
@unit('C17', 'running_average', functions=[S_ + 'Signal.running_average'], cases=[dict(dtype='float'), dict(dtype='int')],
      modes=('bounded',), sizes=dict(n=[2, 3, 5], w=[1, 2, 3, 4, 5, 6, 9]), thorough_sizes=dict(n=[2, 3, 4, 5, 6, 7], w=[1, 2, 3, 4, 5, 6, 7, 8, 11, 25]))
def running_average(V, dtype):
    st = {}

    def setup():
        CS.install_cache_summaries(V)
        o, a, n, dt = _obj(V, 'Signal', dtype=dtype)
        w = V.size('w', 1)
        st.update(o=o, a=a, n=n, w=w)
        return ((o, w), {})
    for out in V.run(S_ + 'Signal.running_average', setup):
        out.replay_info = dict(module='filter', op='running_average', dtype=dtype)
        if not out.no_raise():
            continue
        o, a, n, w = st['o'], st['a'], st['n'], st['w']
        vals = o.attrs['_values']
        ok = is_arr(vals) and tuple(vals.shape) == (n,)
        out.prove('length-kept', ok)
        if not ok:
            continue
        h = w // 2
        for i in range(n):
            win = [a[j] for j in range(max(0, i - h), min(n, i + h + 1))]
            tot = 0
            for v in win:
                tot = T.sadd(tot, v)
            out.prove('sample-%d-is-mean-of-ORIGINAL-samples-within-floor(w/2)-positions' % i, T.seq(vals[i], T.sdiv(tot, len(win))))
        out.unchanged('a', a)


from pyvc.api import int_variant
int_variant('C17', 'remove_poly/subtracts-one-polynomial', ['a'])
int_variant('C17', 'add_constant/add_series/add_signal', ['a'])

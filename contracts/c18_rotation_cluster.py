"""C18 -- two-component rotation and cluster alignment do what they say."""
import z3

from pyvc.api import unit, Skip
from pyvc import terms as T
from pyvc import spec as S
from pyvc.terms import Q
from pyvc.arrays import is_arr

import contracts_common_signal as CS

M_ = 'eqsig.multiple.'


def two_components(V):
    n = V.size('n', 2)
    ns, we = V.array('ns', n, origin='param'), V.array('we', n, origin='param')
    dt = V.real('dt')
    V.assume(dt > 0)
    s_ns = S.make_signal(V, 'AccSignal', ns, dt)
    s_we = S.make_signal(V, 'AccSignal', we, dt)
    return n, ns, we, dt, s_ns, s_we


@unit('C18', 'combine_at_angle', functions=[M_ + 'combine_at_angle'],
      cases=[dict(angle='symbolic'), dict(angle='0'), dict(angle='90'), dict(angle='theta+180')], sizes=dict(n=[3]))
def combine(V, angle):
    st = {}

    def setup():
        CS.install_cache_summaries(V)
        n, ns, we, dt, s_ns, s_we = two_components(V)
        theta = V.real('theta')
        ang = {'symbolic': theta, '0': 0, '90': 90, 'theta+180': T.sadd(theta, 180)}[angle]
        st.update(n=n, ns=ns, we=we, dt=dt, theta=theta, s_ns=s_ns, s_we=s_we)
        return dict(acc_sig_ns=s_ns, acc_sig_we=s_we, angle=ang)
    f = V.itp.get_function(M_ + 'combine_at_angle')
    for out in V.run(M_ + 'combine_at_angle', setup):
        if not out.no_raise():
            continue
        n, ns, we, dt, theta = st['n'], st['ns'], st['we'], st['dt'], st['theta']
        r = out.result
        vals = r.attrs['_values']
        out.prove('result-is-AccSignal-with-the-first-components-time-step', T.sand(r.cls.name == 'AccSignal', T.seq(r.attrs['_dt'], dt)))
        out.prove('length', T.seq(vals.shape[0], n))
        T.trig_special_values()
        for k in V.idx(0, n, 'k'):
            if angle == 'symbolic':
                rad = T.sdiv(T.smul(theta, T.pi()), 180)
                out.prove('ns*cos(theta)+we*sin(theta)', T.seq(vals[k], T.sadd(T.smul(ns[k], T.scos(rad)), T.smul(we[k], T.ssin(rad)))))
            elif angle == '0':
                out.prove('theta=0-gives-ns', T.seq(vals[k], ns[k]))
            elif angle == '90':
                out.prove('theta=90-gives-we', T.seq(vals[k], we[k]))
            else:
                rad = T.sdiv(T.smul(theta, T.pi()), 180)
                T.trig_shift_pi(rad)
                base = V.itp.call(f, [st['s_ns'], st['s_we'], theta], {}).attrs['_values']
                out.prove('theta+180-negates', T.seq(vals[k], T.sneg(base[k])))
        out.unchanged('ns', ns)
        out.unchanged('we', we)


@unit('C18', 'compute_rotated', functions=[M_ + 'compute_rotated'],
      cases=[dict(way='arias'), dict(way='parameter'), dict(way='func-scalar'), dict(way='func-series'), dict(way='none')],
      sizes=dict(n=[3]), modes=('unbounded', 'bounded'))
def rotated(V, way):
    st = {}
    POINTS = 3

    def setup():
        CS.install_cache_summaries(V)
        n, ns, we, dt, s_ns, s_we = two_components(V)
        off = V.real('angle_off')
        st.update(n=n, ns=ns, we=we, dt=dt, off=off, s_ns=s_ns, s_we=s_we)
        kw = dict(acc_sig_ns=s_ns, acc_sig_we=s_we, angle_off_ns=off, points=POINTS)
        if way == 'arias':
            kw['parameter'] = 'arias_intensity'
        elif way == 'parameter':
            kw['parameter'] = 'pga'
        elif way == 'func-scalar':
            kw['func'] = V.opaque_callable('measure', lambda itp, sig: itp.get_attr(sig, 'pgv'))
        elif way == 'func-series':
            kw['func'] = V.opaque_callable('measure', lambda itp, sig: itp.call(itp.get_function('eqsig.im.calc_cav'), [sig], {}))
        return kw
    comb = V.itp.get_function(M_ + 'combine_at_angle')
    for out in V.run(M_ + 'compute_rotated', setup):
        if way == 'none':
            out.prove('neither-parameter-nor-func-raises-ValueError', out.raised is not None and out.raised.kind == 'ValueError')
            continue
        if not out.no_raise():
            continue
        out.side_conditions(skip=('nonzero-divisor',))
        off = st['off']
        ok = isinstance(out.result, tuple) and len(out.result) == 2
        out.prove('returns-(degrees, values)', ok)
        if not ok:
            continue
        deg, pv = out.result
        out.prove('one-value-per-requested-angle', T.sand(tuple(deg.shape) == (POINTS,), tuple(pv.shape) == (POINTS,)))
        for j in range(POINTS):
            want_deg = T.smod(T.sadd(T.sneg(off), T.sdiv(T.smul(180, j), POINTS - 1)), 360)
            out.prove('angle-%d-spans-half-circle-from-offset' % j, T.seq(deg[j], want_deg))
            new_sig = V.itp.call(comb, [st['s_ns'], st['s_we'], deg[j]], {})
            if way == 'arias':
                ai = V.itp.call(V.itp.get_function('eqsig.im.calc_arias_intensity'), [new_sig], {})
                want = ai[T.ssub(st['n'], 1)] if not isinstance(st['n'], int) else ai[st['n'] - 1]
            elif way == 'parameter':
                want = V.itp.get_attr(new_sig, 'pga')
            elif way == 'func-scalar':
                want = V.itp.get_attr(new_sig, 'pgv')
            else:
                cav = V.itp.call(V.itp.get_function('eqsig.im.calc_cav'), [new_sig], {})
                want = cav[T.ssub(st['n'], 1)] if not isinstance(st['n'], int) else cav[st['n'] - 1]
            out.prove('value-%d-is-the-measure-of-that-combination' % j, T.seq(pv[j], want))


# ----------------------------------------------------------------------------------------------------- Cluster
def make_cluster(V, k, n, master, stype='custom'):
    arrs = [V.array('x%d' % j, n, origin='param') for j in range(k)]
    dt = Q('0.5')
    c = V.itp.call(V.itp.get_function(M_ + 'Cluster'), [arrs, dt], dict(master_index=master, stypes=stype))
    return c, arrs, dt


def sigs_of(V, c):
    return [V.itp.call(V.itp.get_attr(c, 'signal_by_index'), [j], {}) for j in range(len(c.attrs['signals']))]


@unit('C18', 'Cluster.same_start', functions=[M_ + 'Cluster.same_start', 'eqsig.fns.average.get_section_average', 'eqsig.fns.time_shift.time_indices'],
      cases=[dict(k=k, master=m, stype=s, window='0..1') for k in (2, 3, 4) for m in range(k) for s in ('custom',)] + [dict(k=3, master=2, stype='acc', window='0..1')] +
            [dict(k=3, master=1, stype='custom', window=w) for w in ('default', '0..0', '0.5..1.5', '1..1', '0..2')],
      modes=('bounded',), sizes=dict(n=[5]))
def same_start(V, k, master, stype, window):
    """section windows in time at dt = 0.5 (samples int(start/dt) .. int(end/dt) inclusive): the default (0..1 s), the one-sample window
    0..0 ('start at the same value'), windows that do not begin at 0, a one-sample window later in the record, a longer window"""
    st = {}
    WIN = {'default': None, '0..1': (0, 1), '0..0': (0, 0), '0.5..1.5': (Q('0.5'), Q('1.5')), '1..1': (1, 1), '0..2': (0, 2)}[window]
    lo_t, hi_t = WIN if WIN is not None else (0, 1)
    i_lo, i_hi = int(float(T.fr(lo_t)) / 0.5), int(float(T.fr(hi_t)) / 0.5) + 1

    def setup():
        CS.install_cache_summaries(V)
        n = V.size('n', 4)
        c, arrs, dt = make_cluster(V, k, n, master, stype)
        st.update(c=c, arrs=arrs, dt=dt, n=n)
        return ((c,), dict(start=WIN[0], end=WIN[1]) if WIN is not None else {})
    for out in V.run(M_ + 'Cluster.same_start', setup):
        if not out.no_raise():
            continue
        c, arrs, n = st['c'], st['arrs'], st['n']
        out.replay_info = dict(module='cluster', op='same_start', k=k, master=master, window=None if WIN is None else [float(T.fr(WIN[0])), float(T.fr(WIN[1]))])
        sigs = sigs_of(V, c)

        def avg(vals):
            tot = 0
            for i in range(i_lo, i_hi):
                tot = T.sadd(tot, vals[i])
            return T.sdiv(tot, i_hi - i_lo)
        m_vals = sigs[master].attrs['_values']
        out.prove('master-unchanged', T.sand(*[T.seq(m_vals[i], arrs[master][i]) for i in range(n)]))
        for j in range(k):
            if j == master:
                continue
            v = sigs[j].attrs['_values']
            ok = is_arr(v) and tuple(v.shape) == (n,)
            out.prove('signal-%d-still-an-array-of-the-same-length' % j, ok)
            if ok:
                out.prove('signal-%d-section-average-equals-the-masters' % j, T.seq(avg(v), avg(arrs[master])))
                d0 = T.ssub(v[0], arrs[j][0])
                out.prove('signal-%d-shifted-by-a-constant' % j, T.sand(*[T.seq(T.ssub(v[i], arrs[j][i]), d0) for i in range(n)]))
        for j, a in enumerate(arrs):
            out.unchanged('x%d' % j, a)


@unit('C18', 'Cluster.time_match', functions=[M_ + 'Cluster.time_match'],
      cases=[dict(lags=(l,), master=m) for l in (-1, 0, 1) for m in (0, 1)] +
            [dict(lags=(l1, l2), master=m) for l1 in (-1, 0, 1) for l2 in (-1, 0, 1) for m in (0, 1, 2)],
      modes=('bounded',), sizes=dict(n=[5, 6]), budget_ms=30000)
def time_match(V, lags, master):
    """every non-master signal = master delayed by its own lag (|lag| < steps = 2), two or three signals, any master position;
    after time_match the compared windows of EVERY non-master signal coincide with the master's."""
    st = {}
    STEPS = 2
    k = len(lags) + 1

    def setup():
        CS.install_cache_summaries(V)
        n = V.size('n', 5)
        x = V.array('x', n, origin='param')                 # master record
        slaves = []
        for q, lag in enumerate(lags):
            pad = V.array('pad%d' % q, n, origin='param')   # arbitrary samples where the delayed copy has no data
            slaves.append(V.np.np_array([x[i - lag] if 0 <= i - lag < n else pad[i] for i in range(n)]))
        arrs = list(slaves)
        arrs.insert(master, x)
        c = V.itp.call(V.itp.get_function(M_ + 'Cluster'), [arrs, Q('0.5')], dict(master_index=master))
        st.update(c=c, x=x, n=n)
        return ((c,), dict(steps=STEPS))
    for out in V.run(M_ + 'Cluster.time_match', setup):
        out.replay_info = dict(module='cluster', op='time_match', lags=list(lags), master=master, steps=STEPS)
        if not out.no_raise():
            continue
        c, x, n = st['c'], st['x'], st['n']
        sigs = sigs_of(V, c)
        vals = [sg.attrs['_values'] for sg in sigs]
        out.prove('values-remain-arrays', all(is_arr(v) for v in vals))
        if not all(is_arr(v) for v in vals):
            continue
        out.prove('lengths-unchanged', all(tuple(v.shape) == (n,) for v in vals))
        mv = vals[master]
        out.prove('master-unchanged', T.sand(*[T.seq(mv[i], x[i]) for i in range(n)]))
        if not all(tuple(v.shape) == (n,) for v in vals):
            continue
        m = out.result                                       # lag that was removed from the LAST non-master signal
        out.prove('returned-lag-within-search-window', T.sand(T.sgt(m, -STEPS), T.slt(m, STEPS)))
        w = n - STEPS
        others = [j for j in range(k) if j != master]
        for pos, j in enumerate(others):
            sv = vals[j]
            # the overlapping (compared) samples coincide after alignment
            goals, alts = [], []
            for cand in range(-STEPS + 1, STEPS):
                if cand >= 0:
                    eq = T.sand(*[T.seq(sv[i], x[i]) for i in range(w)])
                else:
                    eq = T.sand(*[T.seq(sv[-cand + jj], x[-cand + jj]) for jj in range(w)])
                goals.append(T.simplies(T.seq(m, cand), eq))
                alts.append(eq)
            if pos == len(others) - 1:
                out.prove('compared-samples-coincide-after-alignment', T.sand(*goals))
            else:
                out.prove('compared-samples-coincide-after-alignment (signal %d)' % j, T.sor(*alts))
        out.unchanged('x', x)


from pyvc.api import int_variant
int_variant('C18', 'combine_at_angle', ['ns', 'we'])
int_variant('C18', 'Cluster.same_start', ['x0', 'x1', 'x2', 'x3'])
int_variant('C18', 'Cluster.time_match', ['x', 'pad0', 'pad1'])

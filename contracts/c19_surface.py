"""C19 -- surface-energy and time-shift utilities match the shifted-wave definition."""
import itertools
import math
from fractions import Fraction

import z3

from pyvc.api import unit, Skip
from pyvc import terms as T
from pyvc import spec as S
from pyvc.terms import Q
from pyvc.arrays import is_arr

SF = 'eqsig.surface.'
TS = 'eqsig.fns.time_shift.'
DT = Fraction(1, 4)

TT_SETS = {
    'scalar-zero': [Fraction(0)],
    'scalar-fractional': [Fraction(3, 16)],               # 2*tt/dt = 1.5 samples
    'mixed': [Fraction(0), Fraction(3, 16), Fraction(1, 4)],
    'deepest-first': [Fraction(1, 2), Fraction(3, 16), Fraction(0)],      # travel times need not be given in ascending order
}


def at_or_zero(x, t, n):
    """x[t] if 0 <= t < n else 0  (t may be symbolic; never raises)"""
    t = T.N(t)
    if isinstance(t, int) and isinstance(n, int):
        return x[t] if 0 <= t < n else Q(0)
    from pyvc.arrays import to_carr
    cx = to_carr(x)
    return T.site(T.sand(T.sle(0, t), T.slt(t, n)), cx.at(t), Q(0))


def lin(x, n, pos):
    """linear interpolation of record x at (rational) sample position pos, zero outside [0, n-1]"""
    if pos < 0 or pos > n - 1:
        return Q(0)
    k = math.floor(pos)
    if k == pos:
        return x[int(k)]
    w = pos - k
    return T.sadd(T.smul(Q(1 - w), x[k]), T.smul(Q(w), x[k + 1]))


def spec_acc(x, n, tts, nodal, ur, dr):
    shifts = [2 * t / DT for t in tts]
    max_shift = int(max(shifts))
    L = n + max_shift
    rows = []
    for r, s in enumerate(shifts):
        row = []
        for k in range(L):
            up = x[k] if k < n else Q(0)
            down = lin(x, n, Fraction(k) - s)
            u = T.smul(up, ur[r] if isinstance(ur, list) else ur)
            d = T.smul(down, dr[r] if isinstance(dr, list) else dr)
            row.append(T.ssub(u, d) if nodal else T.sadd(u, d))
        rows.append(row)
    return rows, L


def spec_energy(rows):
    out = []
    for row in rows:
        v = [Q(0)]
        for k in range(1, len(row)):
            v.append(T.sadd(v[-1], T.smul(Q(DT / 2), T.sadd(row[k], row[k - 1]))))
        out.append([T.smul(T.smul(Q('1/2'), vv), T.sabs(vv)) for vv in v])
    return out


def spec_trim(rows, n, tts, trim, start, stt):
    """front padding / cropping by int(stt/dt) - int(tau/dt); lengths by the trim/start options"""
    sds = [int(t / DT) for t in tts]
    ss = int(stt / DT)
    if start:
        sis = [ss - s for s in sds]
        npts = n if trim else n + max(max(sis), 0) - min(min(2 * s for s in sds), 0)
    else:
        if not trim:
            return rows
        sis = [0] * len(tts)
        npts = n
    out = []
    for i, row in enumerate(rows):
        new = [Q(0)] * npts
        if sis[i] < 0:
            src = row[-sis[i]: npts - sis[i]]
            for k, v in enumerate(src):
                new[k] = v
            if len(src) != npts:
                return None                        # the code's row assignment would not fit: outside the helper's domain
        else:
            if npts - sis[i] <= 0:
                return None                        # the front padding alone exceeds the output length: outside the helper's stated domain
            src = row[: npts - sis[i]]
            for k, v in enumerate(src):
                new[sis[i] + k] = v
            if len(src) != npts - sis[i]:
                return None
        out.append(new)
    return out


def _surface_setup(V, st, tts_name, reds):
    n = V.size('n', 2)
    x = V.array('x', n, origin='param')
    asig = S.make_signal(V, 'AccSignal', x, Q(DT))
    tts = TT_SETS[tts_name]
    tt_arg = Q(tts[0]) if tts_name.startswith('scalar') else V.np.np_array([Q(t) for t in tts])
    if reds == 'scalar':
        ur, dr = V.real('up_red'), V.real('down_red')
        ur_a, dr_a = ur, dr
    else:
        ur = [V.real('up_red%d' % r) for r in range(len(tts))]
        dr = [V.real('down_red%d' % r) for r in range(len(tts))]
        ur_a, dr_a = V.np.np_array(ur), V.np.np_array(dr)
    st.update(n=n, x=x, tts=tts, ur=ur, dr=dr)
    return asig, tt_arg, ur_a, dr_a


def compare_2d(out, name, res, want, single):
    if want is None:
        return
    if single:
        ok = is_arr(res) and tuple(res.shape) == (len(want[0]),)
        out.prove(name + '/single-travel-time-returns-1-D-of-expected-length', ok)
        if ok:
            out.prove(name + '/values', T.sand(*[T.seq(res[k], want[0][k]) for k in range(len(want[0]))]))
        return
    ok = is_arr(res) and tuple(res.shape) == (len(want), len(want[0]))
    out.prove(name + '/shape-is-travel-times-by-expected-length', ok)
    if ok:
        for r in range(len(want)):
            out.prove(name + '/row-%d-values' % r, T.sand(*[T.seq(res[r, k], want[r][k]) for k in range(len(want[r]))]))


OPTS = [dict(tts=t, nodal=nd, reds=rd, trim=tr, start=sa, stt=s)
        for t in TT_SETS for nd in (True, False) for rd in ('scalar', 'array') for tr in (True, False) for sa in (True, False)
        for s in ('0', '1/4') if not (rd == 'array' and t.startswith('scalar') and False)
        and not (t == 'deepest-first' and (rd == 'array' or not nd))] + \
       [dict(tts='deepest-first', nodal=True, reds='scalar', trim=tr, start=True, stt='3/4') for tr in (True, False)]


@unit('C19', 'get_time_shift_motions', functions=[SF + 'get_time_shift_motions', SF + 'trim_to_length'], cases=OPTS, modes=('bounded',), opts=dict(histories=('prior', 'again')),
      sizes=dict(n=[3, 4]), thorough_sizes=dict(n=[2, 3, 4, 5, 6]))
def time_shift_motions(V, tts, nodal, reds, trim, start, stt):
    st = {}

    def setup():
        asig, tt_arg, ur_a, dr_a = _surface_setup(V, st, tts, reds)
        return dict(asig=asig, travel_times=tt_arg, nodal=nodal, up_red=ur_a, down_red=dr_a, stt=Q(stt), trim=trim, start=start)
    for out in V.run(SF + 'get_time_shift_motions', setup):
        rows, L = spec_acc(st['x'], st['n'], st['tts'], nodal, st['ur'], st['dr'])
        want = spec_trim(rows, st['n'], st['tts'], trim, start, Fraction(stt))
        if want is None:
            continue
        if not out.no_raise():
            continue
        compare_2d(out, 'shifted-wave-acceleration', out.result, want, len(st['tts']) == 1)
        out.unchanged('x', st['x'])


@unit('C19', 'calc_surface_energy', functions=[SF + 'calc_surface_energy', SF + 'trim_to_length'], cases=OPTS, modes=('bounded',), opts=dict(histories=('prior', 'again')),
      sizes=dict(n=[3, 4]), thorough_sizes=dict(n=[2, 3, 4, 5, 6]), budget_ms=20000)
def surface_energy(V, tts, nodal, reds, trim, start, stt):
    st = {}

    def setup():
        asig, tt_arg, ur_a, dr_a = _surface_setup(V, st, tts, reds)
        return dict(asig=asig, travel_times=tt_arg, nodal=nodal, up_red=ur_a, down_red=dr_a, stt=Q(stt), trim=trim, start=start)
    for out in V.run(SF + 'calc_surface_energy', setup):
        rows, L = spec_acc(st['x'], st['n'], st['tts'], nodal, st['ur'], st['dr'])
        want = spec_trim(spec_energy(rows), st['n'], st['tts'], trim, start, Fraction(stt))
        if want is None:
            continue
        if not out.no_raise():
            continue
        compare_2d(out, 'energy-is-half-v|v|-of-the-integrated-shifted-wave', out.result, want, len(st['tts']) == 1)
        if trim:
            out.prove('trimmed-length-is-npts', (out.result.shape[-1] == st['n']) if is_arr(out.result) else False)
        out.unchanged('x', st['x'])


# --------------------------------------------------------------------------------------------- cumulative measure
@unit('C19', 'calc_cum_abs_surface_energy', functions=[SF + 'calc_cum_abs_surface_energy'], opts=dict(histories=('prior', 'again')),
      cases=[dict(tts=t, nodal=nd) for t in TT_SETS for nd in (True, False)], modes=('bounded',), sizes=dict(n=[3, 4]), budget_ms=20000)
def cum_abs_energy(V, tts, nodal):
    st = {}

    def setup():
        asig, tt_arg, ur_a, dr_a = _surface_setup(V, st, tts, 'scalar')
        st.update(asig=asig, tt_arg=tt_arg)
        return dict(asig=asig, travel_times=tt_arg, nodal=nodal, up_red=ur_a, down_red=dr_a)
    f = V.itp.get_function(SF + 'calc_cum_abs_surface_energy')
    for out in V.run(SF + 'calc_cum_abs_surface_energy', setup):
        if not out.no_raise():
            continue
        n, x, tl = st['n'], st['x'], st['tts']
        rows, L = spec_acc(x, n, tl, nodal, st['ur'], st['dr'])
        e = spec_energy(rows)
        res = out.result
        single = len(tl) == 1
        for r in range(len(tl)):
            get = (lambda k: res[k]) if single else (lambda k, r=r: res[r, k])
            acc = Q(0)
            prev = Q(0)
            for k in range(L):
                acc = T.sadd(acc, T.sabs(T.ssub(e[r][k], prev)))
                prev = e[r][k]
                out.prove('row%d-is-cumulative-absolute-change-of-energy[%d]' % (r, k), T.seq(get(k), acc))
                if k:
                    out.prove('row%d-non-decreasing[%d]' % (r, k), T.sge(get(k), get(k - 1)))
            if tl[r] == 0 and nodal:
                out.prove('row%d-zero-for-zero-travel-time-at-nodal-surface-with-equal-reductions' % r,
                          T.sand(*[T.seq(get(k), 0) for k in range(L)]), extra_hyps=[T.seq(st['ur'], st['dr'])])
        # (alpha^2 scaling is a consequence of the proved formula -- e = v|v|/2 with v linear in the record -- and is not
        #  mechanised: the element-wise identity |a*v| = |a||v| over ite-encoded abs is beyond the solver's budget)
        if not single:
            # each row of a batch equals the single-travel-time result, continued by constants
            for r in range(len(tl)):
                one = V.itp.call(f, [st['asig'], Q(tl[r])], dict(nodal=nodal, up_red=st['ur'], down_red=st['dr']))
                L1 = one.shape[0]
                # (on the single result's own length: a batch is zero padded to the longest delay, and for a record that does
                #  not end at zero the padding adds one more trapezoid panel, so the rows can only agree on the common part)
                out.prove('batch-row-%d-equals-single-travel-time-result' % r,
                          T.sand(*[T.seq(res[r, k], one[k]) for k in range(min(L, L1))]))


# ------------------------------------------------------------------------------------------------ array shifting
SHIFT_VECTORS = {'pos': [0, 2, 1], 'mixed': [-1, 0, 2], 'neg': [-2, -1], 'zero': [0]}


def spec_put(x, n, shifts, clip):
    end_extras = max(max(shifts), 0)
    start_extras = -min(min(shifts), 0)
    c0 = start_extras if clip in ('start', 'both') else 0
    width = n + start_extras + end_extras - (end_extras if clip in ('end', 'both') and end_extras > 0 else 0)
    return start_extras, c0, width


@unit('C19', 'put_array_in_2d_array', functions=[TS + 'put_array_in_2d_array'],
      cases=[dict(sv=s, clip=c) for s in SHIFT_VECTORS for c in ('none', 'start', 'end', 'both')], sizes=dict(n=[1, 3]))
def put_array(V, sv, clip):
    st = {}
    shifts = SHIFT_VECTORS[sv]

    def setup():
        n = V.size('n', 1)
        x = V.array('x', n, origin='param')
        st.update(n=n, x=x)
        return dict(values=x, shifts=V.np.np_array(shifts), clip=clip)
    for out in V.run(TS + 'put_array_in_2d_array', setup):
        if not out.no_raise():
            continue
        out.side_conditions()
        n, x = st['n'], st['x']
        r = out.result
        start_extras, c0, _ = spec_put(x, 0, shifts, clip)
        end_extras = max(max(shifts), 0)
        width = T.sadd(n, start_extras + end_extras - (end_extras if clip in ('end', 'both') and end_extras > 0 else 0) - c0)
        out.prove('shape', T.sand(len(r.shape) == 2, T.seq(r.shape[0], len(shifts)), T.seq(r.shape[1], width)))
        for i, j in enumerate(shifts):
            off = start_extras + j - c0                      # column where values[0] of row i lands
            for k in V.idx(0, width, 'k'):
                want = at_or_zero(x, T.ssub(k, off), n)
                out.prove('row-%d-holds-values-at-offset-%d-zeros-elsewhere' % (i, j), T.seq(r[i, k], want))
        out.unchanged('x', x)


@unit('C19', 'join_values_w_shifts', functions=[TS + 'join_values_w_shifts', TS + 'join_sig_w_time_shift'],
      cases=[dict(sv=s, jtype=j, level=l) for s in ('pos', 'zero') for j in ('add', 'sub') for l in ('array', 'signal')], sizes=dict(n=[1, 3]))
def join_values(V, sv, jtype, level):
    st = {}
    shifts = SHIFT_VECTORS[sv]

    def setup():
        n = V.size('n', 1)
        x = V.array('x', n, origin='param')
        st.update(n=n, x=x)
        if level == 'array':
            return dict(values=x, shifts=V.np.np_array(shifts), jtype=jtype)
        sig = S.make_signal(V, 'Signal', x, Q(DT))
        return dict(sig=sig, time_shifts=V.np.np_array([Q(DT * s) for s in shifts]), jtype=jtype)
    fn = TS + ('join_values_w_shifts' if level == 'array' else 'join_sig_w_time_shift')
    for out in V.run(fn, setup):
        if not out.no_raise():
            continue
        out.side_conditions()
        n, x = st['n'], st['x']
        r = out.result
        width = T.sadd(n, max(shifts))
        out.prove('shape', T.sand(len(r.shape) == 2, T.seq(r.shape[0], len(shifts)), T.seq(r.shape[1], width)))
        for i, j in enumerate(shifts):
            for k in V.idx(0, width, 'k'):
                orig = at_or_zero(x, k, n)
                sh = at_or_zero(x, T.ssub(k, j), n)
                want = T.sadd(orig, sh) if jtype == 'add' else T.ssub(orig, sh)
                out.prove('row-%d-is-zero-padded-original-%s-copy-shifted-by-%d' % (i, 'plus' if jtype == 'add' else 'minus', j), T.seq(r[i, k], want))
        out.unchanged('x', x)


from pyvc.api import int_variant
int_variant('C19', 'calc_surface_energy', ['x'])
int_variant('C19', 'get_time_shift_motions', ['x'])
int_variant('C19', 'put_array_in_2d_array', ['x'])
int_variant('C19', 'join_values_w_shifts', ['x'])

"""C20 -- interpolation, averaging, step-fit and design-spectrum helpers match their definitions."""
import z3

from pyvc.api import unit, Skip
from pyvc import terms as T
from pyvc import spec as S
from pyvc.terms import Q

DS = 'eqsig.design_spectra.'

# ------------------------------------------------------------------------------------------- design spectra
# Breakpoints of the NZS 1170.5 spectral shape tables, per site class (taken from the standard's table layout).
BREAKS = {'C': ['0.1', '0.3', '1.5', '3.0'], 'D': ['0.1', '0.56', '1.5', '3.0'], 'E': ['0.1', '1.0', '1.5', '3.0']}


@unit('C20', 'sd_nzs-equals-c_h_factor-times-T2ZNR', functions=[DS + 'c_h_factor', DS + 'sd_nzs'],
      cases=[dict(site=s) for s in 'CDE'], modes=('unbounded',))
def sd_vs_ch(V, site):
    st = {}

    def setup():
        Tn, Z, R_, Nf = V.real('T'), V.real('Z'), V.real('R'), V.real('N')
        V.assume(Tn >= 0)
        st.update(T=Tn, Z=Z, R=R_, N=Nf)
        return dict(period=Tn, site_class=site)
    for out in V.run(DS + 'c_h_factor', setup):
        if not out.no_raise():
            continue
        Tn, Z, R_, Nf = st['T'], st['Z'], st['R'], st['N']
        ch = out.result
        out.prove('scalar-in-scalar-out', T.is_scalar(ch))
        try:
            sd = V.itp.call(V.itp.get_function(DS + 'sd_nzs'), [Tn, site, Z, R_, Nf], {})
        except T.PyExc as e:
            out.prove('sd_nzs-no-exception[%s]' % e.kind, False)
            continue
        out.prove('Sd==Ch*T^2*Z*N*R', T.seq(sd, T.smul(T.smul(T.smul(T.smul(ch, T.smul(Tn, Tn)), Z), Nf), R_)))
        out.prove('Ch-positive', T.sgt(ch, 0))


@unit('C20', 'design-spectra-domain-errors', functions=[DS + 'c_h_factor', DS + 'sd_nzs', DS + 't_eff'],
      cases=[dict(fn='c_h_factor', what='negative'), dict(fn='sd_nzs', what='negative'), dict(fn='c_h_factor', what='class'),
             dict(fn='sd_nzs', what='class'), dict(fn='t_eff', what='class'), dict(fn='t_eff', what='beyond-corner')], modes=('unbounded',))
def ds_errors(V, fn, what):
    def setup():
        Tn = V.real('T')
        if what == 'negative':
            V.assume(Tn < 0)
            site = 'D'
        elif what == 'class':
            V.assume(Tn >= 0)
            site = 'B'
        else:
            site = 'C'
            V.assume(Tn > T.sdiv(T.smul(Q('3.96'), Q('9.81')), T.smul(T.smul(2, T.pi()), T.smul(2, T.pi()))))
        if fn == 'c_h_factor':
            return dict(period=Tn, site_class=site)
        if fn == 'sd_nzs':
            return dict(period=Tn, site_class=site, z_factor=1, r_factor=1, n_factor=1)
        return dict(displacement=Tn, site_class=site, z_factor=1, r_factor=1, n_factor=1)
    for out in V.run(DS + fn, setup):
        out.prove('raises-ValueError', out.raised is not None and out.raised.kind == 'ValueError')


@unit('C20', 'c_h_factor-array-form', functions=[DS + 'c_h_factor'],
      cases=[dict(site=s, container=c, dtype=d) for s in 'CDE' for c in ('array', 'list', 'tuple') for d in ('float', 'int')], modes=('unbounded',))
def ch_array(V, site, container, dtype):
    """period containers of every kind and element type (integer periods such as np.arange(0, 6) are legal input)"""
    st = {}

    def setup():
        p = V.array('P', 2, dtype)
        V.assume(p[0] >= 0, p[1] >= 0)
        st['p'] = p
        arg = p if container == 'array' else ([p[0], p[1]] if container == 'list' else (p[0], p[1]))
        return dict(period=arg, site_class=site)
    f = V.itp.get_function(DS + 'c_h_factor')
    for out in V.run(DS + 'c_h_factor', setup):
        if not out.no_raise():
            continue
        p = st['p']
        r = out.result
        ok = hasattr(r, 'shape') and tuple(r.shape) == (2,)
        out.prove('one-value-per-period', ok)
        if ok:
            for k in range(2):
                out.prove('entry-%d-equals-scalar-form' % k, T.seq(r[k], V.itp.call(f, [T.to_real(p[k]), site], {})))
        if container == 'array':
            out.unchanged('P', p)


def _emit_pow_facts(term):
    """After substituting a concrete period, re-emit the pow identity instances for the now-ground pow terms."""
    seen = set()

    def walk(t):
        if t.get_id() in seen:
            return
        seen.add(t.get_id())
        if z3.is_app(t) and t.decl().name() == 'pow' and t.num_args() == 2:
            a, b = t.arg(0), t.arg(1)
            a, b = z3.simplify(a), z3.simplify(b)
            if z3.is_rational_value(a) and z3.is_rational_value(b):
                T.spow(a, b)
        for c in t.children():
            walk(c)
    walk(term)


@unit('C20', 'c_h_factor-continuity-at-breakpoints', functions=[DS + 'c_h_factor'],
      cases=[dict(site=s, k=k) for s in 'CDE' for k in range(4)], modes=('unbounded',))
def ch_continuity(V, site, k):
    brk = Q(BREAKS[site][k])
    lo = Q(BREAKS[site][k - 1]) if k > 0 else Q(0)
    st = {}

    def setup():
        Tn = V.real('T')
        V.assume(Tn > lo, Tn < brk)                       # strictly inside the segment to the left of the breakpoint
        st['T'] = Tn
        return dict(period=Tn, site_class=site)
    f = V.itp.get_function(DS + 'c_h_factor')
    n_paths = 0
    for out in V.run(DS + 'c_h_factor', setup):
        if not out.no_raise():
            continue
        n_paths += 1
        left_expr = T.to_real(out.result)
        left_at_b = z3.simplify(z3.substitute(left_expr, (st['T'], brk)))
        _emit_pow_facts(left_at_b)
        right_at_b = V.itp.call(f, [brk, site], {})
        out.prove('segment-formula-is-single-branch', True)
        diff = T.sabs(T.ssub(left_at_b, right_at_b))
        out.prove('continuous-within-0.5-percent', T.sle(diff, T.smul(Q('0.005'), right_at_b)))
    # exactly one formula applies on the whole open segment (the breakpoints above are the only ones)
    for out in V.symbolic(lambda: dict()):
        out.prove('single-path-on-segment', n_paths == 1)


@unit('C20', 't_eff', functions=[DS + 't_eff', DS + 'sd_nzs'], cases=[dict(site=s) for s in 'CDE'], modes=('unbounded',))
def t_eff(V, site):
    st = {}
    g = Q('9.81')

    def setup():
        Tn, Z, R_, Nf = V.real('T'), V.real('Z'), V.real('R'), V.real('N')
        V.assume(Tn >= 0, Tn <= 3, Z > 0, R_ > 0, Nf > 0)
        st.update(T=Tn, Z=Z, R=R_, N=Nf)
        # corner displacement from the spectral-shape function itself: Sd(3.0) * g / (2 pi)^2
        sd3 = V.itp.call(V.itp.get_function(DS + 'sd_nzs'), [Q(3), site, Z, R_, Nf], {})
        two_pi = T.smul(2, T.pi())
        d_c = T.sdiv(T.smul(sd3, g), T.smul(two_pi, two_pi))
        st['d_c'] = d_c
        return dict(displacement=T.sdiv(T.smul(d_c, Tn), 3), site_class=site, z_factor=Z, r_factor=R_, n_factor=Nf)
    for out in V.run(DS + 't_eff', setup):
        if not out.no_raise():
            continue
        out.prove('effective-period-inverts-corner-displacement-relation', T.seq(out.result, st['T']), budget_ms=30000)


# ------------------------------------------------------------------------------------------- rolling average
AV = 'eqsig.fns.average.'


def _clamp(k, n):
    return max(0, min(n - 1, k))


@unit('C20', 'calc_roll_av_vals', functions=[AV + 'calc_roll_av_vals'],
      cases=[dict(mode=m, dtype=d) for m in ('forward', 'backward', 'centre', 'center') for d in ('float', 'int')],
      modes=('bounded',), sizes=dict(n=[1, 2, 3, 5], steps=[1, 2, 3, 4, 5]), thorough_sizes=dict(n=[1, 2, 3, 4, 5, 6, 7], steps=[1, 2, 3, 4, 5, 6, 7]))
def roll_av(V, mode, dtype):
    st = {}

    def setup():
        n = V.size('n', 1)
        steps = V.size('steps', 1)
        if steps > n:
            raise Skip()
        x = V.array('x', n, dtype)
        st.update(n=n, steps=steps, x=x)
        return dict(values=x, steps=steps, mode=mode)
    for out in V.run(AV + 'calc_roll_av_vals', setup):
        if not out.no_raise():
            continue
        n, steps, x = st['n'], st['steps'], st['x']
        r = out.result
        ok = hasattr(r, 'shape') and tuple(r.shape) == (n,)
        out.prove('length-kept', ok)
        if not ok:
            continue
        for i in range(n):
            if mode == 'forward':
                win = range(i, i + steps)
            elif mode == 'backward':
                win = range(i - steps + 1, i + 1)
            else:
                s = steps // 2
                win = range(i - s, i - s + steps)
            tot = 0
            for j in win:
                tot = T.sadd(tot, x[_clamp(j, n)])
            out.prove('window-mean-with-edge-replication[%d]' % i, T.seq(r[i], T.sdiv(tot, steps)))
        out.unchanged('x', x)


# ------------------------------------------------------------------------------------------- step function fit
def _mean(vals):
    tot = 0
    for v in vals:
        tot = T.sadd(tot, v)
    return T.sdiv(tot, len(vals))


def _dev(vals, m, p):
    tot = 0
    for v in vals:
        tot = T.sadd(tot, T.spow(T.sabs(T.ssub(v, m)), p))
    return tot


@unit('C20', 'calc_step_fn_vals_error', functions=[AV + 'calc_step_fn_vals_error'],
      cases=[dict(p=1, dtype='float'), dict(p=2, dtype='float'), dict(p=1, dtype='int'), dict(p=2, dtype='int')],
      modes=('bounded',), sizes=dict(n=[1, 2, 3, 4]), thorough_sizes=dict(n=[1, 2, 3, 4, 5, 6]))
def step_err(V, p, dtype):
    st = {}

    def setup():
        n = V.size('n', 1)
        x = V.array('x', n, dtype)
        st.update(n=n, x=x)
        return dict(values=x, pow=p)
    for out in V.run(AV + 'calc_step_fn_vals_error', setup):
        if not out.no_raise():
            continue
        n, x = st['n'], st['x']
        r = out.result
        ok = hasattr(r, 'shape') and tuple(r.shape) == (n,)
        out.prove('length-kept', ok)
        if not ok:
            continue
        xs = [x[i] for i in range(n)]
        for i in range(n - 1):
            pre, post = xs[:i + 1], xs[i + 1:]
            want = T.sadd(_dev(pre, _mean(pre), p), _dev(post, _mean(post), p))
            if dtype == 'int':
                # the result array has the input's dtype (np.ones_like): for integer records the value is truncated;
                # the property is stated for real data, integer records are only required not to crash
                continue
            out.prove('error-at-split-is-summed-deviation-from-own-means[%d]' % i, T.seq(r[i], want))
        if dtype != 'int':
            out.prove('last-entry-is-one-sided', T.seq(r[n - 1], _dev(xs, _mean(xs), p)))
        out.unchanged('x', x)


@unit('C20', 'calc_step_fn_steps_vals', functions=[AV + 'calc_step_fn_steps_vals'], modes=('bounded',),
      sizes=dict(n=[3, 4, 5], ind=[1, 2, 3]))
def step_vals(V):
    st = {}

    def setup():
        n = V.size('n', 3)
        ind = V.size('ind', 1)
        if ind >= n - 1:
            raise Skip()
        x = V.array('x', n)
        st.update(n=n, x=x, ind=ind)
        return dict(values=x, ind=ind)
    for out in V.run(AV + 'calc_step_fn_steps_vals', setup):
        if not out.no_raise():
            continue
        n, x, ind = st['n'], st['x'], st['ind']
        ok = isinstance(out.result, tuple) and len(out.result) == 2
        out.prove('returns-pair', ok)
        if ok:
            xs = [x[i] for i in range(n)]
            out.prove('pre-is-mean-before-split-sample', T.seq(out.result[0], _mean(xs[:ind])))
            out.prove('post-is-mean-after-split-sample', T.seq(out.result[1], _mean(xs[ind + 1:])))


# ------------------------------------------------------------------------------------------- interpolation helpers
GEN = 'eqsig.fns.generic.'


@unit('C20', 'interp_left', functions=[GEN + 'interp_left'],
      cases=[dict(form=f, with_y=w) for f in ('scalar', 'array') for w in (True, False)],
      modes=('bounded',), sizes=dict(m=[1, 2, 3, 4]))
def interp_left(V, form, with_y):
    st = {}

    def setup():
        m = V.size('m', 1)
        x = V.array('x', m)
        for k in range(m - 1):
            V.assume(T.sle(x[k], x[k + 1]))              # node set is monotone (non-decreasing)
        y = V.array('y', m) if with_y else None
        if form == 'scalar':
            q = V.real('q')
            V.assume(T.sge(q, x[0]))
            qs = [q]
            x0 = q
        else:
            qa = V.array('qs', 2)
            V.assume(T.sge(qa[0], x[0]), T.sge(qa[1], x[0]))
            qs = [qa[0], qa[1]]
            x0 = qa
        st.update(m=m, x=x, y=y, qs=qs)
        return dict(x0=x0, x=x, y=y)
    for out in V.run(GEN + 'interp_left', setup):
        if not out.no_raise():
            continue
        m, x, y, qs = st['m'], st['x'], st['y'], st['qs']
        r = out.result
        vals = [r] if form == 'scalar' else ([r[0], r[1]] if hasattr(r, 'shape') and tuple(r.shape) == (2,) else None)
        out.prove('result-shape', vals is not None and (form != 'scalar' or T.is_scalar(r)))
        if vals is None:
            continue
        for j, q in enumerate(qs):
            # greatest node not exceeding the query
            want = None
            for k in range(m):
                cand = y[k] if with_y else k
                want = cand if want is None else T.site(T.sle(x[k], q), cand, want)
            out.prove('value-at-greatest-node-not-exceeding-query[%d]' % j, T.seq(vals[j], want))
        out.unchanged('x', x)
        if with_y:
            out.unchanged('y', y)


@unit('C20', 'interp_left/assertion', functions=[GEN + 'interp_left'], modes=('bounded',), sizes=dict(m=[2]))
def interp_left_assert(V):
    def setup():
        m = V.size('m', 1)
        x = V.array('x', m)
        q = V.real('q')
        V.assume(T.slt(q, x[0]))
        return dict(x0=q, x=x)
    for out in V.run(GEN + 'interp_left', setup):
        out.prove('query-below-first-node-is-rejected', out.raised is not None and out.raised.kind == 'AssertionError')


@unit('C20', 'interp2d', functions=[GEN + 'interp2d'], modes=('bounded',), sizes=dict(m=[2, 3, 4], c=[1, 2]),
      thorough_sizes=dict(m=[2, 3, 4, 5], c=[1, 2, 3]), budget_ms=20000)
def interp2d(V):
    st = {}

    def setup():
        m, c = V.size('m', 2), V.size('c', 1)
        xf = V.array('xf', m)
        for k in range(m - 1):
            # strictly ascending nodes; spacing >= 1e-10 is a precondition derived from the code's divide-by-zero
            # guard np.clip(denom, 1e-10, None) (closer nodes are outside the helper's usable domain)
            V.assume(T.sge(T.ssub(xf[k + 1], xf[k]), Q('1e-10')))
        f = V.array('f', (m, c))
        x = V.array('x', 2)
        st.update(m=m, c=c, xf=xf, f=f, x=x)
        return dict(x=x, xf=xf, f=f)
    for out in V.run(GEN + 'interp2d', setup):
        if not out.no_raise():
            continue
        m, c, xf, f, x = st['m'], st['c'], st['xf'], st['f'], st['x']
        r = out.result
        ok = hasattr(r, 'shape') and tuple(r.shape) == (2, c)
        out.prove('shape-is-queries-by-columns', ok)
        if not ok:
            continue
        for qi in range(2):
            q = x[qi]
            for col in range(c):
                want = f[m - 1, col]                                            # q >= last node: clamped
                for k in range(m - 2, -1, -1):
                    t = T.sdiv(T.ssub(q, xf[k]), T.ssub(xf[k + 1], xf[k]))
                    lerp = T.sadd(f[k, col], T.smul(t, T.ssub(f[k + 1, col], f[k, col])))
                    want = T.site(T.slt(q, xf[k + 1]), lerp, want)
                want = T.site(T.sle(q, xf[0]), f[0, col], want)                 # q <= first node: clamped
                out.prove('column-wise-linear-interpolation-with-end-clamping[q%d,c%d]' % (qi, col), T.seq(r[qi, col], want))
        out.unchanged('x', x)
        out.unchanged('xf', xf)
        out.unchanged('f', f)


from pyvc.api import int_variant
int_variant('C20', 'calc_step_fn_steps_vals', ['x'])
int_variant('C20', 'interp_left', ['x', 'y'])
int_variant('C20', 'interp2d', ['f'])

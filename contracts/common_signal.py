"""Shared machinery for the object properties (C04 cache coherence, C05 ownership): symbolic Signal/AccSignal states that
satisfy the representation invariant by construction, cold clones ("a freshly constructed object with the same values,
dt and settings"), observation of every derived quantity through the REAL getters, and opaque (deterministic) summaries
for the numerical kernels whose value is irrelevant to cache coherence."""
import z3

from pyvc.api import summary, invariant
from pyvc import terms as T
from pyvc import arrays as A
from pyvc.arrays import CArr, BArr, is_arr
from pyvc.interp import ObjVal
from pyvc.terms import Q, N
from pyvc.np_util import fresh_array_fn

SIG = 'eqsig.single.Signal'
ASIG = 'eqsig.single.AccSignal'

READERS_SIGNAL = ['npts', 'time', 'fa_spectrum', 'fa_spectrum_abs', 'fa_freqs', 'fa_frequencies', 'smooth_fa_spectrum',
                  'smooth_fa_freqs', 'smooth_fa_frequencies', 'values', 'dt']
READERS_ACC = READERS_SIGNAL + ['velocity', 'displacement', 'pga', 'pgv', 'pgd', 's_a', 's_v', 's_d']


# ------------------------------------------------------------------------------------------ opaque summaries
def _opaque(itp, name, key_args, shape, dtype):
    return itp.lib.models.opaque_array(name, key_args, shape, dtype, assumed='%s summarised as a deterministic function of its arguments' % name)


def install_cache_summaries(V):
    """For the cache-coherence proofs only determinism of the heavy kernels matters: summarise them (per Verifier)."""
    itp = V.itp

    def pseudo_rs(itp_, motion, dt, periods, xi):
        periods_a = itp.lib.models.np_array(periods, dtype=itp.lib.builtin('float'))
        P = periods_a.shape[0]
        key = [motion, dt, periods_a, xi]
        return tuple(_opaque(itp, 'pseudo_rs_%s' % nm, key, (P,), 'float') for nm in ('sd', 'sv', 'sa'))
    itp.contracts['eqsig.sdof.pseudo_response_spectra'] = pseudo_rs

    def smooth(itp_, fa_frequencies, fa_spectrum, smooth_fa_frequencies=None, band=40):
        if smooth_fa_frequencies is None:
            raise T.EngineError('summary: smooth_fa_frequencies=None')
        sf = smooth_fa_frequencies if is_arr(smooth_fa_frequencies) else itp.lib.models.np_array(smooth_fa_frequencies)
        return _opaque(itp, 'konno_ohmachi', [fa_frequencies, fa_spectrum, sf, band], (sf.shape[0],), 'float')
    itp.contracts['eqsig.fns.frequency.calc_smooth_fa_spectrum'] = smooth

    def rseries(itp_, motion, dt, periods, xi):
        periods_a = itp.lib.models.np_array(periods, dtype=itp.lib.builtin('float'))
        P = periods_a.shape[0]
        n = A.alen(motion)
        key = [motion, dt, periods_a, xi]
        return tuple(_opaque(itp, 'resp_series_%s' % nm, key, (P, n), 'float') for nm in ('u', 'v', 'a'))
    itp.contracts['eqsig.sdof.response_series'] = rseries
    itp.contracts['eqsig.sdof.nigam_and_jennings_response'] = rseries

    def interp_dt(itp_, values, dt, target_dt=None, even=True):
        key = [values, dt, target_dt, even]
        m = T.fresh('interp_len', T.I)
        c = T.ctx()
        ck = ('interp_dt_len', A.canon_key(key))
        if ck in c.cache:
            m = c.cache[ck]
        else:
            c.cache[ck] = m
            c.fact(m >= 1)
        out = _opaque(itp, 'interp_to_dt_values', key, (m,), 'float')
        ndt = _opaque(itp, 'interp_to_dt_step', key, (1,), 'float')
        return out, ndt.at(0)
    itp.contracts['eqsig.fns.time_step.interp_array_to_approx_dt'] = interp_dt


# trivial (frame-only) loop invariants of the in-place mutators: the loops only fill arrays whose content is irrelevant here
for _qn, _k in [('eqsig.single.Signal.running_average', 1), ('eqsig.single.AccSignal.correct_me', 1),
                ('eqsig.single.AccSignal.remove_rolling_average', 1)]:
    invariant(_qn, _k)(lambda env, pre, k, lo, hi: [])


# ------------------------------------------------------------------------------------------------- states
def sym_array(V, name, n, dtype='float', origin='owned'):
    return V.array(name, n, dtype, origin=origin)


def ite_array(V, b, arr, junk_name):
    """Array equal to `arr` when b holds and arbitrary otherwise (encodes `flag -> cached == F(state)` by construction)."""
    arr = A.to_carr(arr) if isinstance(arr, BArr) else arr
    nd = len(arr.shape)
    junk = fresh_array_fn(junk_name, nd, arr.dtype)
    jshape = tuple(T.fresh(junk_name + '_len%d' % k, T.I) for k in range(nd))
    for s in jshape:
        V.assume(s >= 0)
    rd = arr.reader()
    shape = tuple(T.site(b, s, j) for s, j in zip(arr.shape, jshape))
    return CArr.from_fn(lambda *i: T.site(b, rd(*i), junk(*i)), shape, arr.dtype)


def cold_clone(V, o):
    """A freshly constructed object with the same values, dt and settings: built by the REAL constructor, so it carries no
    attribute the constructor does not create (a memoised field added by a later code change is absent here)."""
    itp = V.itp
    kw = {}
    sff = itp.get_attr(shallow(o), 'smooth_fa_freqs')
    kw['smooth_fa_freqs'] = sff
    if o.cls.name == 'AccSignal':
        kw['response_times'] = itp.get_attr(shallow(o), 'response_times')
    vals = o.attrs.get('_values')
    if not is_arr(vals):
        raise T.PyExc('TypeError', 'values of the signal is not an array (%s)' % type(vals).__name__)
    c = itp.call(o.cls, [vals, o.attrs.get('_dt')], kw)
    return c


def raw_cold(V, o):
    """Internal helper for make_state: same attributes, caches cold (used only to DEFINE F(state) before flags exist)."""
    c = ObjVal(o.cls)
    c.attrs = dict(o.attrs)
    c.attrs['_cached_fa'] = False
    c.attrs['_cached_smooth_fa'] = False
    for k in ('_fa_spectrum', '_fa_freqs'):
        c.attrs[k] = None
    if o.cls.name == 'AccSignal':
        c.attrs['_cached_response_spectra'] = False
        c.attrs['_cached_disp_and_velo'] = False
        c.attrs['_cached_params'] = {}
        for k in ('_s_a', '_s_v', '_s_d'):
            c.attrs[k] = None
    return c


def shallow(o):
    c = ObjVal(o.cls)
    c.attrs = dict(o.attrs)
    if isinstance(c.attrs.get('_cached_params'), dict):
        c.attrs['_cached_params'] = dict(c.attrs['_cached_params'])
    return c


def make_state(V, cls='AccSignal', values=None, prefix='', cold=False, dtype='float'):
    """Arbitrary state satisfying the representation invariant: symbolic flags; cached fields = ite(flag, F(state), junk)."""
    itp = V.itp
    klass = itp.get_function('eqsig.single.' + cls)
    n = z3.Int(prefix + 'n')
    V.inputs[prefix + 'n'] = ('int', n)
    V.assume(n >= 2)
    vals = values if values is not None else sym_array(V, prefix + 'vals', n, dtype)
    dt = V.real(prefix + 'dt')
    V.assume(dt > 0)
    m = z3.Int(prefix + 'm_smooth')
    V.assume(m >= 1)
    o = ObjVal(klass)
    o.attrs.update(_values=vals, _dt=dt, _npts=n, label='m1', verbose=0, ccbox=0,
                   _smooth_fa_freqs=sym_array(V, prefix + 'sff', m), _smooth_freq_range=sym_array(V, prefix + 'sfr', 2))
    if cls == 'AccSignal':
        P = z3.Int(prefix + 'P')
        V.assume(P >= 2)
        rt = sym_array(V, prefix + 'rt', P)
        # cache coherence does not depend on the numerical branch taken for a leading zero period: fix rt[0] > 0 here
        # (the T = 0 branch is the subject of C01/C03), which halves the number of symbolic paths
        V.assume(rt[0] > 0)
        V.itp.set_attr(o, 'response_times', rt)       # through the property setter when the class defines one
        o.attrs['_cached_xi'] = Q('0.05')
        for k in ('t_b01', 't_b05', 't_b10', 'a_rms01', 'a_rms05', 'a_rms10', 't_595', 'sd_start', 'sd_end', 'arias_intensity'):
            o.attrs[k] = Q(0)
    if cold:
        o.attrs.update(_cached_fa=False, _cached_smooth_fa=False, _fa_spectrum=None, _fa_freqs=None,
                       _smooth_fa_spectrum=sym_array(V, prefix + 'junk_sm0', m))
        if cls == 'AccSignal':
            o.attrs.update(_cached_response_spectra=False, _cached_disp_and_velo=False, _cached_params={}, _s_a=None, _s_v=None, _s_d=None,
                           _velocity=sym_array(V, prefix + 'junk_v0', n), _displacement=sym_array(V, prefix + 'junk_d0', n))
        return o
    # F(state): run the real generators on a cold clone
    cold = raw_cold(V, o)
    b_fa, b_sm = V.bool(prefix + 'cached_fa'), V.bool(prefix + 'cached_smooth_fa')
    fa = itp.get_attr(shallow(cold), 'fa_spectrum')
    faf = itp.get_attr(shallow(cold), 'fa_freqs')
    sm = itp.get_attr(shallow(cold), 'smooth_fa_spectrum')
    o.attrs.update(_cached_fa=b_fa, _cached_smooth_fa=b_sm,
                   _fa_spectrum=ite_array(V, b_fa, fa, prefix + 'junk_fa'), _fa_freqs=ite_array(V, b_fa, faf, prefix + 'junk_faf'),
                   _smooth_fa_spectrum=ite_array(V, b_sm, sm, prefix + 'junk_sm'))
    if cls == 'AccSignal':
        b_rs, b_vd = V.bool(prefix + 'cached_rs'), V.bool(prefix + 'cached_vd')
        c2 = shallow(cold)
        vel = itp.get_attr(c2, 'velocity')
        disp = itp.get_attr(c2, 'displacement')
        c3 = shallow(cold)
        sa, sv, sd = itp.get_attr(c3, 's_a'), itp.get_attr(c3, 's_v'), itp.get_attr(c3, 's_d')
        c4 = shallow(cold)
        peaks = {k: itp.get_attr(c4, k) for k in ('pga', 'pgv', 'pgd')}
        o.attrs.update(_cached_response_spectra=b_rs, _cached_disp_and_velo=b_vd,
                       _velocity=ite_array(V, b_vd, vel, prefix + 'junk_v'), _displacement=ite_array(V, b_vd, disp, prefix + 'junk_d'),
                       _s_a=ite_array(V, b_rs, sa, prefix + 'junk_sa'), _s_v=ite_array(V, b_rs, sv, prefix + 'junk_sv'),
                       _s_d=ite_array(V, b_rs, sd, prefix + 'junk_sd'),
                       # a present-and-correct entry is observationally the same as an absent one (the getter would compute it)
                       _cached_params=dict(peaks))
    return o


# -------------------------------------------------------------------------------------------- observation
def values_equal(V, a, b):
    """Goal term(s) for equality of two observed values (scalars, arrays by shape + Skolem element)."""
    if is_arr(a) and is_arr(b):
        if len(a.shape) != len(b.shape):
            return False
        shape_ok = T.sand(*[T.seq(x, y) for x, y in zip(a.shape, b.shape)])
        ks = [T.fresh('kq', T.I) for _ in a.shape]
        rngc = T.sand(*[T.sand(T.sle(0, k), T.slt(k, d)) for k, d in zip(ks, a.shape)])
        return T.sand(shape_ok, T.simplies(rngc, T.seq(a.at(*ks), b.at(*ks))))
    if is_arr(a) or is_arr(b):
        return False
    if isinstance(a, tuple) and isinstance(b, tuple):
        return len(a) == len(b) and T.sand(*[values_equal(V, x, y) for x, y in zip(a, b)])
    if a is None or b is None:
        return a is b
    return T.seq(a, b)


def observe(V, o, reader):
    """Read one derived quantity through the real getter (on a shallow copy: reads may rebind cache attributes)."""
    return V.itp.get_attr(shallow(o), reader)


def check_fresh_equivalence(V, out, o, readers, tag=''):
    """Every derived quantity of o equals what a freshly constructed object with the same values/dt/settings reports."""
    try:
        cold = cold_clone(V, o)
    except T.PyExc as e:
        out.prove('%sfresh-object-with-same-values-constructible[%s]' % (tag, e.kind), False)
        return
    for r in readers:
        try:
            got = observe(V, o, r)
        except T.PyExc as e:
            out.prove('%sread-%s-no-exception[%s]' % (tag, r, e.kind), False)
            continue
        want = observe(V, cold, r)
        out.prove('%s%s-equals-fresh-object' % (tag, r), values_equal(V, got, want))


def check_ownership(V, out, o, params=(), tag=''):
    """C05 representation clauses: values is a numeric array, length == npts, on a buffer no caller array shares."""
    vals = o.attrs.get('_values')
    out.prove('%svalues-is-numeric-array' % tag, is_arr(vals) and vals.dtype in ('float', 'int', 'complex', 'bool'))
    if not is_arr(vals):
        return
    out.prove('%snpts-equals-len-values' % tag, T.seq(o.attrs.get('_npts'), vals.shape[0]))
    for nm, p in params:
        if isinstance(p, CArr) and isinstance(vals, CArr):
            out.prove('%svalues-buffer-not-shared-with-argument-%s' % (tag, nm), vals.buf is not p.buf)
        if isinstance(p, CArr):
            out.prove('%sargument-%s-not-written' % (tag, nm), p.buf.version == 0)


def check_time_axis(V, out, o, tag=''):
    """time = dt * [0 .. npts-1]"""
    try:
        t = observe(V, o, 'time')
    except T.PyExc as e:
        out.prove('%stime-no-exception[%s]' % (tag, e.kind), False)
        return
    n, dt = o.attrs['_npts'], o.attrs['_dt']
    out.prove('%stime-has-npts-entries' % tag, is_arr(t) and len(t.shape) == 1 and T.seq(t.shape[0], n))
    if is_arr(t):
        k = T.fresh('kt', T.I)
        out.prove('%stime-is-dt-times-index' % tag, T.simplies(T.sand(T.sle(0, k), T.slt(k, n)), T.seq(t.at(k), T.smul(k, dt))))

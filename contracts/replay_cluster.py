"""Replay of Cluster obligations on the real eqsig.Cluster."""
import numpy as np


def replay_time_match(info, ce):
    """master delayed by each signal's lag; after time_match the compared windows must coincide with the master's"""
    import eqsig
    rng = np.random.RandomState(7)
    lags, master, steps = info['lags'], info['master'], info.get('steps', 2)
    for n, scale in ((6, 1.0), (9, 1.0), (40, 1.0), (9, 2.0 ** -24), (40, 2.0 ** -24), (40, 2.0 ** 20)):      # lag matching is scale free
        for trial in range(4):
            x = np.round(rng.randn(n) * 16) * scale / 16 if scale != 1.0 else rng.randn(n)
            arrs = []
            for lag in lags:
                sl = (np.round(rng.randn(n) * 16) * scale / 16) if scale != 1.0 else rng.randn(n)
                for i in range(n):
                    if 0 <= i - lag < n:
                        sl[i] = x[i - lag]
                arrs.append(sl)
            arrs.insert(master, x.copy())
            c = eqsig.Cluster([a.copy() for a in arrs], 0.5, master_index=master)
            try:
                c.time_match(steps=steps)
            except Exception as e:
                return dict(status='confirmed', observed={'raises': type(e).__name__, 'message': str(e)[:200]}, detail='time_match raised on a valid cluster',
                            input={'signals': [a.tolist() for a in arrs], 'master_index': master, 'steps': steps})
            w = n - steps
            bad = []
            for j in range(len(arrs)):
                v = np.asarray(c.values_by_index(j))
                if v.shape != (n,):
                    bad.append('signal %d has shape %s' % (j, v.shape))
                elif j == master:
                    if not np.array_equal(v, x):
                        bad.append('master changed')
                else:
                    tol = 1e-12 * scale
                    ok = np.allclose(v[:w], x[:w], rtol=0, atol=tol) or any(np.allclose(v[s:s + w], x[s:s + w], rtol=0, atol=tol) for s in range(1, steps))
                    if not ok:
                        bad.append('signal %d (lag %d) does not coincide with the master on the compared window' % (j, ([None] * 0 + [l for l in lags])[j - (1 if j > master else 0)]))
            if bad:
                return dict(status='confirmed', observed={'problems': bad}, detail='Cluster.time_match(steps=%d), lags=%s, master_index=%d: %s' % (steps, lags, master, bad),
                            input={'signals': [a.tolist() for a in arrs], 'master_index': master, 'steps': steps})
    return dict(status='not-reproduced', detail='time_match aligned every signal on the battery (lags=%s, master=%d)' % (lags, master))


def replay_well_formed(info, ce):
    """two-signal cluster, second record `extra` samples longer and lagging by `lag`: after the cluster-level mutator every signal's values
    is a numeric 1-d ndarray whose length equals npts, time == dt*arange(npts), and the caller's arrays are unchanged"""
    import eqsig
    rng = np.random.RandomState(11)
    lag, master, extra, which = info['lag'], info['master'], info['extra'], info['which']
    dtype = int if info.get('dtype') == 'int' else float
    for n in (6, 12, 50):
        x = (rng.randn(n) * 10).astype(dtype)
        y = (rng.randn(n + extra) * 10).astype(dtype)
        for i in range(n + extra):
            if 0 <= i - lag < n:
                y[i] = x[i - lag]
        arrs = [x, y] if master == 0 else [y, x]
        keep = [a.copy() for a in arrs]
        c = eqsig.Cluster(arrs, 0.5, master_index=master)
        try:
            if which == 'time_match':
                c.time_match(steps=2)
            else:
                c.same_start()
        except Exception as e:
            return dict(status='confirmed', observed={'raises': type(e).__name__, 'message': str(e)[:200]}, detail='%s raised on a valid cluster' % which,
                        input={'signals': [a.tolist() for a in keep], 'master_index': master})
        bad = []
        for j in range(2):
            sg = c.signal_by_index(j)
            v = sg.values
            if not isinstance(v, np.ndarray) or v.ndim != 1 or v.dtype.kind not in 'fiu':
                bad.append('signal %d: values is %s' % (j, type(v).__name__))
                continue
            if len(v) != sg.npts:
                bad.append('signal %d: len(values)=%d but npts=%d' % (j, len(v), sg.npts))
            t = np.asarray(sg.time)
            if t.shape != (len(v),) or not np.allclose(t, sg.dt * np.arange(len(v))):
                bad.append('signal %d: time has %d entries for %d values' % (j, len(t), len(v)))
            if not np.array_equal(arrs[j], keep[j]):
                bad.append('caller array %d was modified' % j)
        if bad:
            return dict(status='confirmed', observed={'problems': bad}, detail='Cluster.%s, second record %d samples longer, lag %d, master_index=%d: %s' % (which, extra, lag, master, bad),
                        input={'signals': [a.tolist() for a in keep], 'master_index': master, 'dt': 0.5})
    return dict(status='not-reproduced', detail='every signal stays well formed on the battery (%s, lag=%d, extra=%d, master=%d)' % (which, lag, extra, master))


def replay(info, ce):
    import eqsig
    if info.get('op') == 'time_match':
        return replay_time_match(info, ce)
    if info.get('op') == 'well-formed':
        return replay_well_formed(info, ce)
    rng = np.random.RandomState(3)
    k, master, n = info['k'], info['master'], info.get('n', 40)
    arrs = [rng.randn(n) + 3 * j for j in range(k)]
    c = eqsig.Cluster([a.copy() for a in arrs], 0.5, master_index=master)
    if info['op'] == 'same_start':
        win = info.get('window', [0, 1])
        if win is None:
            c.same_start()
            win = [0, 1]
        else:
            c.same_start(start=win[0], end=win[1])
        lo, hi = int(win[0] / 0.5), int(win[1] / 0.5) + 1
        m_avg = float(np.mean(c.values_by_index(master)[lo:hi]))
        bad = []
        for j in range(k):
            v = np.asarray(c.values_by_index(j))
            if j == master:
                if not np.allclose(v, arrs[j]):
                    bad.append('master %d changed' % j)
            elif abs(float(np.mean(v[lo:hi])) - m_avg) > 1e-9:
                bad.append('signal %d section average %.6g != master %.6g' % (j, float(np.mean(v[lo:hi])), m_avg))
        return dict(status='confirmed' if bad else 'not-reproduced', observed={'problems': bad},
                    detail='Cluster of %d signals, master_index=%d, same_start over the window %s s (dt = 0.5): %s' % (k, master, info.get('window', 'default'), bad or 'all aligned'))
    return dict(status='not-replayable', detail='no replay for ' + info['op'])

"""Replay of Cluster obligations on the real eqsig.Cluster."""
import numpy as np


def replay(info, ce):
    import eqsig
    rng = np.random.RandomState(3)
    k, master, n = info['k'], info['master'], info.get('n', 40)
    arrs = [rng.randn(n) + 3 * j for j in range(k)]
    c = eqsig.Cluster([a.copy() for a in arrs], 0.5, master_index=master)
    if info['op'] == 'same_start':
        c.same_start(start=0, end=1)
        m_avg = float(np.mean(c.values_by_index(master)[:3]))
        bad = []
        for j in range(k):
            v = np.asarray(c.values_by_index(j))
            if j == master:
                if not np.allclose(v, arrs[j]):
                    bad.append('master %d changed' % j)
            elif abs(float(np.mean(v[:3])) - m_avg) > 1e-9:
                bad.append('signal %d section average %.6g != master %.6g' % (j, float(np.mean(v[:3])), m_avg))
        return dict(status='confirmed' if bad else 'not-reproduced', observed={'problems': bad},
                    detail='Cluster of %d signals, master_index=%d, same_start(start=0, end=1): %s' % (k, master, bad or 'all aligned'))
    return dict(status='not-replayable', detail='no replay for ' + info['op'])

"""Concrete oracle for calc_sig_dur (C10) on the real code: start/end are dt times the first/last index whose cumulative measure
lies STRICTLY between the fractions of its final value, for the measure requested in THIS call -- also when the same AccSignal
has already been asked with another measure."""
import numpy as np


def replay(info, ce):
    import eqsig
    from eqsig import im as IM
    se, which, pre = info.get('se', True), info.get('im', 'arias'), info.get('pre', 'fresh')
    ssq = lambda s: np.cumsum(np.asarray(s.values) ** 2) * s.dt          # a user-supplied cumulative measure
    cav = lambda s: IM.calc_cav(s)
    rng = np.random.RandomState(9)
    recs = []
    for n in (40, 200):
        t = np.arange(n) * 0.02
        recs.append(rng.randn(n))
        recs.append(np.concatenate([5 * rng.randn(n // 8), 0.05 * rng.randn(n - n // 8)]))     # strong pulse, long weak tail
        recs.append(np.sin(2 * np.pi * 1.5 * t) * np.exp(-t))
    for x in recs:
        for (a, b) in ((0.05, 0.95), (0.05, 0.75), (0.2, 0.6)):
            s = eqsig.AccSignal(x.copy(), 0.02)
            hist = []
            if pre != 'fresh':
                first = dict(im=None) if which == 'custom' else dict(im=cav)
                try:
                    IM.calc_sig_dur(s, 0.1, 0.9, se=False, **first)
                except Exception:
                    pass
                hist.append('calc_sig_dur(s, 0.1, 0.9, im=%s)' % ('None (Arias)' if which == 'custom' else 'calc_cav'))
            kw = dict(im=None) if which == 'arias' else dict(im=ssq)
            try:
                got = IM.calc_sig_dur(s, a, b, se=se, **kw)
            except Exception as e:
                return dict(status='confirmed', observed={'raises': type(e).__name__}, detail='calc_sig_dur raised on a valid record', input={'values': x.tolist(), 'dt': 0.02, 'history': hist})
            ref = IM.calc_arias_intensity(eqsig.AccSignal(x.copy(), 0.02)) if which == 'arias' else ssq(eqsig.AccSignal(x.copy(), 0.02))
            idx = np.flatnonzero((ref > a * ref[-1]) & (ref < b * ref[-1]))
            want = (idx[0] * 0.02, idx[-1] * 0.02)
            want_v = want if se else want[1] - want[0]
            if not np.allclose(np.asarray(got, dtype=float), np.asarray(want_v, dtype=float), rtol=0, atol=1e-12):
                hist.append('calc_sig_dur(s, %g, %g, im=%s, se=%s)' % (a, b, 'None (Arias)' if which == 'arias' else 'running sum of squares', se))
                return dict(status='confirmed', observed={'got': np.asarray(got, dtype=float).tolist(), 'expected_for_the_requested_measure': np.asarray(want_v, dtype=float).tolist()},
                            detail='significant duration is not that of the requested measure', input={'values': x.tolist(), 'dt': 0.02, 'history': hist})
    return dict(status='not-reproduced', detail='calc_sig_dur returns the crossings of the requested measure on the battery (pre=%s, im=%s)' % (pre, which))

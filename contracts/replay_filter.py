"""Concrete oracle for Signal.butter_pass (C17) on the real code: length and dt preserved, the caller's cut-off container not
modified, the output equal to SciPy's filtfilt(butter(order, cut/nyquist, type)) of the record (no Gibbs padding) and the same
whether the cut-off container is fresh or REUSED from an earlier call."""
import numpy as np


def _mk(kind, lo, hi):
    if kind == 'band-tuple':
        return (lo, hi), 'band'
    if kind == 'band-list':
        return [lo, hi], 'band'
    if kind == 'band-ndarray':
        return np.array([lo, hi]), 'band'
    if kind == 'low':
        return (None, hi), 'low'
    return (lo, None), 'high'


def replay_running_average(info, ce):
    """each sample becomes the mean of the ORIGINAL samples within floor(w/2) positions (record of the model first, then a battery
    of the same element type)"""
    import eqsig
    dtype = int if info.get('dtype') == 'int' else float
    cases = []
    try:
        inp = ce['inputs']
        cases.append((np.array([v['f'] if isinstance(v, dict) else v for v in inp['a']], dtype=dtype), int(inp['w'])))
    except Exception:
        pass
    rng = np.random.RandomState(1)
    for n in (3, 10, 41):
        for w in (1, 2, 3, 4, 7):
            if w <= n:
                cases.append(((rng.randn(n) * 20).astype(dtype), w))
    for x, w in cases:
        s = eqsig.Signal(x.copy(), 0.125)
        try:
            s.running_average(w)
        except Exception as e:
            return dict(status='confirmed', observed={'raises': type(e).__name__}, detail='running_average raised on a valid record', input={'values': x.tolist(), 'width': w})
        got = np.asarray(s.values, dtype=float)
        h = w // 2
        want = np.array([np.mean(x[max(0, i - h):i + h + 1].astype(float)) for i in range(len(x))])
        if got.shape != want.shape or np.max(np.abs(got - want)) > 1e-12 * max(1.0, np.max(np.abs(want))):
            return dict(status='confirmed', observed={'got': got.tolist(), 'window_means_of_the_original': want.tolist()},
                        detail='running_average(%d) does not return the window means of the original %s samples' % (w, x.dtype), input={'values': x.tolist(), 'dtype': str(x.dtype), 'width': w})
        if not np.array_equal(x, x):
            pass
    return dict(status='not-reproduced', detail='running_average returns the window means on %d records' % len(cases))


def replay_after_earlier_request(info, cls, kind, gibbs):
    """two-call history: ANOTHER signal is filtered first (same kind of request, or the kind named in history_case, with the same
    cut-off frequencies / order), then the request under test is made; its output must still be SciPy's filter of ITS request"""
    import eqsig
    from scipy.signal import butter, filtfilt
    hc = info.get('history_case') or ''
    prior_kinds = [hc.split('=', 1)[1]] if hc.startswith('cut=') else [kind]
    prior_gibbs = gibbs
    if hc.startswith('gibbs='):
        prior_gibbs = None if hc.split('=', 1)[1] == 'None' else hc.split('=', 1)[1]
    prior_cls = getattr(eqsig, hc.split('=', 1)[1]) if hc.startswith('cls=') else cls
    rng = np.random.RandomState(9)
    for pk in prior_kinds:
        for n in (200, 513):
            for dt in (0.01, 0.05):
                for order in (3,):
                    for lo, hi in ((2.0, 2.0), (0.5, 5.0)):
                        if lo == hi and ('band' in kind or 'band' in pk):
                            continue
                        x0, x = rng.randn(n), rng.randn(n)
                        for m in [m for m in list(__import__('sys').modules) if m == 'eqsig' or m.startswith('eqsig.')]:
                            pass
                        s0 = prior_cls(x0, dt)
                        kw0 = dict(filter_order=order)
                        if prior_gibbs is not None:
                            kw0.update(remove_gibbs=prior_gibbs)
                        try:
                            s0.butter_pass(cut_off=_mk(pk, lo, hi)[0], **kw0)
                        except Exception:
                            continue
                        cut, ftype = _mk(kind, lo, hi)
                        kw = dict(filter_order=order)
                        if gibbs is not None:
                            kw.update(remove_gibbs=gibbs)
                        s = cls(x.copy(), dt)
                        s.butter_pass(cut_off=cut, **kw)
                        # reference: the same request on an object of a process state that has seen no other request is not available
                        # in-process, so the reference is SciPy itself (no Gibbs padding) or a second identical request (with padding)
                        nyq = 0.5 / dt
                        wn = {'band': [lo / nyq, hi / nyq], 'low': hi / nyq, 'high': lo / nyq}[ftype]
                        if gibbs is None:
                            b, a = butter(order, wn, btype=ftype)
                            ref = filtfilt(b, a, x)
                            got = np.asarray(s.values)
                            if got.shape != ref.shape or np.max(np.abs(got - ref)) > 1e-9 * max(1.0, np.max(np.abs(ref))):
                                return dict(status='confirmed', observed={'max_difference_from_scipy_reference': float(np.max(np.abs(got - ref))) if got.shape == ref.shape else 'shape'},
                                            detail='after an earlier %s request on another signal (same cut-off frequency and order) the %s request is not '
                                                   'filtfilt(butter(order, cut/nyquist, %s)) of its record' % (pk, kind, ftype),
                                            input={'history': ['other.butter_pass(%r, filter_order=%d)' % (_mk(pk, lo, hi)[0], order), 'sig.butter_pass(%r, filter_order=%d)' % (cut, order)],
                                                   'n': n, 'dt': dt, 'values_seed': 9})
    return None


def replay_remove_poly(info, ce):
    """detrending is scale free: the residual is the record minus its least-squares polynomial of degree k -- orthogonal to 1..x^k --
    for records of ANY amplitude (battery: amplitude ~1 and the same records scaled by 1e-9 and 1e6)"""
    import eqsig
    from eqsig.fns import generic
    deg, level = int(info.get('deg', 1)), info.get('level', 'object')
    rng = np.random.RandomState(2)
    for n in (deg + 2, 12, 60):
        t = np.linspace(0, 1, n)
        base = rng.randn(n) + 2.0 + 3.0 * t - 4.0 * t ** 2 + 1.5 * t ** 3
        for scale in (1.0, 1e-9, 1e6):
            x = base * scale
            if level == 'object':
                s = eqsig.Signal(x.copy(), 0.01)
                s.remove_poly(poly_fit=deg)
                res = np.asarray(s.values)
            else:
                res = np.asarray(generic.remove_poly(x.copy(), poly_fit=deg))
            want = x - np.polyval(np.polyfit(t, x, deg), t)
            if res.shape != want.shape or np.max(np.abs(res - want)) > 1e-8 * np.max(np.abs(x)):
                return dict(status='confirmed', observed={'max_difference_relative_to_amplitude': float(np.max(np.abs(res - want)) / np.max(np.abs(x))) if res.shape == want.shape else 'shape'},
                            detail='remove_poly(degree %d) of a record of amplitude ~%g is not the record minus its least-squares polynomial' % (deg, np.max(np.abs(x))),
                            input={'n': n, 'scale': scale, 'degree': deg, 'level': level, 'seed': 2})
    return dict(status='not-reproduced', detail='remove_poly subtracts the least-squares polynomial on the battery (three amplitude scales)')


def replay(info, ce):
    import eqsig
    from scipy.signal import butter, filtfilt
    if info.get('op') == 'running_average':
        return replay_running_average(info, ce)
    if info.get('op') == 'remove_poly':
        return replay_remove_poly(info, ce)
    cls = getattr(eqsig, info.get('cls', 'AccSignal'))
    kind, gibbs = info.get('cut', 'band-tuple'), info.get('gibbs')
    if info.get('history') == 'prior':
        r = replay_after_earlier_request(info, cls, kind, gibbs)
        if r is not None:
            return r
    rng = np.random.RandomState(4)
    for n in (200, 513):
        for dt in (0.01, 0.05):
            for order in (1, 3, 4):
                lo, hi = 0.5, 5.0
                x = rng.randn(n)
                cut, ftype = _mk(kind, lo, hi)
                kw = dict(filter_order=order)
                if gibbs is not None:
                    kw.update(remove_gibbs=gibbs)
                outs = []
                for call in range(2):                     # the same container object is used twice
                    s = cls(x.copy(), dt)
                    try:
                        s.butter_pass(cut_off=cut, **kw)
                    except Exception as e:
                        return dict(status='confirmed', observed={'raises': type(e).__name__, 'message': str(e)[:200]},
                                    detail='butter_pass raised on call %d with a valid %s cut-off' % (call + 1, kind), input={'n': n, 'dt': dt, 'order': order, 'cut_off': repr(cut)})
                    now = [None if c is None else float(c) for c in cut]
                    want = [None if c is None else float(c) for c in _mk(kind, lo, hi)[0]]
                    if now != want:
                        return dict(status='confirmed', observed={'cut_off_after_call': now, 'requested': want},
                                    detail='butter_pass modified the caller\'s %s cut-off container' % type(cut).__name__, input={'n': n, 'dt': dt, 'order': order, 'cut_off': want, 'remove_gibbs': gibbs})
                    v = np.asarray(s.values)
                    if v.shape != (n,) or s.npts != n or s.dt != dt:
                        return dict(status='confirmed', observed={'shape': list(v.shape), 'npts': s.npts, 'dt': s.dt}, detail='length or time step not preserved',
                                    input={'n': n, 'dt': dt, 'order': order, 'cut_off': want, 'remove_gibbs': gibbs})
                    outs.append(v)
                if np.max(np.abs(outs[0] - outs[1])) > 1e-12 * max(1.0, np.max(np.abs(outs[0]))):
                    return dict(status='confirmed', observed={'max_difference': float(np.max(np.abs(outs[0] - outs[1])))},
                                detail='the same cut-off container gives a different result on its second use', input={'n': n, 'dt': dt, 'order': order, 'remove_gibbs': gibbs})
                if gibbs is None:
                    nyq = 0.5 / dt
                    wn = {'band': [lo / nyq, hi / nyq], 'low': hi / nyq, 'high': lo / nyq}[ftype]
                    b, a = butter(order, wn, btype=ftype)
                    ref = filtfilt(b, a, x)
                    if np.max(np.abs(outs[0] - ref)) > 1e-9 * max(1.0, np.max(np.abs(ref))):
                        return dict(status='confirmed', observed={'max_difference': float(np.max(np.abs(outs[0] - ref)))},
                                    detail='output is not filtfilt(butter(order, cut/nyquist, %s)) of the record' % ftype, input={'n': n, 'dt': dt, 'order': order})
    return dict(status='not-reproduced', detail='butter_pass behaves as specified on the battery (cut=%s, remove_gibbs=%s)' % (kind, gibbs))

"""Concrete oracle for the object-level Fourier spectrum of C06: Signal/AccSignal.gen_fa_spectrum / fa_spectrum / fa_frequencies
against numpy's DFT of the zero-padded (or truncated) record, on the model's sizes when it has some and on a small battery of the
SAME case (class, request kind, and the earlier request already held by the object)."""
import numpy as np


def want(x, dt, N):
    pad = np.zeros(N)
    m = min(N, len(x))
    pad[:m] = x[:m]
    F = np.fft.fft(pad)
    half = N // 2
    return F[:half] * dt, np.arange(half) / (N * dt)


def replay_max_fa_period(info, ce):
    """the reported period must be 1/f of a bin of largest AMPLITUDE |F_k| of the object's own spectrum"""
    import eqsig
    from eqsig import im
    rng = np.random.RandomState(6)
    tried = 0
    for n in (2, 8, 16, 33, 64, 200):
        for trial in range(6):
            x = rng.randn(n)
            x -= np.mean(x)
            if trial == 4:
                x = x + 10.0                    # record that has not been baseline corrected: the zero-frequency bin is the largest one
            if trial % 2:
                t = np.arange(n) * 0.02
                x = np.sin(2 * np.pi * (1.0 + trial) * t + 0.3 * trial * np.pi) + 0.05 * rng.randn(n)      # phase decides the real part
            a = eqsig.AccSignal(x, 0.02)
            with np.errstate(all='ignore'):
                try:
                    got = im.max_fa_period(a)
                except Exception as e:
                    return dict(status='confirmed', observed={'raises': type(e).__name__, 'message': str(e)[:200]},
                                detail='max_fa_period raised %s on a valid record of %d samples' % (type(e).__name__, n), input={'values': x.tolist(), 'dt': 0.02})
                amp = np.abs(a.fa_spectrum)
                best = np.flatnonzero(amp >= amp.max() * (1 - 1e-12))
                want = [(1.0 / a.fa_frequencies[k]) if a.fa_frequencies[k] != 0 else float('inf') for k in best]
            tried += 1
            if not any(got == w or abs(got - w) <= 1e-12 * abs(w) for w in want):
                return dict(status='confirmed', observed={'reported_period': float(got), 'period_of_largest_amplitude_bin': [float(w) for w in want]},
                            detail='max_fa_period reports %.6g but the largest-amplitude bin has period %s' % (got, want), input={'values': x.tolist(), 'dt': 0.02})
    return dict(status='not-reproduced', detail='max_fa_period reports the largest-amplitude bin on %d battery records' % tried)


def replay_round_trip(info, ce):
    """inverse helper: reconstructs the padded record minus mean and Nyquist component and leaves the spectrum it was given (the
    object's own cached spectrum) untouched"""
    import eqsig
    from eqsig.fns import frequency as fr
    rng = np.random.RandomState(13)
    for n in (4, 5, 8, 13, 16, 100):
        for off in (0.0, 2.5):
            x = rng.randn(n) + off
            for dt in (0.01, 0.5):
                s = eqsig.Signal(x.copy(), dt)
                before = np.array(s.fa_spectrum, copy=True)
                if info.get('via') == 'fas2values':
                    rec = np.asarray(fr.fas2values(s.fa_spectrum, dt))
                else:
                    rec = np.asarray(fr.fas2signal(s.fa_spectrum, dt).values)
                N = 2 * len(before)
                pad = np.zeros(N)
                pad[:n] = x
                want = pad - np.mean(pad) - np.mean(pad * (-1.0) ** np.arange(N)) * (-1.0) ** np.arange(N)
                inp = {'values': x.tolist(), 'dt': dt, 'history': ['F = s.fa_spectrum', '%s(F, dt)' % info.get('via'), 's.fa_spectrum']}
                if not np.allclose(np.asarray(s.fa_spectrum), before, rtol=0, atol=1e-14 * max(1.0, np.max(np.abs(before)))):
                    return dict(status='confirmed', observed={'bin0_before': str(before[0]), 'bin0_after': str(np.asarray(s.fa_spectrum)[0])},
                                detail='the inverse helper modified the spectrum it was given: the object no longer reports dt x DFT of its record', input=inp)
                if rec.shape != want.shape or np.max(np.abs(rec - want)) > 1e-9 * max(1.0, np.max(np.abs(want))):
                    return dict(status='confirmed', observed={'max_abs_error': float(np.max(np.abs(rec - want))) if rec.shape == want.shape else 'shape'},
                                detail='reconstruction is not the padded record minus its mean and Nyquist component', input=inp)
    return dict(status='not-reproduced', detail='inverse helper reconstructs the record and leaves its argument alone on the battery')


def replay_round_trip_n(info, ce):
    """inverse helper on a spectrum requested with an explicit n (even, mostly not a power of two): all n samples of the padded record
    minus its mean and Nyquist component come back"""
    import eqsig
    from eqsig.fns import frequency as fr
    rng = np.random.RandomState(17)
    ns = sorted({int(info.get('N', 6)), 6, 10, 12, 14, 18, 28, 36, 100, 600})
    for N in ns:
        for short in (1, 3):
            x = rng.randn(N - short) + 1.5
            dt = 0.5
            s = eqsig.Signal(x.copy(), dt)
            fas = fr.calc_fa_spectrum(s, n=N)[0]
            if info.get('via') == 'fas2values':
                rec = np.asarray(fr.fas2values(fas, dt))
            else:
                rec = np.asarray(fr.fas2signal(fas, dt).values)
            pad = np.zeros(N)
            pad[:len(x)] = x
            sg = (-1.0) ** np.arange(N)
            want = pad - np.mean(pad) - np.mean(pad * sg) * sg
            inp = {'values': x.tolist(), 'dt': dt, 'n': N, 'history': ['F = calc_fa_spectrum(s, n=%d)[0]' % N, '%s(F, dt)' % info.get('via')]}
            if rec.shape != want.shape:
                return dict(status='confirmed', observed={'returned_samples': int(rec.shape[0]), 'padded_length': N},
                            detail='the inverse helper returns %d samples for a spectrum of the record padded to n=%d' % (rec.shape[0], N), input=inp)
            if np.max(np.abs(rec - want)) > 1e-9 * max(1.0, np.max(np.abs(want))):
                return dict(status='confirmed', observed={'max_abs_error': float(np.max(np.abs(rec - want)))},
                            detail='reconstruction is not the padded record minus its mean and Nyquist component (n=%d)' % N, input=inp)
    return dict(status='not-reproduced', detail='inverse helper returns all n samples of the padded record (minus mean and Nyquist) for n in %s' % ns)


def replay_array(info, ce):
    """array-level functions: generate_fa_spectrum(sig, n_pad) / calc_fa_spectrum(sig, n=, p2_plus=) against numpy's DFT of the padded record"""
    import eqsig
    from eqsig.fns import frequency as fr
    fn, how, p = info.get('fn'), info.get('how'), info.get('p')
    rng = np.random.RandomState(4)
    tried = 0
    for cls in (eqsig.Signal, eqsig.AccSignal):
        for n in (3, 5, 8, 12, 16, 33, 300):
            x = rng.randn(n)
            for dt in (0.01, 0.25):
                nd = 2 ** int(np.ceil(np.log2(n)))
                if how == 'padded':
                    reqs = [(dict(n_pad=True), nd)]
                elif how == 'unpadded':
                    reqs = [(dict(n_pad=False) if fn == 'generate_fa_spectrum' else {}, n)]
                elif how == 'p2_plus':
                    reqs = [(dict(p2_plus=p), nd * 2 ** p)]
                else:
                    reqs = [(dict(n=N), N) for N in (2, 3, n, n + 1, nd, 2 * nd + 1)]
                for kw, N in reqs:
                    sig = cls(x.copy(), dt)
                    try:
                        fa, fq = getattr(fr, fn)(sig, **kw)
                    except Exception as e:
                        return dict(status='confirmed', detail='%s(%s) raised %s: %s' % (fn, kw, type(e).__name__, e), input={'values': x.tolist(), 'dt': dt, 'kwargs': kw})
                    tried += 1
                    wfa, wfr = want(x, dt, N)
                    bad = None
                    if np.shape(fa) != wfa.shape or np.shape(fq) != wfr.shape:
                        bad = 'half-spectrum length %s / %s, expected %d (N=%d)' % (np.shape(fa), np.shape(fq), N // 2, N)
                    elif np.max(np.abs(fa - wfa)) > 1e-9 * max(1.0, np.max(np.abs(wfa))):
                        bad = 'spectrum is not dt*DFT of the record padded to N=%d' % N
                    elif np.max(np.abs(fq - wfr)) > 1e-9 * max(1.0, np.max(np.abs(wfr))):
                        bad = 'frequency grid is not k/(N*dt) for N=%d' % N
                    if bad:
                        return dict(status='confirmed', detail='%s(sig, %s), npts=%d: %s' % (fn, kw, n, bad), observed={'class': cls.__name__},
                                    input={'values': x.tolist(), 'dt': dt, 'kwargs': kw})
    return dict(status='not-reproduced', detail='%s equals dt*DFT of the padded record on %d battery calls' % (fn, tried))


def replay(info, ce):
    import eqsig
    if info.get('op') == 'array':
        return replay_array(info, ce)
    if info.get('op') == 'round_trip':
        return replay_round_trip(info, ce)
    if info.get('op') == 'round_trip_n':
        return replay_round_trip_n(info, ce)
    if info.get('op') == 'max_fa_period':
        return replay_max_fa_period(info, ce)
    cls = getattr(eqsig, info.get('cls', 'Signal'))
    how, pre = info.get('how', 'default'), info.get('pre', 'fresh')
    rng = np.random.RandomState(3)
    sizes = [5, 12, 16, 33]
    try:
        n0 = int(ce['inputs']['n'])
        if 2 <= n0 <= 4096:
            sizes.insert(0, n0)
    except Exception:
        pass
    tried = 0
    for n in sizes:
        x = rng.randn(n)
        for dt in (0.01, 0.25):
            nd = 2 ** int(np.ceil(np.log2(n)))
            if how == 'p2_plus':
                reqs = [(dict(p2_plus=p), nd * 2 ** p) for p in (0, 1, 2, 3)]
            elif how == 'n-even':
                reqs = [(dict(n=N), N) for N in (2, n + (n % 2), nd, nd + 2, 2 * nd)]
            elif how == 'n-odd':
                reqs = [(dict(n=N), N) for N in (3, n + 1 - (n % 2), nd + 1, nd - 1, 2 * nd + 1)]
            else:
                reqs = [({}, nd)]
            for kw, N in reqs:
                pres = [None] if pre == 'fresh' else [2, N - 1, N, N + 1, 2 * N, 2 * N + 1, nd, nd + 1]
                for N0 in pres:
                    if N0 is not None and N0 < 2:
                        continue
                    s = cls(x.copy(), dt)
                    hist = []
                    if N0 is not None:
                        s.gen_fa_spectrum(n=N0)
                        hist.append('gen_fa_spectrum(n=%d)' % N0)
                    if how != 'lazy':
                        s.gen_fa_spectrum(**kw)
                        hist.append('gen_fa_spectrum(%s)' % ', '.join('%s=%s' % kv for kv in kw.items()))
                    fa, fr = s.fa_spectrum, s.fa_frequencies
                    tried += 1
                    wfa, wfr = want(x, dt, N)
                    bad = None
                    if np.shape(fa) != wfa.shape or np.shape(fr) != wfr.shape:
                        bad = 'half-spectrum length %s / %s, expected %d' % (np.shape(fa), np.shape(fr), N // 2)
                    elif np.max(np.abs(fa - wfa)) > 1e-9 * max(1.0, np.max(np.abs(wfa))):
                        bad = 'spectrum is not dt*DFT of the record padded to N=%d (max abs error %.3g)' % (N, np.max(np.abs(fa - wfa)))
                    elif np.max(np.abs(fr - wfr)) > 1e-9 * max(1.0, np.max(np.abs(wfr))):
                        bad = 'frequency grid is not k/(N*dt) for N=%d (got[1]=%r expected[1]=%r)' % (N, fr[1] if len(fr) > 1 else None, wfr[1] if len(wfr) > 1 else None)
                    if bad:
                        return dict(status='confirmed', detail=bad, observed={'history': hist, 'class': cls.__name__},
                                    input={'values': x.tolist(), 'dt': dt, 'history': hist})
    return dict(status='not-reproduced', detail='object-level spectrum equals dt*DFT of the padded record on %d battery histories' % tried)

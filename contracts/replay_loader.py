"""Replay of C16 counter-models on the real loader: save the model's record to a real temporary file and load it back."""
import os
import tempfile

import numpy as np


def _num(v):
    if isinstance(v, dict) and 'f' in v:
        return float(v['f'])
    return float(v)


def replay(info, ce):
    import eqsig
    from eqsig import loader
    inp = (ce or {}).get('inputs', {})
    x = np.array([_num(v) for v in inp.get('x', [0.5, -0.25])], dtype=float)
    dt = _num(inp.get('dt', 1.0))
    m = _num(inp.get('m', 1.0)) if info['entry'].endswith('/m') else 1.0
    labels = [info['label']] if info.get('label') is not None else ['a label with spaces', '  station 12 ', 'x', '', ' ', 'tab\tinside and at the end\t']
    earlier = None
    if info.get('history') in ('prior', 'again'):
        # two-step history on ONE path: another record (other values, time step and label) is saved there and loaded first
        if info['history'] == 'prior':
            x0 = np.array([_num(v) for v in inp.get('x__prior', [2.0, -3.0, 1.5])], dtype=float)
            dt0 = _num(inp.get('dt__prior', 2.5))
            if abs(dt0 - dt) < 1e-3:
                dt0 = dt * 2 + 0.01
            earlier = (x0 if len(x0) != len(x) or np.any(x0 != x) else x0 + 1.0, dt0, 'an earlier record')
        else:
            earlier = (x, dt, None)
    # the model's time step first, then a battery over the format's range (steps of one second or more, round tens, the upper edge)
    dts = [dt] + [d for d in (0.005, 0.02, 1.0, 2.5, 10.0, 20.0, 30.25, 100.0) if abs(d - dt) > 1e-9]
    r = None
    for dti in dts:
        for label in labels:
            r = _one(info, x, dti, m, label, earlier)
            if r['status'] == 'confirmed':
                return r
    return r


def _load(loader, entry, path, m):
    s = None
    if entry == 'load_values_and_dt':
        vals, ldt = loader.load_values_and_dt(path)
    elif entry.startswith('load_signal'):
        s = loader.load_signal(path, astype='signal' if entry.endswith('/signal') else 'acc_sig')
        vals, ldt = s.values, s.dt
    elif entry.startswith('load_sig'):
        s = loader.load_sig(path, m=m) if entry.endswith('/m') else loader.load_sig(path)
        vals, ldt = s.values, s.dt
    else:
        kw = {}
        if entry.endswith('/label'):
            kw['load_label'] = True
        if entry.endswith('/m'):
            kw['m'] = m
        s = loader.load_asig(path, **kw)
        vals, ldt = s.values, s.dt
    return vals, ldt, s


def _one(info, x, dt, m, label, earlier=None):
    import eqsig
    from eqsig import loader
    d = tempfile.mkdtemp(prefix='pyvc_c16_')
    path = os.path.join(d, 'motion.txt')
    try:
        if earlier is not None:
            x0, dt0, label0 = earlier
            inner = dict(info, history=None)
            if info.get('saver') == 'save_signal':
                loader.save_signal(path, eqsig.AccSignal(x0, dt0, label=label if label0 is None else label0))
            else:
                loader.save_values_and_dt(path, x0, dt0, label if label0 is None else label0)
            try:
                _load(loader, info['entry'], path, m)
            except Exception:
                pass
        if info.get('saver') == 'save_signal':
            loader.save_signal(path, eqsig.AccSignal(x, dt, label=label))
        else:
            loader.save_values_and_dt(path, x, dt, label)
        entry = info['entry']
        try:
            vals, ldt, s = _load(loader, entry, path, m)
        except Exception as e:
            return dict(status='confirmed', observed={'raises': type(e).__name__, 'message': str(e)[:200]},
                        detail='saving values=%s, dt=%r and loading with %s raised %s' % (x.tolist(), dt, entry, type(e).__name__))
        vals = np.atleast_1d(np.asarray(vals))
        bad = []
        if entry.endswith('/label') and s.label != label:
            bad.append('label saved %r loaded %r' % (label, s.label))
        if abs(ldt - dt) > 0.5e-4 + 1e-12:
            bad.append('dt saved %r loaded %r' % (dt, ldt))
        if vals.shape != x.shape:
            bad.append('npts saved %d loaded shape %s' % (len(x), vals.shape))
        elif np.max(np.abs(vals - x * m)) > 0.5e-6 * max(abs(m), 1e-30) + 1e-12:
            bad.append('values differ by %g' % np.max(np.abs(vals - x * m)))
        hist = '' if earlier is None else ' AFTER a record with dt=%r had been saved to and loaded from the same path' % (earlier[1],)
        return dict(status='confirmed' if bad else 'not-reproduced', observed={'loaded_dt': float(ldt), 'loaded_values': vals.tolist()[:6], 'problems': bad},
                    detail='save/load round trip with values=%s, dt=%r%s: %s' % (x.tolist(), dt, hist, bad or 'unchanged to the format precision'))
    finally:
        try:
            os.unlink(path)
        except OSError:
            pass
        os.rmdir(d)

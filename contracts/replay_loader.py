"""Replay of C16 counter-models on the real loader: save the model's record to a real temporary file and load it back."""
import os
import tempfile

import numpy as np


def _num(v):
    if isinstance(v, dict) and 'f' in v:
        return float(v['f'])
    return float(v)


def replay(info, ce):
    import eqsig
    from eqsig import loader
    inp = (ce or {}).get('inputs', {})
    x = np.array([_num(v) for v in inp.get('x', [0.5, -0.25])], dtype=float)
    dt = _num(inp.get('dt', 1.0))
    m = _num(inp.get('m', 1.0)) if info['entry'].endswith('/m') else 1.0
    labels = [info['label']] if info.get('label') is not None else ['a label with spaces', '  station 12 ', 'x', '', ' ', 'tab\tinside and at the end\t']
    for label in labels:
        r = _one(info, x, dt, m, label)
        if r['status'] == 'confirmed':
            return r
    return r


def _one(info, x, dt, m, label):
    import eqsig
    from eqsig import loader
    d = tempfile.mkdtemp(prefix='pyvc_c16_')
    path = os.path.join(d, 'motion.txt')
    try:
        if info.get('saver') == 'save_signal':
            loader.save_signal(path, eqsig.AccSignal(x, dt, label=label))
        else:
            loader.save_values_and_dt(path, x, dt, label)
        entry = info['entry']
        try:
            if entry == 'load_values_and_dt':
                vals, ldt = loader.load_values_and_dt(path)
            elif entry.startswith('load_signal'):
                s = loader.load_signal(path, astype='signal' if entry.endswith('/signal') else 'acc_sig')
                vals, ldt = s.values, s.dt
            elif entry.startswith('load_sig'):
                s = loader.load_sig(path, m=m) if entry.endswith('/m') else loader.load_sig(path)
                vals, ldt = s.values, s.dt
            else:
                kw = {}
                if entry.endswith('/label'):
                    kw['load_label'] = True
                if entry.endswith('/m'):
                    kw['m'] = m
                s = loader.load_asig(path, **kw)
                vals, ldt = s.values, s.dt
        except Exception as e:
            return dict(status='confirmed', observed={'raises': type(e).__name__, 'message': str(e)[:200]},
                        detail='saving values=%s, dt=%r and loading with %s raised %s' % (x.tolist(), dt, entry, type(e).__name__))
        vals = np.atleast_1d(np.asarray(vals))
        bad = []
        if entry.endswith('/label') and s.label != label:
            bad.append('label saved %r loaded %r' % (label, s.label))
        if abs(ldt - dt) > 0.5e-4 + 1e-12:
            bad.append('dt saved %r loaded %r' % (dt, ldt))
        if vals.shape != x.shape:
            bad.append('npts saved %d loaded shape %s' % (len(x), vals.shape))
        elif np.max(np.abs(vals - x * m)) > 0.5e-6 * max(abs(m), 1e-30) + 1e-12:
            bad.append('values differ by %g' % np.max(np.abs(vals - x * m)))
        return dict(status='confirmed' if bad else 'not-reproduced', observed={'loaded_dt': float(ldt), 'loaded_values': vals.tolist()[:6], 'problems': bad},
                    detail='save/load round trip with values=%s, dt=%r: %s' % (x.tolist(), dt, bad or 'unchanged to the format precision'))
    finally:
        try:
            os.unlink(path)
        except OSError:
            pass
        os.rmdir(d)

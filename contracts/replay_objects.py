"""History replay on the REAL eqsig objects for the object properties (C04 cache coherence / C05 ownership).

A counter-model of an operation obligation is an abstract state (which caches are warm) plus one operation; it is
replayed as a history: construct a real object, read the quantities whose cache flag is true in the model, apply the
operation with concrete arguments, then compare every reader with a freshly constructed object holding the same values,
dt and settings (and, for ownership clauses, compare the caller's arrays before/after)."""
import numpy as np


def _record(n=200, seed=1):
    rng = np.random.RandomState(seed)
    t = np.arange(n) * 0.01
    return np.sin(2 * np.pi * 1.3 * t) * np.exp(-0.5 * t) + 0.2 * rng.randn(n)


def concrete_ops():
    import eqsig
    rng = np.random.RandomState(7)
    rt2 = np.array([0.2, 0.5, 1.0, 2.0])
    sff2 = np.array([0.5, 1.0, 2.0, 5.0, 10.0])
    return {
        'reset_values': lambda o: o.reset_values(_record(len(o.values), 5) * 2.0),
        'add_constant': lambda o: o.add_constant(0.37),
        'add_series': lambda o: o.add_series(_record(o.npts, 3)),
        'add_series/length-mismatch': lambda o: o.add_series(np.ones(o.npts + 3)),
        'add_signal': lambda o: o.add_signal(eqsig.Signal(_record(o.npts, 4), o.dt)),
        'add_signal/other-dt': lambda o: o.add_signal(eqsig.Signal(_record(o.npts, 4), o.dt * 2)),
        'add_signal/other-length': lambda o: o.add_signal(eqsig.Signal(_record(o.npts + 5, 4), o.dt)),
        'add_signal/not-a-signal': lambda o: o.add_signal(_record(o.npts, 4)),
        'remove_average': lambda o: o.remove_average(),
        'remove_average/section': lambda o: o.remove_average(section=20),
        'remove_poly/0': lambda o: o.remove_poly(),
        'remove_poly/1': lambda o: o.remove_poly(poly_fit=1),
        'remove_poly/2': lambda o: o.remove_poly(poly_fit=2),
        'running_average': lambda o: o.running_average(5),
        'butter_pass/band': lambda o: o.butter_pass((0.5, 20)),
        'butter_pass/low': lambda o: o.butter_pass((None, 20)),
        'butter_pass/high': lambda o: o.butter_pass([0.5, None]),
        'butter_pass/gibbs-start': lambda o: o.butter_pass((0.5, 20), remove_gibbs='start'),
        'butter_pass/gibbs-end': lambda o: o.butter_pass((0.5, 20), remove_gibbs='end', filter_order=2),
        'butter_pass/gibbs-mid': lambda o: o.butter_pass((0.5, 20), remove_gibbs='mid', gibbs_extra=2),
        'smooth_fa_freqs=': lambda o: setattr(o, 'smooth_fa_freqs', sff2),
        'smooth_fa_frequencies=': lambda o: setattr(o, 'smooth_fa_frequencies', sff2),
        'set_smooth_fa_frequecies_by_range': lambda o: o.set_smooth_fa_frequecies_by_range((0.3, 12.0), 17),
        'smooth_freq_range=': lambda o: setattr(o, 'smooth_freq_range', (0.3, 12.0)),
        'smooth_freq_points=': lambda o: setattr(o, 'smooth_freq_points', 23),
        'gen_smooth_fa_spectrum(smooth_fa_freqs=)': lambda o: o.gen_smooth_fa_spectrum(smooth_fa_freqs=sff2),
        'gen_fa_spectrum()': lambda o: o.gen_fa_spectrum(),
        'generate_fa_spectrum()': lambda o: o.generate_fa_spectrum(),
        'gen_smooth_fa_spectrum()': lambda o: o.gen_smooth_fa_spectrum(),
        'generate_smooth_fa_spectrum()': lambda o: o.generate_smooth_fa_spectrum(),
        'clear_cache()': lambda o: o.clear_cache(),
        'get_section_average': lambda o: o.get_section_average(start=0, end=-1, index=True),
        'response_times=': lambda o: setattr(o, 'response_times', rt2),
        'response_times*=c': lambda o: _imul_attr(o, 'response_times', 2.0),
        'response_times[0]=c;response_times=same-array': lambda o: _edit_and_reassign(o, 'response_times', 0.15),
        'gen_response_spectrum(response_times=)': lambda o: o.gen_response_spectrum(response_times=rt2),
        'generate_response_spectrum(response_times=)': lambda o: o.generate_response_spectrum(response_times=rt2),
        'response_series(response_times=)': lambda o: o.response_series(response_times=rt2),
        'response_series()': lambda o: o.response_series(),
        'gen_response_spectrum()': lambda o: o.gen_response_spectrum(),
        'generate_response_spectrum()': lambda o: o.generate_response_spectrum(),
        'generate_displacement_and_velocity_series()': lambda o: o.generate_displacement_and_velocity_series(),
        'reset_all_motion_stats()': lambda o: o.reset_all_motion_stats(),
        'correct_me': lambda o: o.correct_me(),
        'remove_rolling_average/velocity': lambda o: o.remove_rolling_average(),
        'remove_rolling_average/values': lambda o: o.remove_rolling_average(mtype='acc', freq_window=7),
        'rebase_displacement': lambda o: o.rebase_displacement(),
        'set_zero_residual_velocity': lambda o: o.set_zero_residual_velocity(),
        'set_zero_residual_velocity/timezone': lambda o: o.set_zero_residual_velocity(timezone=(0.2, 1.1)),
        'set_zero_residual_velocity/open-timezone': lambda o: o.set_zero_residual_velocity(timezone=(0.2, None)),
        'set_zero_residual_displacement': lambda o: o.set_zero_residual_displacement(),
        'set_zero_residual_displacement_and_velocity': lambda o: o.set_zero_residual_displacement_and_velocity(),
        'set_zero_residual_displacement_and_velocity/timezone': lambda o: o.set_zero_residual_displacement_and_velocity(timezone=(0.2, 1.1)),
        'set_zero_residual_displacement_and_velocity/open-timezone': lambda o: o.set_zero_residual_displacement_and_velocity(timezone=(0.2, None)),
        'generate_peak_values()': lambda o: o.generate_peak_values(),
    }


def _imul_attr(o, name, c):
    cur = getattr(o, name)
    if not isinstance(cur, np.ndarray) or cur.dtype.kind != 'f':
        cur = np.array(cur, dtype=float)
        setattr(o, name, cur)            # make sure the object holds a float array (as in the symbolic pre-state)
        getattr(o, 's_a', None)
    cur = getattr(o, name)
    cur *= c                             # python: o.response_times *= c  is  get, in-place multiply, set
    setattr(o, name, cur)


def _edit_and_reassign(o, name, first):
    cur = getattr(o, name)
    if not isinstance(cur, np.ndarray) or cur.dtype.kind != 'f':
        cur = np.array(cur, dtype=float)
        setattr(o, name, cur)
        getattr(o, 's_a', None)
    cur = getattr(o, name)
    cur[0] = first
    setattr(o, name, cur)


WARM = {'cached_fa': ['fa_spectrum'], 'cached_smooth_fa': ['smooth_fa_spectrum'], 'cached_vd': ['velocity', 'pgv', 'pgd'],
        'cached_rs': ['s_a'], }


def fresh_like(o):
    import eqsig
    kw = {}
    if isinstance(o, eqsig.AccSignal):
        kw['response_times'] = np.array(o.response_times)
    f = type(o)(np.array(o.values), o.dt, **kw)
    f.smooth_fa_freqs = np.array(o.smooth_fa_freqs)
    return f


def same(a, b):
    if a is None or b is None:
        return a is b
    a, b = np.asarray(a), np.asarray(b)
    if a.shape != b.shape:
        return False
    if a.size == 0:
        return True
    scale = max(float(np.max(np.abs(a))), float(np.max(np.abs(b))), 1e-300)
    return bool(np.max(np.abs(a - b)) <= 1e-9 * scale)


def replay_c08(info, ce):
    """History: warm the caches flagged in the model, run the generator call(s), read velocity/displacement, check the rule."""
    import eqsig
    flags = {k: bool(v) for k, v in (ce or {}).get('inputs', {}).items() if k.startswith('cached_')} or {k: True for k in WARM}
    a = _record(64, 2)
    dt = 0.01
    o = eqsig.AccSignal(a, dt)
    history = ['AccSignal(values[64], 0.01)']
    for fl, rs in WARM.items():
        if flags.get(fl, False):
            for r in rs:
                getattr(o, r)
                history.append('read ' + r)
    how = info['how']
    if how in ('generate-rect', 'generate-rect-then-trap'):
        o.generate_displacement_and_velocity_series(trap=False)
        history.append('generate_displacement_and_velocity_series(trap=False)')
    if how in ('generate-trap', 'generate-rect-then-trap'):
        o.generate_displacement_and_velocity_series(trap=True)
        history.append('generate_displacement_and_velocity_series(trap=True)')
    v, d = np.asarray(o.velocity), np.asarray(o.displacement)
    history.append('read velocity, displacement')
    if how == 'generate-rect':
        want_dv = dt * a[:-1]
        want_dd = dt * v[1:]
    else:
        want_dv = dt * (a[1:] + a[:-1]) / 2
        want_dd = dt * (v[1:] + v[:-1]) / 2
    bad = not (np.allclose(np.diff(v), want_dv, rtol=1e-9, atol=1e-12) and np.allclose(np.diff(d), want_dd, rtol=1e-9, atol=1e-12)
               and v[0] == 0 and d[0] == 0 and len(v) == len(a) == len(d))
    return dict(status='confirmed' if bad else 'not-reproduced', observed={'history': history, 'max_increment_error_v': float(np.max(np.abs(np.diff(v) - want_dv)))},
                detail='after the history %s the series %s the %s increments' % (history, 'do NOT have' if bad else 'have', 'rectangle' if how == 'generate-rect' else 'trapezoid'))


def replay_smoothing_settings(info, ce):
    """the smoothing settings mean what they say, from objects whose frequencies were set in every public way before"""
    import eqsig
    cls = getattr(eqsig, info.get('cls', 'Signal'))
    op = info.get('op', 'points')
    x = _record(64, 3)
    befores = [('default', lambda o: None), ('smooth_freq_range=(0.5, 20)', lambda o: setattr(o, 'smooth_freq_range', (0.5, 20.0))),
               ('smooth_fa_freqs=logspace(0,1,7)', lambda o: setattr(o, 'smooth_fa_freqs', np.logspace(0, 1, 7))),
               ('set_smooth_fa_frequecies_by_range((0.2, 9), 11)', lambda o: o.set_smooth_fa_frequecies_by_range((0.2, 9.0), 11))]
    import warnings
    for name, before in befores:
        with warnings.catch_warnings():
            warnings.simplefilter('ignore')
            o = cls(x.copy(), 0.01)
            before(o)
            f0 = np.array(o.smooth_fa_freqs, copy=True)
            if op == 'points':
                o.smooth_freq_points = 13
                want = np.logspace(np.log10(f0[0]), np.log10(f0[-1]), 13)
            elif op == 'range':
                o.smooth_freq_range = (0.3, 12.0)
                want = np.logspace(np.log10(0.3), np.log10(12.0), len(f0))
            elif op == 'by_range':
                o.set_smooth_fa_frequecies_by_range((0.3, 12.0), 9)
                want = np.logspace(np.log10(0.3), np.log10(12.0), 9)
            else:
                want = np.array([0.5, 1.0, 4.0])
                o.smooth_fa_freqs = want
            got = np.asarray(o.smooth_fa_freqs)
        if got.shape != want.shape or np.max(np.abs(got - want)) > 1e-9 * np.max(np.abs(want)):
            return dict(status='confirmed', observed={'smooth_fa_freqs_first_last_n': [float(got[0]), float(got[-1]), int(len(got))],
                                                      'demanded_first_last_n': [float(want[0]), float(want[-1]), int(len(want))]},
                        detail='history [%s; %s]: the smoothing frequencies are not what the settings say' % (name, op),
                        input={'history': [name, op], 'class': cls.__name__})
    return dict(status='not-reproduced', detail='smoothing settings behave as stated after %d earlier settings histories' % len(befores))


def replay(info, ce):
    if info.get('kind') == 'c04-smoothing-settings':
        return replay_smoothing_settings(info, ce)
    import warnings
    import eqsig
    warnings.simplefilter('ignore')
    if info.get('kind') == 'c08-series':
        return replay_c08(info, ce)
    cls = eqsig.AccSignal if info['cls'] == 'AccSignal' else eqsig.Signal
    flags = {k: bool(v) for k, v in (ce or {}).get('inputs', {}).items() if k.startswith('cached_')}
    if not flags:
        flags = {k: True for k in WARM}            # no model: warm every cache (the typical stale-read history)
    o = cls(_record(), 0.01)
    history = ['%s(values[200], 0.01)' % info['cls']]
    readers = info['readers']
    for fl, rs in WARM.items():
        if flags.get(fl, False):
            for r in rs:
                if r in readers or r in ('pgv', 'pgd'):
                    if hasattr(o, r):
                        getattr(o, r)
                        history.append('read ' + r)
    if info['cls'] == 'AccSignal':
        o.pga
        history.append('read pga')
    op = info['op']
    err = None
    if info.get('is_reader'):
        try:
            getattr(o, op)
        except Exception as e:
            err = type(e).__name__
        history.append('read ' + op)
    else:
        table = concrete_ops()
        if op not in table:
            return dict(status='not-replayable', detail='no concrete counterpart for operation %s' % op)
        try:
            table[op](o)
        except Exception as e:
            err = type(e).__name__
        history.append('apply ' + op + (' -> raised ' + err if err else ''))
    clause = info.get('clause', '')
    if clause.startswith('time-'):
        o3 = cls(_record(), 0.01)
        table = concrete_ops()
        if op in table:
            try:
                table[op](o3)
            except Exception:
                pass
        want = np.arange(o3.npts) * o3.dt
        got = np.asarray(o3.time)
        bad = got.shape != want.shape or not np.allclose(got, want, rtol=1e-12, atol=1e-12)
        return dict(status='confirmed' if bad else 'not-reproduced', observed={'time_head': got[:4].tolist(), 'npts': int(o3.npts)},
                    detail='after %s: time %s dt*[0..npts-1]' % (op, 'DIFFERS from' if bad else 'equals'))
    if 'not-shared-with-argument' in clause or 'not-written' in clause or 'values-is-numeric-array' in clause or 'npts-equals' in clause:
        # ownership clauses: replay with an explicit caller array
        o2 = cls(_record(), 0.01)
        b = _record(200, 9)
        b0 = b.copy()
        shared = None
        if op == 'reset_values':
            o2.reset_values(b)
            shared = bool(np.shares_memory(np.asarray(o2.values), b))
            if hasattr(o2, 'rebase_displacement'):
                o2.rebase_displacement()
            else:
                o2.values[0] += 1.0
        elif op == 'add_series':
            o2.add_series(b)
            shared = bool(np.shares_memory(np.asarray(o2.values), b))
        changed = not np.array_equal(b, b0)
        bad_type = not isinstance(o2.values, np.ndarray) or o2.npts != len(o2.values)
        hit = bool(shared) or changed or bad_type
        return dict(status='confirmed' if hit else 'not-reproduced',
                    observed={'shares_memory_with_argument': shared, 'argument_changed_by_later_in_place_operation': changed,
                              'values_type': type(o2.values).__name__},
                    detail='caller array %s after %s followed by an in-place correction' % ('CHANGED' if changed else 'unchanged', op))
    stale = []
    try:
        f = fresh_like(o)
    except Exception as e:
        return dict(status='confirmed', observed={'history': history}, detail='state after the operation cannot even be re-created: %s: %s' % (type(e).__name__, e))
    for r in readers:
        try:
            got = getattr(o, r)
        except Exception as e:
            stale.append('%s (raises %s)' % (r, type(e).__name__))
            continue
        want = getattr(f, r)
        if not same(got, want):
            stale.append(r)
    clause_reader = info.get('clause', '').replace('-equals-fresh-object', '')
    hit = bool(stale)
    return dict(status='confirmed' if hit else 'not-reproduced', observed={'history': history, 'stale_readers': stale},
                detail=('after the history %s the readers %s differ from a freshly constructed object' % (history, stale)) if hit
                else 'history %s leaves every reader equal to a fresh object' % history)

"""Concrete oracle for the power-law equivalent-cycle measures of C13 on the real code: the equivalent uniform amplitude against its
defining formula (sum over the half-cycle peaks, computed here from the excursions of the record: maximal runs of one strict sign,
largest |value| of each), the two-identical-components laws and the cycles <-> amplitude inverse law."""
import numpy as np


def half_cycle_peaks(x):
    """indices of the largest |value| of each excursion (records without exact zeros)"""
    x = np.asarray(x, dtype=float)
    out, i, n = [], 0, len(x)
    while i < n:
        j = i
        while j + 1 < n and (x[j + 1] > 0) == (x[i] > 0):
            j += 1
        seg = np.abs(x[i:j + 1])
        out.append(i + int(np.argmax(seg)))
        i = j + 1
    return out


def amp_by_definition(x, n_cyc, b):
    x = np.asarray(x, dtype=float)
    s = np.zeros(len(x))
    for j in half_cycle_peaks(x):
        s[j] = abs(x[j]) ** (1.0 / b)
    return np.cumsum(s / 2.0 / n_cyc) ** b


def records(dtype):
    rng = np.random.RandomState(5)
    recs = [np.array([3, 7, 2, -2, -5, -1, 4, 9, 3, -6, -2, 1, 4, 2, -3, -1]), np.array([1, -2, 3, -1]), np.array([5, 3, 4, -1, -7, 2])]
    for n in (8, 30):
        r = np.round(rng.randn(n) * 6)
        r[r == 0] = 1
        recs.append(r)
    if dtype != 'int':
        recs += [rng.randn(40) + 0.01, rng.randn(7) * 3 + 0.01]
    return [r.astype(int if dtype == 'int' else float) for r in recs]


def replay(info, ce):
    from eqsig import im
    fn, dtype = info.get('fn'), info.get('dtype', 'float')
    tried = 0
    for x in records(dtype):
        for b in (0.3, 0.5, 1.0):
            for n_cyc in (1.0, 15.0):
                keep = x.copy()
                want1 = amp_by_definition(x, n_cyc, b)
                with np.errstate(all='ignore'):
                    if fn == 'amp':
                        got = np.asarray(im.calc_cyc_amp_array_w_power_law(x, n_cyc=n_cyc, b=b), dtype=float)
                        want, what = want1, 'the defining formula (sum_k p_k**(1/b) / (2 n_cyc))**b over the half-cycle peaks'
                    elif fn == 'combined':
                        got = np.asarray(im.calc_cyc_amp_combined_arrays_w_power_law(x, x.copy(), n_cyc=n_cyc, b=b), dtype=float)
                        want, what = 2.0 ** b * want1, '2**b times the single-component amplitude'
                    elif fn == 'gm':
                        got = np.asarray(im.calc_cyc_amp_gm_arrays_w_power_law(x, x.copy(), n_cyc=n_cyc, b=b), dtype=float)
                        want, what = want1, 'the single-component amplitude'
                    elif fn == 'inverse':
                        a_ref = 0.6 * float(np.max(np.abs(x)))
                        ncy = np.asarray(im.calc_n_cyc_array_w_power_law(x, a_ref, b, cut_off=0.0), dtype=float)
                        got = np.asarray(im.calc_cyc_amp_array_w_power_law(x, n_cyc=float(ncy[-1]), b=b), dtype=float)[-1:]
                        want, what = np.array([a_ref]), 'a_ref (amplitude computed for N = cycles(a_ref))'
                    elif fn == 'cycles':
                        a_ref = 0.6 * float(np.max(np.abs(x)))
                        got = np.asarray(im.calc_n_cyc_array_w_power_law(x, a_ref, b, cut_off=0.0), dtype=float)
                        s = np.zeros(len(x))
                        for j in half_cycle_peaks(x):
                            s[j] = 0.5 * (abs(float(x[j])) / a_ref) ** (1.0 / b)
                        want, what = np.cumsum(s), 'the running sum of 0.5*(p_k/a_ref)**(1/b) over the half-cycle peaks'
                    else:
                        return dict(status='not-replayable', detail='no power-law oracle for %r' % fn)
                tried += 1
                if not np.array_equal(x, keep):
                    return dict(status='confirmed', detail='the record passed in was modified', input={'values': keep.tolist(), 'dtype': str(keep.dtype)})
                if got.shape != want.shape or np.max(np.abs(got - want)) > 1e-9 * max(1.0, float(np.max(np.abs(want)))):
                    return dict(status='confirmed', observed={'got': got.tolist()[-4:], 'expected': want.tolist()[-4:]},
                                detail='%s record, b=%g, n_cyc=%g: result differs from %s' % (x.dtype, b, n_cyc, what),
                                input={'values': x.tolist(), 'dtype': str(x.dtype), 'b': b, 'n_cyc': n_cyc})
    return dict(status='not-reproduced', detail='power-law measure %s agrees with its definition on %d battery calls (%s records)' % (fn, tried, dtype))

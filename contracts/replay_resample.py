"""Concrete oracle for resample_to_approx_dt (C14) on the real code: a signal that is periodic over the record and band-limited below
the new Nyquist frequency is reproduced exactly at the new sampling instants (records whose length is a multiple of the stride, so that
known finding K2 -- the label/count inconsistency for other lengths -- does not interfere), and the step rule."""
import numpy as np


def replay(info, ce):
    import eqsig
    from eqsig.fns import time_step as ts
    even, regime = info.get('even', True), info.get('regime', 'decimate')
    tried = 0
    for N, dt, tgt in ((30, 0.005, 0.01), (32, 0.005, 0.01), (45, 0.005, 0.016), (48, 0.005, 0.016), (40, 0.01, 0.01), (24, 0.02, 0.01), (25, 0.02, 0.01)):
        if (regime == 'decimate') != (tgt > dt) and not (regime == 'equal' and tgt == dt):
            continue
        if regime == 'refine' and not tgt < dt:
            continue
        n = np.arange(N)
        factor = dt / tgt
        M_expected = None
        for k in range(1, N // 2):
            x = np.cos(2 * np.pi * k * n / N + 0.4) + 0.5 * np.sin(2 * np.pi * max(1, k // 2) * n / N)
            a = eqsig.AccSignal(x.copy(), dt)
            try:
                r = ts.resample_to_approx_dt(a, tgt, even=even)
            except Exception as e:
                return dict(status='confirmed', observed={'raises': type(e).__name__, 'message': str(e)[:200]}, detail='resample_to_approx_dt raised',
                            input={'npts': N, 'dt': dt, 'target_dt': tgt, 'even': even})
            M = r.npts
            if M * r.dt > N * dt * (1 + 1e-9) or M * r.dt < N * dt * (1 - 1e-9):
                break                                    # K2 territory (count rounded, label not): not judged here
            if k >= M / 2.0:
                continue                                 # not below the new Nyquist frequency
            j = np.arange(M)
            want = np.cos(2 * np.pi * k * j / M + 0.4) + 0.5 * np.sin(2 * np.pi * max(1, k // 2) * j / M)
            tried += 1
            if r.dt > tgt * (1 + 1e-12) or np.max(np.abs(np.asarray(r.values) - want)) > 1e-9:
                return dict(status='confirmed', observed={'max_error': float(np.max(np.abs(np.asarray(r.values) - want))), 'new_dt': r.dt, 'new_npts': M},
                            detail='a record that is periodic over %d samples and band-limited (harmonic %d of %d, new Nyquist %.1f) is not reproduced at the new instants'
                                   % (N, k, N, M / 2.0), input={'npts': N, 'dt': dt, 'target_dt': tgt, 'even': even, 'harmonic': k})
    return dict(status='not-reproduced', detail='band-limited periodic records are reproduced on %d battery calls (even=%s, %s)' % (tried, even, regime))

"""Concrete oracle for C02: the laws of the response operator checked on the REAL nigam_and_jennings_response, first on the
solver's counter-model (records, step, damping, periods, coefficients) and then on a battery that mixes dense records with
records that start with a different number of zero samples."""
import numpy as np


def _num(v, default=None):
    if v is None:
        return default
    if isinstance(v, dict) and 'f' in v:
        return float(v['f'])
    return float(v)


def _laws(nj, law, a, b, al, be, dt, per, xi):
    """returns a description of the first violated relation or None"""
    n = len(a)
    Ua, Va, Aa = nj(a, dt, per, xi)
    scale = lambda *xs: max([1e-12] + [float(np.max(np.abs(x))) for x in xs])
    if law == 'linearity':
        Ub, Vb, Ab = nj(b, dt, per, xi)
        Uc, Vc, Ac = nj(al * a + be * b, dt, per, xi)
        for nm, xa, xb, xc in (('u', Ua, Ub, Uc), ('v', Va, Vb, Vc), ('a', Aa, Ab, Ac)):
            want = al * xa + be * xb
            err = float(np.max(np.abs(xc - want)))
            if err > 1e-9 * scale(want, xc):
                return '%s(alpha*a+beta*b) differs from alpha*%s(a)+beta*%s(b) by %.3g (scale %.3g)' % (nm, nm, nm, err, scale(want))
    elif law == 'causality':
        for i in range(n - 1):
            mixed = np.array([a[j] if j <= i else b[j] for j in range(n)])
            Um, Vm, _ = nj(mixed, dt, per, xi)
            err = max(float(np.max(np.abs(Um[:, :i + 1] - Ua[:, :i + 1]))), float(np.max(np.abs(Vm[:, :i + 1] - Va[:, :i + 1]))))
            if err > 1e-9 * scale(Ua, Va):
                return 'samples after %d change the response up to %d by %.3g' % (i, i, err)
    elif law == 'shift':
        a0 = a.copy()
        a0[0] = 0.0
        U0, V0, _ = nj(a0, dt, per, xi)
        for k in (1, 2, 5):
            sh = np.concatenate([np.zeros(k), a0])
            Us, Vs, _ = nj(sh, dt, per, xi)
            err = max(float(np.max(np.abs(Us[:, k:] - U0))), float(np.max(np.abs(Vs[:, k:] - V0))), float(np.max(np.abs(Us[:, :k]))), float(np.max(np.abs(Vs[:, :k]))))
            if err > 1e-9 * scale(U0, V0):
                return 'prepending %d zeros does not delay the response by %d samples (max difference %.3g)' % (k, k, err)
    elif law == 'three-period-rotations':
        for base in ([0.5, 1.3, 0.2], [1.3, 0.2, 0.5], [0.8, 0.2, 2.1, 0.35, 1.3, 0.5], [float(per[0]), float(per[1]), 0.37]):
            base = np.array(base)
            U3, V3, A3 = nj(a, dt, base, xi)
            for r, Tr in enumerate(base):
                U1, V1, A1 = nj(a, dt, np.array([Tr]), xi)
                if max(float(np.max(np.abs(U3[r] - U1[0]))), float(np.max(np.abs(V3[r] - V1[0]))), float(np.max(np.abs(A3[r] - A1[0])))) > 1e-9 * scale(U1, V1, A1):
                    return 'periods=%s: row %d is not the response of period %g' % (base.tolist(), r, Tr)
    else:
        Ur, Vr, Ar = nj(a, dt, per[::-1].copy(), xi)
        if max(float(np.max(np.abs(Ur[::-1] - Ua))), float(np.max(np.abs(Vr[::-1] - Va))), float(np.max(np.abs(Ar[::-1] - Aa)))) > 1e-9 * scale(Ua, Va, Aa):
            return 'reordering the period list does not permute the rows'
        U1, V1, A1 = nj(a, dt, per[:1].copy(), xi)
        if max(float(np.max(np.abs(U1[0] - Ua[0]))), float(np.max(np.abs(V1[0] - Va[0]))), float(np.max(np.abs(A1[0] - Aa[0])))) > 1e-9 * scale(Ua, Va, Aa):
            return 'a period computed alone gives a different row'
        Uz, Vz, _ = nj(a, dt, np.concatenate([[0.0], per]), xi)
        if max(float(np.max(np.abs(Uz[1:] - Ua))), float(np.max(np.abs(Vz[1:] - Va)))) > 1e-9 * scale(Ua, Va):
            return 'a leading zero period changes the other rows'
    return None


def replay_spectra_batching(info, ce):
    """S_d, S_v, S_a of a period do not depend on which other periods are in the call (periods on either side of 6 dt)"""
    from eqsig import sdof
    f = getattr(sdof, info.get('fn', 'pseudo_response_spectra'))
    rng = np.random.RandomState(8)
    tried = 0
    for n in (30, 200):
        for dt in (0.01, 0.05):
            acc = rng.randn(n)
            for xi in (0.0, 0.05, 0.4):
                full = np.array([0.3 * dt, 2.0 * dt, 4.5 * dt, 6.0 * dt, 30 * dt, 100 * dt])
                with np.errstate(all='ignore'):
                    whole = [np.asarray(v) for v in f(acc.copy(), dt, full, xi)]
                    for part in ([0, 1], [1, 2], [0, 1, 2], [3, 4], [2, 5], [5, 0], [1], [4]):
                        sub = [np.asarray(v) for v in f(acc.copy(), dt, full[part], xi)]
                        tried += 1
                        for q, nm in enumerate(('S_d', 'S_v', 'S_a')):
                            if sub[q].shape != (len(part),) or np.max(np.abs(sub[q] - whole[q][part])) > 1e-9 * max(1e-30, float(np.max(np.abs(whole[q][part])))):
                                return dict(status='confirmed', observed={'whole_call': whole[q][part].tolist(), 'sub_list_call': sub[q].tolist()},
                                            detail='%s: %s of the periods %s depends on which other periods are in the call (dt=%g: 6 dt = %g)' % (info.get('fn'), nm, full[part].tolist(), dt, 6 * dt),
                                            input={'n': n, 'dt': dt, 'xi': xi, 'periods': full.tolist(), 'sub_list': full[part].tolist(), 'seed': 8})
    return dict(status='not-reproduced', detail='spectra are independent of batching on %d sub-list calls' % tried)


def replay(info, ce):
    from eqsig import sdof
    if info.get('law') == 'spectra-batching':
        return replay_spectra_batching(info, ce)
    nj = sdof.nigam_and_jennings_response
    law = info.get('law', 'linearity')
    cases = []
    inp = (ce or {}).get('inputs', {})
    try:
        a = np.array([_num(v) for v in inp['a']], dtype=float)
        b = np.array([_num(v) for v in inp.get('b', [0.0] * len(a))], dtype=float)
        cases.append((a, b, _num(inp.get('alpha'), 1.0), _num(inp.get('beta'), 1.0), _num(inp['dt']), np.array([_num(inp['T1']), _num(inp['T2'])]), _num(inp['xi'])))
    except Exception:
        pass
    rng = np.random.RandomState(2)
    for n in (3, 4, 9, 30):
        for dt in (0.01, 0.2):
            for xi in (0.0, 0.05, 0.7):
                for za, zb in ((0, 0), (1, 0), (0, 2), (2, 1)):
                    a, b = rng.randn(n), rng.randn(n)
                    a[:min(za, n - 1)] = 0
                    b[:min(zb, n - 1)] = 0
                    cases.append((a, b, 1.5, -0.75, dt, np.array([0.3, 1.7]), xi))
    for a, b, al, be, dt, per, xi in cases:
        try:
            bad = _laws(nj, law, a, b, al, be, dt, per, xi)
        except Exception as e:
            return dict(status='confirmed', observed={'raises': type(e).__name__, 'message': str(e)[:200]}, detail='nigam_and_jennings_response raised on a valid input',
                        input={'a': a.tolist(), 'b': b.tolist(), 'dt': dt, 'periods': per.tolist(), 'xi': xi})
        if bad:
            return dict(status='confirmed', observed={'problem': bad}, detail='%s law violated on the real code: %s' % (law, bad),
                        input={'a': a.tolist(), 'b': b.tolist(), 'alpha': al, 'beta': be, 'dt': dt, 'periods': per.tolist(), 'xi': xi})
    return dict(status='not-reproduced', detail='%s law holds on the counter-model input and %d battery inputs' % (law, len(cases)))

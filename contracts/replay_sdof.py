"""Concrete oracle for the SDOF properties (C01/C03): the real response functions against an INDEPENDENT float evaluation
of the exact piecewise solution (closed form of the property statement stepped sample by sample).  Used to look for a
failing input when an obligation that was discharged on the unchanged tree fails."""
import numpy as np


def exact_step(xi, w, h, u0, v0, f0, f1):
    w2 = w * w
    beta = (f1 - f0) / h / w2
    alpha = (f0 - 2 * xi * w * beta) / w2
    wd = w * np.sqrt(1 - xi * xi)
    k1 = u0 - alpha
    k2 = (v0 - beta + xi * w * k1) / wd
    E, S, C = np.exp(-xi * w * h), np.sin(wd * h), np.cos(wd * h)
    u = E * (k1 * C + k2 * S) + alpha + beta * h
    v = E * ((-xi * w * k1 + wd * k2) * C + (-xi * w * k2 - wd * k1) * S) + beta
    return u, v


def exact_series(acc, dt, T, xi):
    w = 2 * np.pi / T
    u = np.zeros(len(acc))
    v = np.zeros(len(acc))
    for j in range(len(acc) - 1):
        u[j + 1], v[j + 1] = exact_step(xi, w, dt, u[j], v[j], acc[j], acc[j + 1])
    return u, v, -(2 * xi * w * v + w * w * u)


def replay(info, ce):
    import eqsig
    from eqsig import sdof
    rng = np.random.RandomState(11)
    cases = []
    for n in (2, 3, 8, 40):
        for dt in (0.01, 0.2):
            for xi in (0.0, 0.05, 0.6):
                cases.append((rng.randn(n), dt, np.array([0.3, 1.7]), xi))
                cases.append((rng.randn(n), dt, np.array([0.0, 0.5]), xi))
    # records that start at rest: one or several exactly-zero samples, then data (zero padding at the start is common)
    for k in (1, 3):
        for xi in (0.0, 0.05):
            a0 = rng.randn(14)
            a0[:k] = 0.0
            cases.append((a0, 0.02, np.array([0.3, 1.7]), xi))
            cases.append((a0, 0.02, np.array([0.0, 0.5]), xi))
    # the absolute time scale must not matter: a very short record step with periods in the same ratio (T/dt = 50, 200)
    for xi in (0.0, 0.05):
        cases.append((rng.randn(12), 1e-10, np.array([5e-9, 2e-8]), xi))
        cases.append((rng.randn(12), 1e-6, np.array([5e-5, 2e-4]), xi))
    for acc, dt, periods, xi in cases:
        try:
            if info.get('entry') == 'AccSignal.response_series' and info.get('pre', 'fresh') != 'fresh':
                o = eqsig.AccSignal(acc, dt)
                o.response_series(response_times=periods, xi=0.3)            # an earlier request with another damping
                ru, rv, ra = o.response_series(xi=xi)                        # periods: the ones the object has stored
            elif info.get('entry') == 'AccSignal.response_series':
                ru, rv, ra = eqsig.AccSignal(acc, dt).response_series(response_times=periods, xi=xi)
            elif info.get('entry') == 'response_series':
                ru, rv, ra = sdof.response_series(acc, dt, periods, xi)
            else:
                ru, rv, ra = sdof.nigam_and_jennings_response(acc, dt, periods, xi)
        except Exception as e:
            return dict(status='confirmed', observed={'raises': type(e).__name__}, detail='%s raised %s on a valid input (n=%d, dt=%g, periods=%s, xi=%g)'
                        % (info.get('entry', 'nigam_and_jennings_response'), type(e).__name__, len(acc), dt, periods.tolist(), xi),
                        input={'acc': acc.tolist(), 'dt': dt, 'periods': periods.tolist(), 'xi': xi})
        for r, T in enumerate(periods):
            if T == 0:
                eu, ev, ea = np.zeros(len(acc)), np.zeros(len(acc)), -acc
            else:
                eu, ev, ea = exact_series(acc, dt, T, xi)
            scale = max(np.max(np.abs(eu)), 1e-12)
            for nm, got, want, sc in (('displacement', ru[r], eu, scale), ('velocity', rv[r], ev, max(np.max(np.abs(ev)), 1e-12)),
                                      ('acceleration', ra[r], ea, max(np.max(np.abs(ea)), 1e-12))):
                got = np.asarray(got)
                if got.shape != want.shape or np.max(np.abs(got - want)) > 1e-6 * sc:
                    return dict(status='confirmed', observed={'series': nm, 'period': float(T), 'max_abs_error': float(np.max(np.abs(got - want))) if got.shape == want.shape else 'shape',
                                                               'first_values': np.asarray(got)[:4].tolist(), 'exact_first_values': want[:4].tolist()},
                                detail='%s series for T=%g, xi=%g, dt=%g differs from the exact piecewise solution' % (nm, T, xi, dt),
                                input={'acc': acc.tolist(), 'dt': dt, 'periods': periods.tolist(), 'xi': xi})
    return dict(status='not-reproduced', detail='real response functions agree with the exact piecewise solution on the %d battery inputs' % len(cases))

"""Concrete oracle for C07: calc_smooth_fa_spectrum / generate_smooth_fa_spectrum / calc_smoothing_matrix_konno_1998 on the real
code against a loop-based Konno-Ohmachi reference (normalised non-negative window over the non-zero Fourier frequencies), on the
counter-model's arrays first and then on a small battery of the same case (zero bin or not, given or default targets)."""
import math

import numpy as np


def _num(v):
    if isinstance(v, dict) and 'f' in v:
        return float(v['f'])
    if isinstance(v, dict) and 're' in v:
        return complex(_num(v['re']), _num(v['im']))
    return float(v)


def reference(f, F, fc, band):
    f, F = np.asarray(f, dtype=float), np.asarray(F)
    if f[0] == 0:
        f, F = f[1:], F[1:]
    if fc is None:
        fc = f
    out, M = [], np.zeros((len(f), len(fc)))
    for j, c in enumerate(fc):
        ws = []
        for x in f:
            a = band * math.log10(x / c)
            ws.append(1.0 if a == 0 else (math.sin(a) / a) ** 4)
        tot = sum(ws)
        M[:, j] = [w / tot for w in ws]
        out.append(sum(abs(Fi) * w / tot for Fi, w in zip(F, ws)))
    return np.array(out), M


def replay_object(info, ce):
    """the object's smoothed spectrum against the loop-based reference for the band and targets of the LAST request"""
    import eqsig
    how, pre = info.get('how', 'lazy'), info.get('pre', 'fresh')
    cls = getattr(eqsig, info.get('cls', 'Signal'))
    rng = np.random.RandomState(21)
    t = np.arange(400) * 0.01
    recs = [rng.randn(400), np.sin(2 * np.pi * 1.6 * t) * 0.2 + np.exp(-((t - 2.0) / 0.1) ** 2) * np.sin(2 * np.pi * 2.1 * t) * 3]
    for x in recs:
        for band in (5.0, 12.5, 40.0, 100.0):
            for band0 in ((100.0, 5.0) if pre != 'fresh' else (None,)):
                if band0 == band:
                    continue
                s = cls(x.copy(), 0.01)
                hist = []
                if band0 is not None:
                    s.gen_smooth_fa_spectrum(band=band0)
                    hist.append('gen_smooth_fa_spectrum(band=%g)' % band0)
                targets = None
                if how == 'gen(band)':
                    s.gen_smooth_fa_spectrum(band=band)
                    hist.append('gen_smooth_fa_spectrum(band=%g)' % band)
                elif how == 'generate(band)':
                    s.generate_smooth_fa_spectrum(band=band)
                    hist.append('generate_smooth_fa_spectrum(band=%g)' % band)
                elif how == 'gen(targets, band)':
                    targets = np.array([0.5, 1.7, 4.0, 9.0])
                    s.gen_smooth_fa_spectrum(smooth_fa_freqs=targets, band=band)
                    hist.append('gen_smooth_fa_spectrum(smooth_fa_freqs=[0.5, 1.7, 4, 9], band=%g)' % band)
                else:
                    band = 40.0
                got = np.asarray(s.smooth_fa_spectrum)
                hist.append('read smooth_fa_spectrum')
                want, _ = reference(np.asarray(s.fa_frequencies), np.asarray(s.fa_spectrum), np.asarray(s.smooth_fa_freqs), band)
                if got.shape != want.shape or not np.all(np.isfinite(got)) or np.max(np.abs(got - want)) > 1e-9 * max(1.0, float(np.max(np.abs(want)))):
                    return dict(status='confirmed', observed={'max_rel_error': float(np.max(np.abs(got - want) / np.maximum(np.abs(want), 1e-300))) if got.shape == want.shape else 'shape'},
                                detail='the object\'s smoothed spectrum is not the Konno-Ohmachi window for the requested band %g' % band, input={'values': x.tolist(), 'dt': 0.01, 'history': hist})
    return dict(status='not-reproduced', detail='object-level smoothed spectrum equals the reference for the requested band on the battery')


def replay(info, ce):
    from eqsig.fns import frequency as fr
    if info.get('op') == 'object':
        return replay_object(info, ce)
    fn, zero_bin, targets = info.get('fn', 'calc'), info.get('zero_bin', False), info.get('targets', 'given')
    cases = []
    inp = (ce or {}).get('inputs', {})
    try:
        f = np.array([_num(v) for v in inp['f']], dtype=float)
        F = np.array([_num(v) for v in inp.get('F', [1.0] * len(f))])
        fc = np.array([_num(v) for v in inp['fc']], dtype=float) if targets == 'given' else None
        # only inputs inside the property's domain may witness a violation: positive ascending Fourier frequencies (a leading
        # zero bin allowed), positive target frequencies
        inside = np.all(np.diff(f) > 0) and np.all(f[1:] > 0) and f[0] >= 0 and (fc is None or np.all(fc > 0)) and (f[0] == 0) == bool(zero_bin)
        if inside:
            cases.append((f, F, fc, _num(inp['band'])))
    except Exception:
        pass
    rng = np.random.RandomState(8)
    for n in (3, 8, 33):
        for band in (5.0, 40.0, 100.0):
            f = np.cumsum(rng.rand(n) + 0.05)
            if zero_bin:
                f[0] = 0.0
            F = rng.randn(n) + 1j * rng.randn(n)
            fc = None if targets != 'given' else np.array([0.4 * f[1], f[-1], 1.3 * f[-1]])
            cases.append((f, F, fc, band))
    for f, F, fc, band in cases:
        f0, F0 = f.copy(), F.copy()
        try:
            with np.errstate(all='ignore'):
                if fn == 'matrix':
                    got = fr.calc_smoothing_matrix_konno_1998(f, band=band) if fc is None else fr.calc_smoothing_matrix_konno_1998(f, fc, band=band)
                elif fn == 'deprecated':
                    got = fr.generate_smooth_fa_spectrum(fc, f, F, band=band)
                else:
                    got = fr.calc_smooth_fa_spectrum(f, F, band=band) if fc is None else fr.calc_smooth_fa_spectrum(f, F, fc, band=band)
        except Exception as e:
            return dict(status='confirmed', observed={'raises': type(e).__name__, 'message': str(e)[:200]}, detail='raised on a valid input',
                        input={'f': f0.tolist(), 'fc': None if fc is None else fc.tolist(), 'band': band})
        want, M = reference(f0, F0, fc, band)
        want = M if fn == 'matrix' else want
        got = np.asarray(got)
        bad = None
        if got.shape != want.shape:
            bad = 'result has shape %s, expected %s (one entry per target frequency, zero bin dropped)' % (got.shape, want.shape)
        elif not np.all(np.isfinite(got)):
            bad = 'result is not finite: %s' % got.ravel()[:4].tolist()
        elif np.max(np.abs(got - want)) > 1e-9 * max(1.0, float(np.max(np.abs(want)))):
            bad = 'result differs from the normalised Konno-Ohmachi weighted mean by %.3g' % float(np.max(np.abs(got - want)))
        elif not (np.array_equal(f, f0) and np.array_equal(F, F0)):
            bad = 'an input array was modified'
        if bad:
            return dict(status='confirmed', observed={'problem': bad}, detail=bad,
                        input={'fa_frequencies': f0.tolist(), 'fa_spectrum': [str(c) for c in F0.tolist()], 'smooth_fa_frequencies': None if fc is None else fc.tolist(), 'band': band})
    return dict(status='not-reproduced', detail='smoothing agrees with the loop-based reference on the counter-model and %d battery inputs' % len(cases))

"""Concrete oracle for the spectra functions of C03: the real pseudo_/true_response_spectra against an INDEPENDENT float
evaluation of the property statement (exact piecewise solution stepped sample by sample, replay_sdof.exact_series).
The solver's counter-model leaves the summarised response series arbitrary, so the model's own arguments are tried first and
then a small battery with the SAME structural case (container kind, element dtype, leading zero period)."""
import importlib.util
import os

import numpy as np

_here = os.path.dirname(os.path.abspath(__file__))
_spec = importlib.util.spec_from_file_location('replay_sdof', os.path.join(_here, 'replay_sdof.py'))
_sd = importlib.util.module_from_spec(_spec)
_spec.loader.exec_module(_sd)


def _container(vals, kind, pdtype):
    if pdtype == 'int':
        vals = [int(v) for v in vals]
    else:
        vals = [float(v) for v in vals]
    if kind == 'list':
        return list(vals)
    if kind == 'tuple':
        return tuple(vals)
    return np.array(vals, dtype=int if pdtype == 'int' else float)


def expected(acc, dt, periods, xi, true_spectra):
    acc = np.asarray(acc, dtype=float)
    pga = np.max(np.abs(acc))
    sd, sv, sa = [], [], []
    for T in [float(t) for t in periods]:
        if T == 0:
            sd.append(0.0)
            sv.append(0.0)
            sa.append(pga)
            continue
        u, v, a = _sd.exact_series(acc, dt, T, xi)
        w = 2 * np.pi / T
        sd.append(np.max(np.abs(u)))
        if true_spectra:
            sv.append(np.max(np.abs(v)))
            sa.append(pga if T < 6 * dt else np.max(np.abs(a)))
        else:
            sv.append(w * sd[-1])
            sa.append(pga if T < 6 * dt else w * w * sd[-1])
    return np.array(sd), np.array(sv), np.array(sa)


def replay(info, ce):
    from eqsig import sdof
    true_spectra = info.get('entry') == 'true_response_spectra'
    fn = sdof.true_response_spectra if true_spectra else sdof.pseudo_response_spectra
    kind, pdtype, lead_zero = info.get('container', 'array'), info.get('pdtype', 'float'), info.get('lead_zero', False)
    cases = []
    try:
        from pyvc.replay import rebuild
        a = ce['args']
        cases.append((np.asarray(rebuild(a['motion']), dtype=float), float(rebuild(a['dt'])), [float(t) for t in np.atleast_1d(rebuild(a['periods']))], float(rebuild(a['xi']))))
    except Exception:
        pass
    rng = np.random.RandomState(5)
    pers = ([1, 2, 4], [3, 1]) if pdtype == 'int' else ([0.3, 1.7, 0.04], [2.5, 0.9])
    for n in (2, 3, 9, 40):
        for dt in (0.01, 0.2):
            for xi in (0.0, 0.05, 0.6):
                for p in pers:
                    cases.append((rng.randn(n), dt, ([0] if lead_zero else []) + list(p), xi))
    for acc, dt, periods, xi in cases:
        arg = _container(periods, kind, pdtype)
        before = np.array(acc, dtype=float)
        try:
            got = fn(acc, dt, arg, xi)
        except Exception as e:
            return dict(status='confirmed', observed={'raises': type(e).__name__, 'message': str(e)[:200]}, detail='raised on a valid input',
                        input={'acc': before.tolist(), 'dt': dt, 'periods': repr(arg), 'xi': xi})
        want = expected(before, dt, periods, xi, true_spectra)
        for nm, g, w_ in zip(('S_d', 'S_v', 'S_a'), got, want):
            g = np.asarray(g, dtype=float)
            if g.shape != w_.shape or np.max(np.abs(g - w_)) > 1e-6 * max(np.max(np.abs(w_)), 1e-12):
                return dict(status='confirmed', observed={'which': nm, 'got': g.tolist(), 'expected_from_property': w_.tolist()},
                            detail='%s of %s differs from the property statement evaluated independently' % (nm, fn.__name__),
                            input={'acc': before.tolist(), 'dt': dt, 'periods': repr(arg), 'xi': xi})
        if not np.array_equal(before, np.asarray(acc, dtype=float)):
            return dict(status='confirmed', observed={'mutated': 'acc'}, detail='input record modified', input={'acc': before.tolist(), 'dt': dt, 'periods': repr(arg), 'xi': xi})
    return dict(status='not-reproduced', detail='%s agrees with the independently evaluated property on the model input and %d battery inputs' % (fn.__name__, len(cases)))

"""Concrete oracle for the spectra functions of C03: the real pseudo_/true_response_spectra against an INDEPENDENT float
evaluation of the property statement (exact piecewise solution stepped sample by sample, replay_sdof.exact_series).
The solver's counter-model leaves the summarised response series arbitrary, so the model's own arguments are tried first and
then a small battery with the SAME structural case (container kind, element dtype, leading zero period)."""
import importlib.util
import os

import numpy as np

_here = os.path.dirname(os.path.abspath(__file__))
_spec = importlib.util.spec_from_file_location('replay_sdof', os.path.join(_here, 'replay_sdof.py'))
_sd = importlib.util.module_from_spec(_spec)
_spec.loader.exec_module(_sd)


def _container(vals, kind, pdtype):
    if pdtype == 'int':
        vals = [int(v) for v in vals]
    else:
        vals = [float(v) for v in vals]
    if kind == 'list':
        return list(vals)
    if kind == 'tuple':
        return tuple(vals)
    return np.array(vals, dtype=int if pdtype == 'int' else float)


def expected(acc, dt, periods, xi, true_spectra):
    acc = np.asarray(acc, dtype=float)
    pga = np.max(np.abs(acc))
    sd, sv, sa = [], [], []
    for T in [float(t) for t in periods]:
        if T == 0:
            sd.append(0.0)
            sv.append(0.0)
            sa.append(pga)
            continue
        u, v, a = _sd.exact_series(acc, dt, T, xi)
        w = 2 * np.pi / T
        sd.append(np.max(np.abs(u)))
        if true_spectra:
            sv.append(np.max(np.abs(v)))
            sa.append(pga if T < 6 * dt else np.max(np.abs(a)))
        else:
            sv.append(w * sd[-1])
            sa.append(pga if T < 6 * dt else w * w * sd[-1])
    return np.array(sd), np.array(sv), np.array(sa)


def replay_gen_response_spectrum(info, ce):
    """object-level spectra against pseudo_response_spectra of the record interpolated at the REQUIRED step (or any finer integer
    subdivision), for a request made on a fresh object or after an earlier request with other periods / min_dt_ratio"""
    import eqsig
    from eqsig import sdof
    from eqsig.fns.time_step import interp_array_to_approx_dt
    pre, ratio = info.get('pre', 'fresh'), info.get('ratio', 4)
    rng = np.random.RandomState(12)
    tried = 0
    for n in (60, 257):
        for dt in (0.01, 0.02):
            x = rng.randn(n)
            for periods in ([0.02, 0.04, 0.1, 0.5], [0.0, 0.03, 0.2, 1.0], [0.3, 1.5]):
                if bool(info.get('lead_zero')) != (periods[0] == 0) and pre == 'fresh':
                    continue
                a = eqsig.AccSignal(x.copy(), dt)
                hist = []
                if pre != 'fresh':
                    for p0, r0 in (([0.1, 0.5, 2.0], 2),):                   # needs dt/2 at dt = 0.01: a coarse interpolation is now cached
                        a.gen_response_spectrum(response_times=np.array(p0), xi=0.02, min_dt_ratio=r0)
                        hist.append('gen_response_spectrum(response_times=%s, xi=0.02, min_dt_ratio=%d)' % (p0, r0))
                a.gen_response_spectrum(response_times=np.array(periods), xi=0.05, min_dt_ratio=ratio)
                hist.append('gen_response_spectrum(response_times=%s, xi=0.05, min_dt_ratio=%d)' % (periods, ratio))
                got = (np.asarray(a.s_d), np.asarray(a.s_v), np.asarray(a.s_a))
                tried += 1
                t_min = periods[1] if periods[0] == 0 else periods[0]
                target = max(t_min / 20, dt / ratio)
                ok = False
                k0 = int(np.ceil(dt / target - 1e-12)) if target < dt else 1
                for k in range(k0, k0 + 40):                 # the required subdivision or any finer one
                    y = np.interp(np.arange((n - 1) * k + 1) / k, np.arange(n), x) if k > 1 else x
                    want = sdof.pseudo_response_spectra(y, dt / k, np.array(periods), 0.05)
                    for m in (len(y), len(y) - 1, len(y) + k - 1, n * k):
                        yy = np.interp(np.arange(m) / k, np.arange(n), x) if k > 1 else x
                        w2 = sdof.pseudo_response_spectra(yy, dt / k, np.array(periods), 0.05)
                        if all(g.shape == w.shape and np.allclose(g, w, rtol=1e-9, atol=1e-12) for g, w in zip(got, w2)):
                            ok = True
                            break
                    if ok:
                        break
                if not ok:
                    return dict(status='confirmed', observed={'s_a': got[2].tolist()},
                                detail='s_d/s_v/s_a are not the spectra of the record integrated at a step <= max(T_min/20, dt/min_dt_ratio) = %.6g (dt = %g)' % (target, dt),
                                input={'values': x.tolist(), 'dt': dt, 'history': hist})
    return dict(status='not-reproduced', detail='object-level spectra equal the spectra of the suitably interpolated record on %d battery histories' % tried)


def replay_energy(info, ce):
    """energy spectra against their defining sums over the response series of THIS record, step, periods and damping (the series
    come from eqsig.sdof.response_series, which C01 pins to the exact solution)"""
    import eqsig
    from eqsig import sdof
    fn = info.get('fn')
    rng = np.random.RandomState(21)
    tried = 0
    for n in (40, 200):
        for dt in (0.01, 0.05):
            acc = rng.randn(n)
            for periods in ([0.2, 0.5, 1.0], (0.3, 2.0), np.array([0.1, 0.7])):
                for xi in (0, 0.0, 0.05, 0.3):
                    a = eqsig.AccSignal(acc.copy(), dt)
                    with np.errstate(all='ignore'):
                        if fn == 'uke':
                            got = np.asarray(sdof.calc_resp_uke_spectrum(a, periods=periods, xi=xi))
                        else:
                            got = np.asarray(sdof.calc_input_energy_spectrum(a, periods=periods, xi=xi, series=(fn == 'input-series')))
                        u, v, aa = sdof.response_series(acc.copy(), dt, np.array(periods, dtype=float), xi)
                    if fn == 'uke':
                        want = np.sum(np.abs(np.diff(0.5 * v ** 2, axis=1)), axis=1)
                    elif fn == 'input':
                        want = np.sum(acc[None, :] * v * dt, axis=1)
                    else:
                        want = np.cumsum(acc[None, :] * v * dt, axis=1)
                    tried += 1
                    if got.shape != want.shape or np.max(np.abs(got - want)) > 1e-9 * max(1e-30, float(np.max(np.abs(want)))):
                        return dict(status='confirmed', observed={'got': np.ravel(got)[:4].tolist(), 'defining_sum': np.ravel(want)[:4].tolist()},
                                    detail='%s spectrum with xi=%r is not its defining sum over the response series of that damping' % (fn, xi),
                                    input={'acc_seed': 21, 'n': n, 'dt': dt, 'periods': repr(periods), 'xi': xi})
    return dict(status='not-reproduced', detail='energy spectra equal their defining sums on %d battery calls' % tried)


def replay(info, ce):
    if info.get('entry') == 'energy':
        return replay_energy(info, ce)
    from eqsig import sdof
    if info.get('entry') == 'gen_response_spectrum':
        return replay_gen_response_spectrum(info, ce)
    true_spectra = info.get('entry') == 'true_response_spectra'
    fn = sdof.true_response_spectra if true_spectra else sdof.pseudo_response_spectra
    kind, pdtype, lead_zero = info.get('container', 'array'), info.get('pdtype', 'float'), info.get('lead_zero', False)
    cases = []
    try:
        from pyvc.replay import rebuild
        a = ce['args']
        cases.append((np.asarray(rebuild(a['motion']), dtype=float), float(rebuild(a['dt'])), [float(t) for t in np.atleast_1d(rebuild(a['periods']))], float(rebuild(a['xi']))))
    except Exception:
        pass
    rng = np.random.RandomState(5)
    pers = ([1, 2, 4], [3, 1]) if pdtype == 'int' else ([0.3, 1.7, 0.04], [2.5, 0.9])
    for n in (2, 3, 9, 40):
        for dt in (0.01, 0.2):
            for xi in (0.0, 0.05, 0.6):
                for p in pers:
                    cases.append((rng.randn(n), dt, ([0] if lead_zero else []) + list(p), xi))
    for acc, dt, periods, xi in cases:
        arg = _container(periods, kind, pdtype)
        before = np.array(acc, dtype=float)
        try:
            got = fn(acc, dt, arg, xi)
        except Exception as e:
            return dict(status='confirmed', observed={'raises': type(e).__name__, 'message': str(e)[:200]}, detail='raised on a valid input',
                        input={'acc': before.tolist(), 'dt': dt, 'periods': repr(arg), 'xi': xi})
        want = expected(before, dt, periods, xi, true_spectra)
        for nm, g, w_ in zip(('S_d', 'S_v', 'S_a'), got, want):
            g = np.asarray(g, dtype=float)
            if g.shape != w_.shape or np.max(np.abs(g - w_)) > 1e-6 * max(np.max(np.abs(w_)), 1e-12):
                return dict(status='confirmed', observed={'which': nm, 'got': g.tolist(), 'expected_from_property': w_.tolist()},
                            detail='%s of %s differs from the property statement evaluated independently' % (nm, fn.__name__),
                            input={'acc': before.tolist(), 'dt': dt, 'periods': repr(arg), 'xi': xi})
        if not np.array_equal(before, np.asarray(acc, dtype=float)):
            return dict(status='confirmed', observed={'mutated': 'acc'}, detail='input record modified', input={'acc': before.tolist(), 'dt': dt, 'periods': repr(arg), 'xi': xi})
    return dict(status='not-reproduced', detail='%s agrees with the independently evaluated property on the model input and %d battery inputs' % (fn.__name__, len(cases)))

"""Concrete oracle for C15: the real Stockwell functions against an independent numpy evaluation of the discrete S-transform."""
import numpy as np


def s_transform_conj(x):
    n = len(x) // 2 * 2
    x = np.asarray(x[:n], dtype=float)
    X = np.fft.fft(x)
    out = np.zeros((n // 2, n), dtype=complex)
    t = np.arange(n)
    for rho in range(n // 2):
        k = n // 2 - rho
        acc = np.zeros(n, dtype=complex)
        for j in range(n):
            m = j if j <= n // 2 else j - n
            acc += X[(m + k) % n] * np.exp(-2 * np.pi ** 2 * m ** 2 / k ** 2) * np.exp(2j * np.pi * j * t / n)
        out[rho] = np.conj(acc / n)
    return out, X


def replay(info, ce):
    from eqsig import stockwell
    rng = np.random.RandomState(5)
    for n in (4, 5, 8, 9, 16, 33, 258, 259):           # 258/259: 129 = 128 + 1 rows
        x = rng.randn(n)
        want, X = s_transform_conj(x)
        for nm in ('transform', 'transform_w_scipy_fft'):
            got = getattr(stockwell, nm)(x.copy())
            if got.shape != want.shape or np.max(np.abs(got - want)) > 1e-9 * max(1.0, np.max(np.abs(want))):
                return dict(status='confirmed', observed={'function': nm, 'n': n, 'max_abs_error': float(np.max(np.abs(got - want))) if got.shape == want.shape else 'shape %s' % (got.shape,)},
                            detail='%s(record of length %d) differs from the conjugate discrete S-transform' % (nm, n), input={'x': x.tolist()})
        m = len(x) // 2 * 2
        xe = x[:m]
        back = stockwell.itransform(stockwell.transform(x.copy()))
        wantx = xe - xe.mean() - (np.sum(xe * (-1.0) ** np.arange(m)) / m) * (-1.0) ** np.arange(m)
        if len(back) != m or np.max(np.abs(back - wantx)) > 1e-9:
            return dict(status='confirmed', observed={'n': n, 'max_abs_error': float(np.max(np.abs(back - wantx))) if len(back) == m else 'length %d' % len(back)},
                        detail='itransform(transform(x)) differs from x minus mean and Nyquist component (n=%d)' % n, input={'x': x.tolist()})
        S = stockwell.transform(x.copy())
        f = stockwell.get_max_tifq_vals_freq(S, 0.01)
        k = m // 2 - np.argmax(np.abs(S), axis=0)
        if np.max(np.abs(f - k / (m * 0.01))) > 1e-9:
            return dict(status='confirmed', observed={'n': n}, detail='dominant-frequency axis is not k/(N dt)', input={'x': x.tolist()})
    # dominant-frequency axis over MANY (rows, dt) combinations (the property quantifies over all lengths and all dt): row r of a
    # transform with `rows` rows is the frequency (rows - r)/(2 rows dt), through both entry points
    import eqsig
    for dt in (1.0, 0.5, 0.1, 0.02, 0.01, 0.005, 0.004):
        for rows in range(2, 260):
            S = np.zeros((rows, 3), dtype=complex)
            hot = [0, rows // 2, rows - 1]
            for c, r in enumerate(hot):
                S[r, c] = 1.0
            want = np.array([(rows - r) / (2 * rows * dt) for r in hot])
            got = np.asarray(stockwell.get_max_tifq_vals_freq(S, dt))
            if got.shape != want.shape or np.max(np.abs(got - want)) > 1e-9 * np.max(want):
                return dict(status='confirmed', observed={'rows': rows, 'dt': dt, 'got': got.tolist(), 'expected': want.tolist()},
                            detail='get_max_tifq_vals_freq: the frequency reported for row r is not (rows - r)/(2 rows dt) for a transform with %d rows (records of %d or %d samples), dt=%g' % (rows, 2 * rows, 2 * rows + 1, dt),
                            input={'rows': rows, 'dt': dt, 'hot_rows': hot})
            for npts in (2 * rows, 2 * rows + 1):          # an odd-length record is truncated to even length by the transform: same rows
                a = eqsig.AccSignal(np.zeros(npts), dt)
                a.swtf = S
                got = np.asarray(stockwell.get_max_stockwell_freq(a))
                if got.shape != want.shape or np.max(np.abs(got - want)) > 1e-9 * np.max(want):
                    return dict(status='confirmed', observed={'rows': rows, 'npts': npts, 'dt': dt, 'got': got.tolist(), 'expected': want.tolist()},
                                detail='get_max_stockwell_freq: wrong frequency axis for a record of %d samples (transform with %d rows), dt=%g' % (npts, rows, dt),
                                input={'rows': rows, 'npts': npts, 'dt': dt, 'hot_rows': hot})
    return dict(status='not-reproduced', detail='real Stockwell functions agree with the independent evaluation on the battery')

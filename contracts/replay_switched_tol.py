"""Concrete oracle for the tolerance clause of the switched peaks (C12) in the region where it holds on the unchanged code (the tolerance
does not exceed the peak of any zero-tolerance half cycle; the rest is known finding K5): exhaustive over small integer series."""
import itertools

import numpy as np


def replay(info, ce):
    from eqsig.fns.peaks_and_crossings import get_switched_peak_array_indices as f
    tried = 0
    for n in (3, 4, 5):
        for vals in itertools.product(range(-3, 4), repeat=n):
            if len(set(vals)) == 1:
                continue
            x = np.array(vals, dtype=float)
            base = np.asarray(f(x)).tolist()
            for tol in (0.5, 1.0, 2.0, 3.0):
                if any(tol > abs(x[p]) for p in base):
                    continue
                got = np.asarray(f(x, tol=tol)).tolist()
                tried += 1
                if not set(got) <= set(base) or any(a >= b for a, b in zip(got, got[1:])):
                    return dict(status='confirmed', observed={'tol_result': got, 'zero_tol_result': base},
                                detail='values=%s, tol=%g (not above any half-cycle peak): %s is not a subsequence of the zero-tolerance result %s' % (list(vals), tol, got, base),
                                input={'values': list(vals), 'tol': tol})
    return dict(status='not-reproduced', detail='tolerance results are subsequences of the zero-tolerance results on %d series/tolerance pairs' % tried)

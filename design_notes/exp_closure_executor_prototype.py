# Throw-away feasibility prototype (NOT framework code): closure-array symbolic execution of real eqsig AST.
import ast, inspect, itertools, time, sys
import z3

I, R, B = z3.IntSort(), z3.RealSort(), z3.BoolSort()
_cnt = itertools.count()
def fresh(name, sort): return z3.Const('%s!%d' % (name, next(_cnt)), sort)
def freshf(name, *sorts): return z3.Function('%s!%d' % (name, next(_cnt)), *sorts)

def toreal(x):
    if isinstance(x, (int, float)): return z3.RealVal(repr(x)) if isinstance(x, float) else z3.RealVal(x)
    if z3.is_int(x): return z3.ToReal(x)
    return x
def lift(x):
    if isinstance(x, bool): return z3.BoolVal(x)
    if isinstance(x, int): return z3.IntVal(x)
    if isinstance(x, float): return z3.RealVal(repr(x))
    return x
def num2(a, b):
    a, b = lift(a), lift(b)
    if z3.is_real(a) and z3.is_int(b): b = z3.ToReal(b)
    if z3.is_int(a) and z3.is_real(b): a = z3.ToReal(a)
    return a, b

class Arr:
    """1-D ndarray: symbolic length n, element closure at(i)."""
    def __init__(self, n, at, dtype='float'): self.n, self.at, self.dtype = lift(n), at, dtype
    def _bin(self, o, f, dtype=None):
        if isinstance(o, Arr): return Arr(self.n, lambda i: f(*num2(self.at(i), o.at(i))), dtype or self.dtype)
        return Arr(self.n, lambda i: f(*num2(self.at(i), o)), dtype or self.dtype)
    def __add__(s, o): return s._bin(o, lambda a, b: a + b)
    def __sub__(s, o): return s._bin(o, lambda a, b: a - b)
    def __mul__(s, o): return s._bin(o, lambda a, b: a * b)
    __rmul__ = __mul__
    def __neg__(s): return Arr(s.n, lambda i: -s.at(i), s.dtype)
    def __pow__(s, p): assert p == 2; return Arr(s.n, lambda i: s.at(i) * s.at(i), s.dtype)
    def __gt__(s, o): return s._bin(o, lambda a, b: a > b, 'bool')
    def __lt__(s, o): return s._bin(o, lambda a, b: a < b, 'bool')
    def __and__(s, o): return Arr(s.n, lambda i: z3.And(s.at(i), o.at(i)), 'bool')

class Ctx:
    def __init__(self): self.assume, self.oblig = [], []
CTX = None

def normidx(k, n):  # python negative indexing for concrete negative ints only
    if isinstance(k, int) and k < 0: return n + k
    return lift(k)

# ---------------- numpy / scipy models (assumed contracts) ----------------
def np_cumsum(a, out=None):
    c = freshf('cumsum', I, R); i = z3.Int('i')
    CTX.assume += [z3.ForAll([i], z3.Implies(z3.And(0 <= i, i < a.n),
                    c(i) == z3.If(i == 0, toreal(a.at(0)), c(i - 1) + toreal(a.at(i)))), patterns=[c(i)])]
    res = Arr(a.n, lambda k: c(k))
    if out is not None: out.at = res.at   # in-place on the same buffer object
    return res
def cumulative_trapezoid(y, dx=1.0, initial=None):
    assert initial == 0
    c = freshf('cumtrapz', I, R); i = z3.Int('i'); dx = toreal(lift(dx))
    CTX.assume += [z3.ForAll([i], z3.Implies(z3.And(0 <= i, i < y.n),
                    c(i) == z3.If(i == 0, z3.RealVal(0), c(i - 1) + dx * (toreal(y.at(i)) + toreal(y.at(i - 1))) / 2)), patterns=[c(i)])]
    return Arr(y.n, lambda k: c(k))
def np_zeros(n): return Arr(n, lambda i: z3.RealVal(0))
def np_where1(cond):
    w = freshf('where', I, I); pos = freshf('pos', I, I); m = fresh('m', I); k, a, b, i = z3.Ints('k a b i')
    CTX.assume += [m >= 0, m <= cond.n,
        z3.ForAll([k], z3.Implies(z3.And(0 <= k, k < m), z3.And(0 <= w(k), w(k) < cond.n, cond.at(w(k)))), patterns=[w(k)]),
        z3.ForAll([a, b], z3.Implies(z3.And(0 <= a, a < b, b < m), w(a) < w(b)), patterns=[z3.MultiPattern(w(a), w(b))]),
        z3.ForAll([i], z3.Implies(z3.And(0 <= i, i < cond.n, cond.at(i)), z3.And(0 <= pos(i), pos(i) < m, w(pos(i)) == i)), patterns=[pos(i)])]
    r = Arr(m, lambda j: w(j), 'int'); r.pos = pos
    return (r,)
class NP: cumsum = staticmethod(np_cumsum); zeros = staticmethod(np_zeros); where = staticmethod(np_where1)

class IndexErr(Exception): pass

class Interp:
    def __init__(self, fn, glob):
        src = inspect.getsource(fn); self.fdef = ast.parse(src).body[0]; self.glob = glob
    def run(self, **args):
        self.env = dict(args); self.ret = None
        for st in self.fdef.body:
            self.stmt(st)
            if self.ret is not None: break
        return self.ret
    def stmt(self, s):
        if isinstance(s, ast.Expr):
            if isinstance(s.value, ast.Constant): return          # docstring dropped
            self.ev(s.value); return
        if isinstance(s, ast.ImportFrom): self.env[s.names[0].name] = self.glob[s.names[0].name]; return
        if isinstance(s, ast.Assign):
            v = self.ev(s.value); t = s.targets[0]
            if isinstance(t, ast.Name): self.env[t.id] = v
            elif isinstance(t, ast.Tuple):
                for tt, vv in zip(t.elts, v): self.env[tt.id] = vv
            elif isinstance(t, ast.Subscript):      # a[lo:] = arr  (slice store on own buffer)
                base = self.ev(t.value); sl = t.slice; assert isinstance(sl, ast.Slice) and sl.upper is None
                lo = self.ev(sl.lower); old = base.at
                base.at = (lambda old, lo, v: lambda i: z3.If(lift(i) >= lo, toreal(v.at(lift(i) - lo)), old(i)))(old, lo, v)
                CTX.oblig.append(('slice-store length', base.n - lo == v.n))
            return
        if isinstance(s, ast.If):
            c = self.ev(s.test); assert isinstance(c, bool), 'prototype: concrete branch only'
            for st in (s.body if c else s.orelse):
                self.stmt(st)
                if self.ret is not None: return
            return
        if isinstance(s, ast.Return): self.ret = self.ev(s.value); return
        raise NotImplementedError(ast.dump(s)[:80])
    def ev(self, e):
        if isinstance(e, ast.Constant): return e.value
        if isinstance(e, ast.Name): return self.env[e.id] if e.id in self.env else self.glob[e.id]
        if isinstance(e, ast.Tuple): return tuple(self.ev(x) for x in e.elts)
        if isinstance(e, ast.Attribute): return getattr(self.ev(e.value), e.attr)
        if isinstance(e, ast.UnaryOp) and isinstance(e.op, ast.USub): return -self.ev(e.operand)
        if isinstance(e, ast.BinOp):
            a, b = self.ev(e.left), self.ev(e.right)
            if isinstance(e.op, ast.Pow): return a ** b
            if not isinstance(a, Arr) and not isinstance(b, Arr): a, b = num2(a, b)
            op = {ast.Add: lambda: a + b, ast.Sub: lambda: a - b, ast.Mult: lambda: (a * b) if isinstance(a, Arr) or not isinstance(b, Arr) else b * a,
                  ast.BitAnd: lambda: a & b}[type(e.op)]
            return op()
        if isinstance(e, ast.Compare):
            a, b = self.ev(e.left), self.ev(e.comparators[0]); op = e.ops[0]
            if isinstance(op, ast.Is): return a is b
            if isinstance(op, ast.Gt): return a > b
            if isinstance(op, ast.Lt): return a < b
        if isinstance(e, ast.Call):
            f = self.ev(e.func); args = [self.ev(a) for a in e.args]; kw = {k.arg: self.ev(k.value) for k in e.keywords}
            if f is len: return args[0].n
            return f(*args, **kw)
        if isinstance(e, ast.Subscript):
            base = self.ev(e.value); sl = e.slice
            if isinstance(sl, ast.Slice):
                lo = self.ev(sl.lower) if sl.lower else 0; up = self.ev(sl.upper) if sl.upper else None
                assert sl.step is None
                n = base.n; lo_ = normidx(lo, n); up_ = n if up is None else normidx(up, n)
                return Arr(up_ - lo_, (lambda lo_: lambda i: base.at(lift(i) + lo_))(lo_), base.dtype)
            k = self.ev(sl)
            if isinstance(base, tuple): return base[k]
            n = base.n; kk = normidx(k, n)
            CTX.oblig.append(('index in bounds', z3.And(0 <= kk, kk < n)))
            return base.at(kk)
        raise NotImplementedError(ast.dump(e)[:80])

def prove(name, hyps, goal, timeout=20000):
    s = z3.Solver(); s.set('timeout', timeout); s.add(hyps); s.add(z3.Not(goal)); t = time.time(); r = s.check()
    print('  %-46s %-8s %.2fs' % (name, ('PROVED' if r == z3.unsat else 'REFUTED' if r == z3.sat else 'UNKNOWN'), time.time() - t)); return r

def main():
    global CTX
    import eqsig.displacements as D, eqsig.im as IM
    glob = {'np': NP, 'cumulative_trapezoid': cumulative_trapezoid, 'len': len}
    n = z3.Int('n'); a = z3.Function('a', I, R); dt = z3.Real('dt'); i = z3.Int('i')
    pre = [n >= 2, dt > 0]
    for trap in (True, False):
        CTX = Ctx(); print('calc_velo_and_disp_from_accel_arr trap=%s' % trap)
        v, d = Interp(D.calc_velo_and_disp_from_accel_arr, glob).run(acceleration=Arr(n, lambda k: a(k)), dt=dt, trap=trap)
        H = pre + CTX.assume + [0 < i, i < n]
        for nm, ob in CTX.oblig: prove('safety: ' + nm, pre + CTX.assume, ob)
        prove('len(v)==len(d)==n', H, z3.And(v.n == n, d.n == n))
        prove('v[0]==0 and d[0]==0', H, z3.And(v.at(0) == 0, d.at(0) == 0))
        if trap:
            prove('v increments trapezoid', H, v.at(i) - v.at(i - 1) == dt * (a(i) + a(i - 1)) / 2)
            prove('d increments trapezoid', H, d.at(i) - d.at(i - 1) == dt * (v.at(i) + v.at(i - 1)) / 2)
            prove('NEG-CONTROL d increments rectangle', H, d.at(i) - d.at(i - 1) == dt * v.at(i))
        else:
            prove('v increments rectangle(left)', H, v.at(i) - v.at(i - 1) == dt * a(i - 1))
            prove('d increments rectangle(right)', H, d.at(i) - d.at(i - 1) == dt * v.at(i))
    # calc_sig_dur_vals
    CTX = Ctx(); print('calc_sig_dur_vals se=True')
    st, en = z3.Reals('start end')
    res = Interp(IM.calc_sig_dur_vals, glob).run(motion=Arr(n, lambda k: a(k)), dt=dt, start=st, end=en, se=True)
    t0, t1 = res
    pre2 = pre + [0 < st, st < en, en < 1]
    for nm, ob in CTX.oblig: prove('safety: ' + nm + ' (needs precondition)', pre2 + CTX.assume, ob)
    H = pre2 + CTX.assume + [z3.And(*[ob for _, ob in CTX.oblig])]   # assume in-bounds (precondition: some sample qualifies)
    prove('0 <= start_time <= end_time <= (n-1)dt', H, z3.And(0 <= t0, t0 <= t1, t1 <= (n - 1) * dt))
    prove('NEG-CONTROL end_time < start_time', H, t1 < t0)

if __name__ == '__main__': main()

import z3, subprocess, time, re
exec(open(__import__('os').path.join(__import__('os').path.dirname(__file__), 'exp_nigam_loop_invariant_step.py')).read().split("for name, g in goals.items():")[0])
for name, g in goals.items():
    sol = z3.Solver(); sol.add(hyp); sol.add(z3.Not(g))
    smt = "(set-logic ALL)\n" + sol.to_smt2()
    open('/tmp/q_cvc5_exp.smt2', 'w').write(smt)
    t = time.time()
    try:
        out = subprocess.run(["/usr/bin/cvc5", "--tlimit=30000", "--enum-inst", "/tmp/q_cvc5_exp.smt2"], capture_output=True, text=True, timeout=40).stdout.strip()
    except subprocess.TimeoutExpired: out = 'timeout'
    print('%-34s cvc5: %s %.2fs' % (name, out[:40], time.time() - t))

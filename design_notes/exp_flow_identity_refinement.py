# Flow (semigroup) identity of the exact one-step solution with affine forcing: NRA feasibility
import z3, time
xi, w, r = z3.Reals('xi w r')
e1,s1,c1,e2,s2,c2,t1,t2 = z3.Reals('e1 s1 c1 e2 s2 c2 t1 t2')
u0,v0,f0,g = z3.Reals('u0 v0 f0 g')
w2 = w*w
def sol(E,S,C,t,u0,v0,f0,g):
    beta = g/w2
    alpha = (f0 - 2*xi*w*beta)/w2
    wd = w*r
    k1 = u0 - alpha
    k2 = (v0 - beta + xi*w*k1)/wd
    u = E*(k1*C + k2*S) + alpha + beta*t
    v = E*((-xi*w*k1 + wd*k2)*C + (-xi*w*k2 - wd*k1)*S) + beta
    return u, v
E12 = e1*e2; S12 = s1*c2 + c1*s2; C12 = c1*c2 - s1*s2
ua, va = sol(e1,s1,c1,t1,u0,v0,f0,g)
ub, vb = sol(e2,s2,c2,t2,ua,va,f0+g*t1,g)
uc, vc = sol(E12,S12,C12,t1+t2,u0,v0,f0,g)
hyp = [w>0, r>0, r*r==1-xi*xi, xi>=0, xi<1]
for name,(x,y) in {'u':(ub,uc),'v':(vb,vc)}.items():
    s = z3.Solver(); s.set('timeout', 120000); s.add(hyp); s.add(x != y)
    t=time.time(); print(name, s.check(), round(time.time()-t,2))

import z3, time
# (a) algebraic-number bound: continuity of NZS C_h (class C) at T=0.3 to table precision
y = z3.Real('y'); s = z3.Solver(); s.add(y > 0, y*y*y*y == z3.Q(5,3)*z3.Q(5,3)*z3.Q(5,3), z3.Not(z3.And(2*y - z3.Q(293,100) <= z3.Q(1,100)*z3.Q(293,100)*z3.Q(1,2), 2*y - z3.Q(293,100) >= 0)))
t=time.time(); print('(a) C_h jump at 0.3 within 0.5%:', s.check(), round(time.time()-t,3))
# (b) weighted-mean lower bound inductive step
Sw, Saw, wk, ak, m = z3.Reals('Sw Saw wk ak m')
s = z3.Solver(); s.add(wk >= 0, ak >= m, Saw >= m*Sw, z3.Not(Saw + ak*wk >= m*(Sw + wk)))
t=time.time(); print('(b) weighted mean step:', s.check(), round(time.time()-t,3))
# (c) bounded refuter: the e2 negative control with concrete length n=4..6 (quantifier-free by expansion)
def refute(n):
    c = [z3.Real('c%d' % i) for i in range(n)]
    d = [z3.RealVal(0)] + [c[i]-c[i-1] for i in range(1, n)]
    clean = [c[i] != c[i-1] for i in range(1, n)]
    # peaks = [0] + [k for k in 0..n-2 if d[k+1]*d[k]<0] + [n-1]; claim(bad): direction after interior peak equals direction before
    sgn = lambda x: z3.If(x > 0, 1, z3.If(x < 0, -1, 0))
    bad = z3.And(*[z3.Implies(d[k+1]*d[k] < 0, sgn(d[k+1]) == sgn(d[k])) for k in range(1, n-1)])
    s = z3.Solver(); s.add(clean); s.add(z3.Not(bad)); t=time.time(); r = s.check()
    return r, round(time.time()-t,3), ([s.model().eval(x) for x in c] if r == z3.sat else None)
for n in (3, 4, 6): print('(c) bounded refuter n=%d' % n, refute(n))

# Feasibility: inductive step of the nigam_and_jennings_response loop invariant, modularly
# (compute_a_and_b replaced by its contract; SDOF_STEP opaque at this level)
import z3, time
I, R = z3.IntSort(), z3.RealSort()
U = z3.Function('U', I, I, R); V = z3.Function('V', I, I, R)          # state at loop head (havoced)
a11, a12, a21, a22, b11, b12, b21, b22 = [z3.Function(n, I, R) for n in 'a11 a12 a21 a22 b11 b12 b21 b22'.split()]
STu = z3.Function('STEPu', I, R, R, R, R, R); STv = z3.Function('STEPv', I, R, R, R, R, R)
f = z3.Function('acc_in', I, R)        # caller's record; code uses acc = -acc_in
P, N, s, i = z3.Ints('P N s i'); r, j, c = z3.Ints('r j c'); u, v, f0, f1 = z3.Reals('u v f0 f1')
acc = lambda k: -f(k)
MUL = z3.Function('mul', R, R, R)
contract_ab = z3.ForAll([r, u, v, f0, f1], z3.Implies(z3.And(0 <= r, r < P - s),
    z3.And(MUL(a11(r),u) + MUL(a12(r),v) + MUL(b11(r),-f0) + MUL(b12(r),-f1) == STu(r, u, v, f0, f1),
           MUL(a21(r),u) + MUL(a22(r),v) + MUL(b21(r),-f0) + MUL(b22(r),-f1) == STv(r, u, v, f0, f1))),
    patterns=[STu(r, u, v, f0, f1), STv(r, u, v, f0, f1)])
def inv(Uf, Vf, i):
    return z3.And(
        z3.ForAll([r, c], z3.Implies(z3.And(0 <= r, r < s, 0 <= c, c < N), z3.And(Uf(r, c) == 0, Vf(r, c) == 0)), patterns=[Uf(r, c)]),
        z3.ForAll([r], z3.Implies(z3.And(s <= r, r < P), z3.And(Uf(r, 0) == 0, Vf(r, 0) == 0)), patterns=[Uf(r, 0)]),
        z3.ForAll([r, j], z3.Implies(z3.And(s <= r, r < P, 0 <= j, j < i),
            z3.And(Uf(r, j+1) == STu(r - s, Uf(r, j), Vf(r, j), f(j), f(j+1)),
                   Vf(r, j+1) == STv(r - s, Uf(r, j), Vf(r, j), f(j), f(j+1)))), patterns=[Uf(r, j+1)]))
# body: resp_u[s:, i+1] = a[0][0]*resp_u[s:, i] + a[0][1]*resp_v[s:, i] + b[0][0]*acc[i] + b[0][1]*acc[i+1]   (closure store)
U2 = lambda rr, cc: z3.If(z3.And(rr >= s, cc == i + 1), MUL(a11(rr - s),U(rr, i)) + MUL(a12(rr - s),V(rr, i)) + MUL(b11(rr - s),acc(i)) + MUL(b12(rr - s),acc(i+1)), U(rr, cc))
V2 = lambda rr, cc: z3.If(z3.And(rr >= s, cc == i + 1), MUL(a21(rr - s),U(rr, i)) + MUL(a22(rr - s),V(rr, i)) + MUL(b21(rr - s),acc(i)) + MUL(b22(rr - s),acc(i+1)), V(rr, cc))
hyp = [P >= 1, N >= 2, z3.Or(s == 0, s == 1), s < P, 0 <= i, i < N - 1, contract_ab, inv(U, V, i)]
rr, jj = z3.Ints('rr jj')
goals = {
 'rows<s stay zero': z3.Implies(z3.And(0 <= rr, rr < s, 0 <= jj, jj < N), z3.And(U2(rr, jj) == 0, V2(rr, jj) == 0)),
 'col0 zero': z3.Implies(z3.And(s <= rr, rr < P), z3.And(U2(rr, 0) == 0, V2(rr, 0) == 0)),
 'recurrence up to i+1': z3.Implies(z3.And(s <= rr, rr < P, 0 <= jj, jj < i + 1),
     z3.And(U2(rr, jj+1) == STu(rr - s, U2(rr, jj), V2(rr, jj), f(jj), f(jj+1)),
            V2(rr, jj+1) == STv(rr - s, U2(rr, jj), V2(rr, jj), f(jj), f(jj+1)))),
 'NEG-CONTROL wrong sample index': z3.Implies(z3.And(s <= rr, rr < P, 0 <= jj, jj < i + 1),
     U2(rr, jj+1) == STu(rr - s, U2(rr, jj), V2(rr, jj), f(jj), f(jj))),
}
for name, g in goals.items():
    sol = z3.Solver(); sol.set('timeout', 30000); sol.add(hyp)
    # trigger hint: the STEP term we need the contract at
    sol.add(z3.Not(g)); t = time.time(); print('%-34s' % name, sol.check(), round(time.time() - t, 2))

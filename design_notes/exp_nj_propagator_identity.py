import z3, time
xi, w, dt, r, E, S, C = z3.Reals('xi w dt r E S C')
u0, v0, a0, a1 = z3.Reals('u0 v0 a0 a1')
# code (real source transcribed by hand here just for feasibility)
xi2 = xi*xi; w2 = w*w; one_ov_w2 = 1/w2; sqrt_b2 = r; w_sqrt_b2 = w*sqrt_b2
exp_b = E
two_b_ov_w2 = (2*xi*xi - 1)/(w*w*dt)
two_b_ov_w3 = 2*xi/(w*w*w*dt)
sin_wsqrt = S; cos_wsqrt = C
a_11 = exp_b*(xi/sqrt_b2*sin_wsqrt + cos_wsqrt)
a_12 = exp_b/(w*sqrt_b2)*sin_wsqrt
a_21 = -w/sqrt_b2*exp_b*sin_wsqrt
a_22 = exp_b*(cos_wsqrt - xi/sqrt_b2*sin_wsqrt)
bs = two_b_ov_w2 + xi/w
sin_ov = sin_wsqrt/w_sqrt_b2
xwcos = xi*w*cos_wsqrt
wsqrtsin = w_sqrt_b2*sin_wsqrt
b_11 = exp_b*(bs*sin_ov + (two_b_ov_w3+one_ov_w2)*cos_wsqrt) - two_b_ov_w3
b_12 = -exp_b*(two_b_ov_w2*sin_ov + two_b_ov_w3*cos_wsqrt) - one_ov_w2 + two_b_ov_w3
b_21 = exp_b*(bs*(cos_wsqrt - xi/sqrt_b2*sin_wsqrt) - (two_b_ov_w3+one_ov_w2)*(wsqrtsin+xwcos)) + one_ov_w2/dt
b_22 = -exp_b*(two_b_ov_w2*(cos_wsqrt - xi/sqrt_b2*sin_wsqrt) - two_b_ov_w3*(wsqrtsin+xwcos)) - one_ov_w2/dt
# spec: exact solution of u'' + 2 xi w u' + w^2 u = -(f0 + (f1-f0) t/dt)   [N&J has -a(t)]
def spec(sign):
    f0 = sign*a0; f1 = sign*a1
    beta = (f1-f0)/dt/w2                       # w^2*beta = slope
    alpha = (f0 - 2*xi*w*beta)/w2              # 2 xi w beta + w^2 alpha = f0
    wd = w*r
    c1 = u0 - alpha
    c2 = (v0 - beta + xi*w*c1)/wd
    u = E*(c1*C + c2*S) + alpha + beta*dt
    v = E*((-xi*w*c1 + wd*c2)*C + (-xi*w*c2 - wd*c1)*S) + beta
    return u, v
hyp = [w > 0, dt > 0, r > 0, r*r == 1 - xi*xi, xi >= 0, xi < 1, S*S + C*C == 1, E > 0]
for sign in (1, -1):
    us, vs = spec(sign)
    for name, code, sp in [('u', a_11*u0 + a_12*v0 + b_11*a0 + b_12*a1, us), ('v', a_21*u0 + a_22*v0 + b_21*a0 + b_22*a1, vs)]:
        s = z3.Solver(); s.set('timeout', 60000)
        s.add(hyp); s.add(code != sp)
        t = time.time(); res = s.check(); print(sign, name, res, round(time.time()-t, 2))

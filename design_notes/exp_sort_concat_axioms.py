# Feasibility: concatenate + sort axioms -> output is strictly ascending, sound (member of union) and complete
import z3, time
I = z3.IntSort()
A = z3.Function('A', I, I); na = z3.Int('na')   # ascending strictly
B = z3.Function('B', I, I); nb = z3.Int('nb')
a, b, k, x = z3.Ints('a b k x')
def asc(F, n): return z3.ForAll([a, b], z3.Implies(z3.And(0 <= a, a < b, b < n), F(a) < F(b)), patterns=[z3.MultiPattern(F(a), F(b))])
ax = [na >= 0, nb >= 0, asc(A, na), asc(B, nb),
      # disjoint
      z3.ForAll([a, b], z3.Implies(z3.And(0 <= a, a < na, 0 <= b, b < nb), A(a) != B(b)), patterns=[z3.MultiPattern(A(a), B(b))])]
def Cc(k): return z3.If(k < na, A(k), B(k - na))   # concatenate closure, length na+nb
n = na + nb
S = z3.Function('S', I, I); pi = z3.Function('pi', I, I); ip = z3.Function('ip', I, I)
ax += [z3.ForAll([a, b], z3.Implies(z3.And(0 <= a, a < b, b < n), S(a) <= S(b)), patterns=[z3.MultiPattern(S(a), S(b))]),
       z3.ForAll([k], z3.Implies(z3.And(0 <= k, k < n), z3.And(0 <= pi(k), pi(k) < n, S(k) == Cc(pi(k)), ip(pi(k)) == k)), patterns=[S(k)]),
       z3.ForAll([k], z3.Implies(z3.And(0 <= k, k < n), z3.And(0 <= ip(k), ip(k) < n, pi(ip(k)) == k)), patterns=[ip(k)])]
def run(name, goal, extra=()):
    s = z3.Solver(); s.set('timeout', 30000); s.add(ax); s.add(extra); s.add(z3.Not(goal)); t=time.time(); print(name, s.check(), round(time.time()-t,2))
run('sound', z3.Implies(z3.And(0 <= k, k < n), z3.Or(z3.Exists([a], z3.And(0 <= a, a < na, A(a) == S(k))), z3.Exists([b], z3.And(0 <= b, b < nb, B(b) == S(k))))))
run('completeA', z3.Implies(z3.And(0 <= x, x < na), z3.Exists([k], z3.And(0 <= k, k < n, S(k) == A(x)))), [ip(x) == ip(x)])
run('completeB', z3.Implies(z3.And(0 <= x, x < nb), z3.Exists([k], z3.And(0 <= k, k < n, S(k) == B(x)))), [ip(x+na) == ip(x+na)])
run('strict', z3.Implies(z3.And(0 <= k, k + 1 < n), S(k) < S(k+1)))

# Feasibility: np.where axioms + induction step for "monotone between consecutive reported peaks"
import z3, time
I = z3.IntSort(); R = z3.RealSort()
c = z3.Function('c', I, R)         # cleaned values
n = z3.Int('n')                    # len(cleaned)
def d(k): return z3.If(k == 0, z3.RealVal(0), c(k) - c(k-1))   # ediff1d(to_begin=0)
def cond(k): return d(k+1)*d(k) < 0                              # (diff[1:]*diff[:-1] < 0)[k], k in [0,n-1)
w = z3.Function('w', I, I); pos = z3.Function('pos', I, I); m = z3.Int('m')
k, a, b, i = z3.Ints('k a b i')
ax = [n >= 2, m >= 0,
      z3.ForAll([k], z3.Implies(z3.And(0 <= k, k < m), z3.And(0 <= w(k), w(k) < n-1, cond(w(k)))), patterns=[w(k)]),
      z3.ForAll([a, b], z3.Implies(z3.And(0 <= a, a < b, b < m), w(a) < w(b)), patterns=[z3.MultiPattern(w(a), w(b))]),
      z3.ForAll([i], z3.Implies(z3.And(0 <= i, i < n-1, cond(i)), z3.And(0 <= pos(i), pos(i) < m, w(pos(i)) == i)), patterns=[pos(i)]),
      # cleaned: consecutive values differ
      z3.ForAll([k], z3.Implies(z3.And(1 <= k, k < n), c(k) != c(k-1)), patterns=[c(k)])]
# peak_indices p = insert(w,0,0) then append n-1 : length m+2
def p(j): return z3.If(j == 0, z3.IntVal(0), z3.If(j == m+1, n-1, w(j-1)))
j, t = z3.Ints('j t')
sgn = lambda x: z3.If(x > 0, 1, z3.If(x < 0, -1, 0))
# Claim(t): p(j) < t < p(j+1)  ->  sgn(d(t+1)) == sgn(d(t))   [t interior => not a turning point]
goal = z3.Implies(z3.And(0 <= j, j <= m, p(j) < t, t < p(j+1)), sgn(d(t+1)) == sgn(d(t)))
s = z3.Solver(); s.set('timeout', 30000); s.add(ax); s.add(z3.Not(goal)); s.add(pos(t) == pos(t))
t0 = time.time(); print('interior-not-peak', s.check(), round(time.time()-t0, 2))
# strictly ascending p
goal2 = z3.Implies(z3.And(0 <= j, j <= m), p(j) <= p(j+1))
s = z3.Solver(); s.set('timeout', 30000); s.add(ax); s.add(z3.Not(goal2)); t0=time.time(); print('ascending(weak)', s.check(), round(time.time()-t0,2))
# alternation: direction right after a reported interior peak flips
goal3 = z3.Implies(z3.And(1 <= j, j <= m), sgn(d(p(j)+1)) == -sgn(d(p(j))))
s = z3.Solver(); s.set('timeout', 30000); s.add(ax); s.add(z3.Not(goal3)); t0=time.time(); print('flip at peak', s.check(), round(time.time()-t0,2))
# sanity: wrong claim must be refuted (sat)
bad = z3.Implies(z3.And(1 <= j, j <= m), sgn(d(p(j)+1)) == sgn(d(p(j))))
s = z3.Solver(); s.set('timeout', 30000); s.add(ax); s.add(z3.Not(bad)); t0=time.time(); print('negative control', s.check(), round(time.time()-t0,2))

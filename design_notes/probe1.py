import numpy as np, warnings, tempfile, os, traceback
warnings.simplefilter('ignore')
import eqsig
from eqsig import sdof, im
from eqsig.fns import peaks_and_crossings as pc

def sec(t): print('\n==', t)

sec('C03 true_response_spectra with list periods')
a = np.sin(np.arange(200)*0.1)
try:
    print(sdof.true_response_spectra(a, 0.01, [0.5, 1.0], 0.05))
except Exception as e: print('EXC', type(e).__name__, e)
try:
    print(sdof.pseudo_response_spectra(a, 0.01, [0.5, 1.0], 0.05))
except Exception as e: print('EXC', type(e).__name__, e)
try:
    print(sdof.true_response_spectra(a, 0.01, (0.0, 0.5, 1.0), 0.05))
except Exception as e: print('EXC', type(e).__name__, e)

sec('C04 response_times stale')
s = eqsig.AccSignal(a, 0.01)
x = s.s_a
s.response_times = np.array([0.3, 0.6])
print(len(s.s_a), 'fresh would be 2')

sec('C05 reset_values aliasing')
s = eqsig.AccSignal(a, 0.01)
b = np.ones(200)
s.reset_values(b)
s.rebase_displacement()
print('caller array changed:', not np.all(b == 1))
s = eqsig.Signal(a, 0.01); b = np.arange(10.); s.reset_values(b); s.running_average(3); print('caller changed', b)

sec('C05 fft overwrite')
import eqsig.stockwell as st
for dt_ in (float, complex, np.float32, int):
    x = (np.arange(16.)%5).astype(dt_); x0 = x.copy(); st.transform_w_scipy_fft(x); print(dt_, 'changed', not np.array_equal(x, x0))

sec('C06 max_fa_period')
t = np.arange(1024)*0.01
for ph in (0, 1, 2, 3):
    sig = eqsig.AccSignal(np.sin(2*np.pi*2.0*t+ph) + 0.3*np.sin(2*np.pi*5*t), 0.01)
    k = np.argmax(abs(sig.fa_spectrum)); print(ph, im.max_fa_period(sig), 1/sig.fa_frequencies[k])

sec('C11 flat start ptype')
v = [1, 1, 2, 0, 3]
print(pc.get_peak_array_indices(v), pc.get_peak_array_indices(v, 'max'), pc.get_peak_array_indices(v, 'min'))
v = [1, 1, 0, 2, 0]
print(pc.get_peak_array_indices(v), pc.get_peak_array_indices(v, 'max'), pc.get_peak_array_indices(v, 'min'))

sec('C12 switched first')
v = np.array([5., 3, 4, -1, 0])
print(pc.get_switched_peak_array_indices(v))
v = np.array([0, 5., 3, 4, -1, 0])
print(pc.get_switched_peak_array_indices(v))

sec('C16 loader dt>=1')
d = tempfile.mkdtemp()
for dt in (0.01, 0.5, 1.0, 2.5, 12.0, 0.0005):
    ffp = os.path.join(d, 'x.txt')
    eqsig.save_signal(ffp, eqsig.AccSignal(np.array([-1.5, 0, 2.25, 1e5]), dt, label='my label'))
    try:
        v, dtl = eqsig.load_values_and_dt(ffp); print(dt, '->', dtl, v)
    except Exception as e: print(dt, 'EXC', type(e).__name__, e)

sec('C17 butter array cutoff')
s = eqsig.Signal(np.random.rand(500), 0.01)
try: s.butter_pass(np.array([0.5, 10.])); print('ok')
except Exception as e: print('EXC', type(e).__name__, e)
s = eqsig.Signal(np.arange(10.), 0.01); s.running_average(3); print(s.values)

sec('C18 same_start')
vals = [np.arange(10.)+1, np.arange(10.)+5, np.arange(10.)+9]
c = eqsig.Cluster(vals, 0.1, master_index=0); c.same_start(); print([c.values_by_index(i)[0] for i in range(3)])
c = eqsig.Cluster(vals, 0.1, master_index=1); c.same_start(); print([c.values_by_index(i)[0] for i in range(3)])
sec('C18 time_match')
base = np.sin(np.arange(100)*0.3)
lag = np.concatenate([np.zeros(4), base[:-4]])
c = eqsig.Cluster([base, lag], 0.1); print(c.time_match(steps=10), type(c.values_by_index(1)))

sec('C20 step fn err')
from eqsig.fns import average as av
v = np.array([-3., -1, -2, 4, 5, 6])
print(av.calc_step_fn_vals_error(v, pow=1))
def ref(v, p):
    out=[]
    for i in range(len(v)):
        pre=v[:i+1]; post=v[i+1:]
        e=np.sum(abs(pre-pre.mean())**p)+ (np.sum(abs(post-post.mean())**p) if len(post) else 0)
        out.append(e)
    return np.array(out)
print(ref(v,1))
print(av.calc_step_fn_vals_error(v, pow=2)); print(ref(v,2))

import numpy as np, itertools, warnings
warnings.simplefilter('ignore')
from eqsig.fns import peaks_and_crossings as pc
def subseq(a, b):
    it = iter(b); return all(x in it for x in a)
bad_s = bad_z = tot = 0; ex_s = ex_z = None
for n in range(2, 8):
    for v in itertools.product(range(-2, 3), repeat=n):
        if len(set(v)) == 1 or v[0] != 0: continue
        x = np.array(v, float); tot += 1
        for tol in (0.5, 1.0, 1.5):
            s0 = list(pc.get_switched_peak_array_indices(x)); s1 = list(pc.get_switched_peak_array_indices(x, tol=tol))
            if not subseq(s1, s0): bad_s += 1; ex_s = ex_s or (v, tol, s0, s1)
            z0 = list(pc.get_zero_crossings_array_indices(x)); z1 = list(pc.get_zero_crossings_array_indices(x, tol=tol))
            if not subseq(z1, z0): bad_z += 1; ex_z = ex_z or (v, tol, z0, z1)
print(tot, 'switched tol not subseq', bad_s, ex_s, '| zc', bad_z, ex_z)

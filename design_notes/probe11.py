import numpy as np, warnings
warnings.simplefilter('ignore')
import eqsig
s = eqsig.Signal([0, 3, 0, 3, 0, 3], 0.1); s.running_average(3); print('int running_average', s.values, s.values.dtype)
a = eqsig.AccSignal([0, 3, 0, -3, 0, 3, 1, 0], 0.1)
for name, call in [('rebase_displacement', lambda: a.rebase_displacement()), ('remove_rolling_average(values)', lambda: a.remove_rolling_average(mtype='acc', freq_window=3)),
                   ('set_zero_residual_velocity', lambda: a.set_zero_residual_velocity()), ('set_zero_residual_displacement', lambda: a.set_zero_residual_displacement())]:
    a = eqsig.AccSignal([0, 3, 0, -3, 0, 3, 1, 0], 0.1)
    try: call(); print(name, 'ok', a.values.dtype, a.values)
    except Exception as e: print(name, 'EXC', type(e).__name__, str(e)[:90])

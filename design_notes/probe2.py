import numpy as np, warnings
warnings.simplefilter('ignore')
import eqsig
def sec(t): print('\n==', t)
sec('C18 same_start')
vals = [np.arange(30.)+1, np.arange(30.)+5, np.arange(30.)+9]
c = eqsig.Cluster(vals, 0.1, master_index=0); c.same_start(); print([c.values_by_index(i)[0] for i in range(3)])
c = eqsig.Cluster(vals, 0.1, master_index=1); c.same_start(); print([c.values_by_index(i)[0] for i in range(3)])
c = eqsig.Cluster(vals[:2], 0.1, master_index=1); c.same_start(); print([c.values_by_index(i)[0] for i in range(2)])
sec('C18 time_match')
base = np.sin(np.arange(100)*0.3)
for k in (4, -4, 9, -9):
    lag = np.roll(base, k)
    c = eqsig.Cluster([base, lag], 0.1); print(k, c.time_match(steps=10), type(c.values_by_index(1)), np.abs(np.array(c.values_by_index(1))[12:-12]-base[12:-12]).max())
    try:
        c.signal_by_index(1).add_constant(1.0); print(type(c.values_by_index(1)))
    except Exception as e: print('EXC', type(e).__name__, e)
c = eqsig.Cluster([base, np.roll(base,3), np.roll(base, -2)], 0.1, master_index=2); print(c.time_match(steps=10))
print([np.abs(np.array(c.values_by_index(i))[12:-12]-c.values_by_index(2)[12:-12]).max() for i in range(3)])

sec('C20 step fn err')
from eqsig.fns import average as av
v = np.array([-3., -1, -2, 4, 5, 6])
print(av.calc_step_fn_vals_error(v, pow=1))
def ref(v, p):
    out=[]
    for i in range(len(v)):
        pre=v[:i+1]; post=v[i+1:]
        e=np.sum(abs(pre-pre.mean())**p)+ (np.sum(abs(post-post.mean())**p) if len(post) else 0)
        out.append(e)
    return np.array(out)
print(ref(v,1))
print(av.calc_step_fn_vals_error(v, pow=2)); print(ref(v,2))
print(av.calc_step_fn_steps_vals(v), av.calc_step_fn_steps_vals(v, 3))
sec('combine rotate')
ns = eqsig.AccSignal(np.random.rand(50), 0.1); we = eqsig.AccSignal(np.random.rand(50), 0.1)
d, p = eqsig.compute_rotated(ns, we, parameter='pga', points=5); print(d, p)
sec('C03 energy sign')
from eqsig import sdof
rng = np.random.default_rng(0)
mn = 1e9
for trial in range(2000):
    n = rng.integers(2, 40); a = rng.standard_normal(n)*rng.choice([1, 1e-3, 1e3]);
    dt = 10**rng.uniform(-3, 0); T = dt*10**rng.uniform(np.log10(0.2), 3); xi = rng.uniform(0, 0.99)
    s = eqsig.AccSignal(a, dt)
    e = sdof.calc_input_energy_spectrum(s, np.array([T]), xi)[0]
    sc = np.sum(np.abs(a*sdof.response_series(a, dt, np.array([T]), xi)[1][0]*dt))
    if sc > 0: mn = min(mn, e/sc)
    if e < -1e-12*sc: print('NEG', e, sc, n, dt, T, xi); break
print('min ratio', mn)

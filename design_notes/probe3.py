import numpy as np, warnings
warnings.simplefilter('ignore')
import eqsig
from eqsig import sdof
a = np.ones(2000)
u, v, acc = sdof.response_series(a, 0.01, np.array([0.0, 1.0]), 0.05)
print('u end', u[1,-1], 'static 1/w2', 1/(2*np.pi)**2, 'acc row0', acc[0,:3], 'acc row1', acc[1,:3], acc[1,-1])
s = eqsig.AccSignal(a, 0.01)
print(sdof.calc_input_energy_spectrum(s, np.array([1.0]), 0.05))
rng = np.random.default_rng(0)
cnt = 0; neg=0
for trial in range(3000):
    n = rng.integers(2, 400); a = rng.standard_normal(n)
    dt = 0.01; T = dt*10**rng.uniform(np.log10(0.2), 3); xi = rng.uniform(0, 0.99)
    s = eqsig.AccSignal(a, dt)
    e = sdof.calc_input_energy_spectrum(s, np.array([T]), xi)[0]
    cnt += 1; neg += e < 0
print(cnt, neg)

import numpy as np, warnings
warnings.simplefilter('ignore')
from eqsig.fns.time_step import interp_array_to_approx_dt
rng = np.random.default_rng(1)
bad = 0; tot = 0
ex = []
for k in range(1, 60):
    for base in [0.01, 0.005, 0.02, 0.001, 0.1, 0.07, 0.03, 1/3, 0.0123]:
        for (dt, tg) in [(base*k, base), (base, base*k), (k*base, base*1.0000000000000002), (base, k*base*0.9999999999999999)]:
            v = np.arange(40.)
            out, ndt = interp_array_to_approx_dt(v, dt, tg, even=False)
            tot += 1
            r = dt/ndt
            isint = abs(r-round(r)) < 1e-9 or abs(1/r-round(1/r)) < 1e-9
            if ndt > tg or not isint:
                bad += 1
                if len(ex) < 12: ex.append((dt, tg, ndt, ndt > tg, r))
print(tot, bad)
for e in ex: print(e)
# random
bad=0
for t in range(200000):
    dt = 10**rng.uniform(-4, 0); tg = 10**rng.uniform(-4, 0)
    f = dt/tg
    if f == 1: nd = dt
    elif f > 1: nd = dt/int(np.ceil(f))
    else: nd = dt/(1/np.floor(1/f))
    if nd > tg: bad += 1; 
print('random bad', bad)

import numpy as np, warnings, tempfile, os
warnings.simplefilter('ignore')
import eqsig
d = tempfile.mkdtemp(); ffp = os.path.join(d, 'x.txt')
def rt(vals, dt, label='m1', **kw):
    eqsig.save_signal(ffp, eqsig.AccSignal(np.array(vals, dtype=float), dt, label=label))
    try:
        s = eqsig.load_asig(ffp, load_label=True, **kw); return s.npts, s.dt, s.values, s.label, type(s).__name__
    except Exception as e:
        return 'EXC', type(e).__name__, str(e)[:100]
print(rt([1.5], 0.01))
print(rt([1.5, 2], 0.01, label='my label, with comma'))
print(rt([1.5, -2, 0], 0.01, m=2.0))
print(rt([1.5, -2, 0], 0.99996))
print(rt([1.5, -2, 0], 0.00004))
print(rt([1e300, -2, 0], 0.02))
print(open(ffp).read()[:80])
s = eqsig.load_signal(ffp); print(s)
s = eqsig.load_signal(ffp, astype='signal'); print(type(s))
s = eqsig.load_sig(ffp); print(type(s))

import numpy as np, warnings
warnings.simplefilter('ignore')
import eqsig
from eqsig.fns.time_step import resample_to_approx_dt, interp_array_to_approx_dt
def sig(n, dt, cyc=3):
    t = np.arange(n)*dt; T = n*dt
    return eqsig.AccSignal(np.sin(2*np.pi*cyc*t/T) + 0.5*np.cos(2*np.pi*2*cyc*t/T), dt), T, cyc
for n, dt, tg, even in [(100, 0.01, 0.005, True), (101, 0.01, 0.005, True), (101, 0.01, 0.005, False), (101, 0.01, 0.01, True), (100, 0.01, 0.03, True), (100, 0.01, 0.03, False), (99, 0.01, 0.03, False), (120, 0.01, 0.02, True), (121, 0.01, 0.02, True)]:
    s, T, cyc = sig(n, dt)
    try:
        r = resample_to_approx_dt(s, tg, even=even)
        t = r.time
        exact = np.sin(2*np.pi*cyc*t/T) + 0.5*np.cos(2*np.pi*2*cyc*t/T)
        print(n, dt, tg, even, '->', r.npts, r.dt, 'maxerr', np.abs(r.values-exact).max())
    except Exception as e:
        print(n, dt, tg, even, 'EXC', type(e).__name__, str(e)[:80])

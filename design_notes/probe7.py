import numpy as np, warnings, itertools
warnings.simplefilter('ignore')
import eqsig
from eqsig.fns import peaks_and_crossings as pc
from eqsig import im
def sec(t): print('\n==', t)

sec('C11 exhaustive small: all-peaks spec')
def spec_peaks(v):
    v = np.asarray(v, float); n = len(v)
    # turning points: first sample of a plateau that is a local extremum; plus index 0 and first sample of final constant run
    # compress
    idx = [0] + [i for i in range(1, n) if v[i] != v[i-1]]
    c = v[idx]
    out = [0]
    for k in range(1, len(c)-1):
        if (c[k]-c[k-1])*(c[k+1]-c[k]) < 0: out.append(idx[k])
    out.append(idx[-1])
    return sorted(set(out)), idx, c
bad = {'all':0,'max':0,'min':0}; ex = {}
tot = 0
for n in range(2, 8):
    for v in itertools.product(range(-2, 3), repeat=n):
        if len(set(v)) == 1: continue
        tot += 1
        sp, idx, c = spec_peaks(v)
        got = list(pc.get_peak_array_indices(v))
        if got != sp:
            bad['all'] += 1; ex.setdefault('all', (v, got, sp))
        # max/min: reported indices that are local maxima
        def ismax(i):
            k = idx.index(i) if i in idx else None
            l = c[k-1] if k > 0 else None; r = c[k+1] if k < len(c)-1 else None
            return (l is None or l < c[k]) and (r is None or r < c[k])
        def ismin(i):
            k = idx.index(i)
            l = c[k-1] if k > 0 else None; r = c[k+1] if k < len(c)-1 else None
            return (l is None or l > c[k]) and (r is None or r > c[k])
        gmax = list(pc.get_peak_array_indices(v, 'max')); gmin = list(pc.get_peak_array_indices(v, 'min'))
        if gmax != [i for i in sp if ismax(i)]: bad['max'] += 1; ex.setdefault('max', (v, gmax, [i for i in sp if ismax(i)]))
        if gmin != [i for i in sp if ismin(i)]: bad['min'] += 1; ex.setdefault('min', (v, gmin, [i for i in sp if ismin(i)]))
print(tot, bad); print(ex)

sec('C11 n_cyc')
v = [0, 1, 0, 2, -1, 0]
print(pc.get_n_cyc_array(v), pc.get_n_cyc_array(v, start='peak'))

sec('C12 zero crossings exhaustive')
def spec_zc(v, keep):
    n = len(v); out = {0}
    for i in range(n):
        if v[i] == 0 and (keep or i == 0 or v[i-1] != 0): out.add(i)
        if i > 0 and v[i]*v[i-1] < 0: out.add(i)
    return sorted(out)
badz = 0; exz = None; tot = 0
for n in range(1, 8):
    for v in itertools.product(range(-2, 3), repeat=n):
        for keep in (False, True):
            tot += 1
            got = list(pc.get_zero_crossings_array_indices(v, keep_adj_zeros=keep))
            if got != spec_zc(v, keep): badz += 1; exz = exz or (v, keep, got, spec_zc(v, keep))
print(tot, badz, exz)

sec('C12 switched peaks exhaustive')
def excursions(v):
    ex = []; cur = None
    for i, x in enumerate(v):
        s = (x > 0) - (x < 0)
        if s == 0: cur = None; continue
        if cur is None or cur[0] != s: cur = [s, []]; ex.append(cur)
        cur[1].append(i)
    return ex
bads = 0; exs = []; tot = 0
for n in range(2, 8):
    for v in itertools.product(range(-2, 3), repeat=n):
        if len(set(v)) == 1: continue
        tot += 1
        va = np.array(v, float)
        got = list(pc.get_switched_peak_array_indices(va))
        ok = all(b > a for a, b in zip(got, got[1:]))
        for s, idxs in excursions(v):
            ins = [i for i in got if i in idxs]
            if len(ins) != 1 or abs(v[ins[0]]) != max(abs(v[i]) for i in idxs): ok = False
        gm = max(abs(x) for x in v)
        if not any(abs(v[i]) == gm for i in got): ok = False
        if not ok:
            bads += 1
            if len(exs) < 6: exs.append((v, got))
print(tot, bads, exs)
# restricted to v[0]==0
bads0 = 0; ex0 = []
for n in range(2, 8):
    for v in itertools.product(range(-2, 3), repeat=n):
        if len(set(v)) == 1 or v[0] != 0: continue
        va = np.array(v, float); got = list(pc.get_switched_peak_array_indices(va)); ok = all(b > a for a, b in zip(got, got[1:]))
        for s, idxs in excursions(v):
            ins = [i for i in got if i in idxs]
            if len(ins) != 1 or abs(v[ins[0]]) != max(abs(v[i]) for i in idxs): ok = False
        if not ok:
            bads0 += 1
            if len(ex0) < 6: ex0.append((v, got))
print('start-at-zero failures', bads0, ex0)

import numpy as np, warnings, itertools
warnings.simplefilter('ignore')
import eqsig
from eqsig.fns import peaks_and_crossings as pc
from eqsig import im
rng = np.random.default_rng(3)
def sec(t): print('\n==', t)

sec('C13 total variation')
bad = 0; ex = None; tot = 0
for n in range(2, 8):
    for v in itertools.product(range(-2, 3), repeat=n):
        if len(set(v)) == 1: continue
        tot += 1
        x = np.array(v, float)
        d = pc.determine_peaks_only_delta_series(x)
        tv = np.abs(np.diff(x)).sum()
        pks = set(pc.get_peak_array_indices(x))
        ok = np.isclose(np.abs(d).sum(), tv) and np.isclose(abs(d.sum()), abs(x[-1]-x[0])) and all(d[i] == 0 for i in range(n) if i not in pks)
        p = pc.determine_pseudo_cyclic_peak_only_series(x)
        lastdir = np.sign([dd for dd in np.diff(x) if dd != 0][-1])
        ok2 = np.isclose(p.sum(), 0.5*tv + 0.5*lastdir*(x[-1]-x[0]))
        ok3 = np.allclose(pc.determine_peaks_only_delta_series(x+7.5), d) and np.allclose(pc.determine_pseudo_cyclic_peak_only_series(x-3.25), p)
        if not (ok and ok2 and ok3):
            bad += 1; ex = ex or (v, d, tv, p, ok, ok2, ok3)
print(tot, bad, ex)
# integer dtype input
x = np.array([0, 2, 1, 2, 0, 1, 0, -1, 0, 1, 0]); x0 = x.copy()
print(pc.determine_peaks_only_delta_series(x), pc.determine_pseudo_cyclic_peak_only_series(x), np.array_equal(x, x0))
x = np.array([3, 5, 4]); print('int offset', pc.determine_peaks_only_delta_series(x), pc.determine_pseudo_cyclic_peak_only_series(x))

sec('C13 power-law inverse')
for trial in range(5):
    v = rng.standard_normal(300).cumsum()*0.1; v -= np.linspace(0, v[-1], 300)
    b = rng.uniform(0.05, 1); aref = rng.uniform(0.1, 2); co = rng.choice([0, 0.01, 0.1])
    nc = im.calc_n_cyc_array_w_power_law(v, aref, b, cut_off=co)
    amp = im.calc_cyc_amp_array_w_power_law(v, nc[-1], b)
    print(round(b,3), co, 'n', nc[-1].item() if hasattr(nc[-1],'item') else nc[-1], 'amp', amp[-1], 'aref', aref, len(nc)==300, np.all(np.diff(nc[:,0] if nc.ndim>1 else nc)>=0))
v0 = np.array([0, 1., -1, 2, -0.5, 0])
a1 = im.calc_cyc_amp_array_w_power_law(v0, 15, 0.3)[-1]
print('combined ratio', im.calc_cyc_amp_combined_arrays_w_power_law(v0, v0, 15, 0.3)[-1]/a1, 2**0.3, 'gm', im.calc_cyc_amp_gm_arrays_w_power_law(v0, v0, 15, 0.3)[-1]/a1)
print('shape nc', im.calc_n_cyc_array_w_power_law(v0, 1.0, 0.3).shape, im.calc_n_cyc_array_w_power_law(v0, 1.0, np.array([0.3, 0.5])).shape)

sec('C09 series')
a = rng.standard_normal(500)*2; dt = 0.01; s = eqsig.AccSignal(a, dt)
for f in (im.calc_arias_intensity, im.calc_cav, im.calc_cav_dp, im.calc_isv, im.calc_integral_of_abs_velocity, im.calc_integral_of_abs_acceleration, im.calc_unit_kinetic_energy):
    r = f(s); print(f.__name__, len(r), np.all(np.diff(r) >= -1e-15), r[-1])
print('cavdp<=cav/9.81', im.calc_cav_dp(s)[-1], im.calc_cav(s)[-1]/9.81)
# windows sum
g = np.abs(a)/9.81; pps = 100; tot = 0
for w in range(int(s.time[-1])):
    seg = g[w*pps:(w+1)*pps+1]
    if seg.max() >= 0.025: tot += np.trapz(seg, dx=dt) if hasattr(np,'trapz') else np.trapezoid(seg, dx=dt)
print('window-sum', tot)
s2 = eqsig.AccSignal(a*1e-3, dt); print('gate zero', im.calc_cav_dp(s2)[-1])
for dtx in (0.02, 0.005, 0.004, 0.025, 0.05, 0.1, 0.2, 0.5):
    aa = rng.standard_normal(int(6/dtx)+1); 
    try:
        r = im.calc_cav_dp(eqsig.AccSignal(aa, dtx)); print(dtx, len(r)==len(aa), np.all(np.diff(r)>=0), r[-1], im.calc_cav(eqsig.AccSignal(aa, dtx))[-1]/9.81)
    except Exception as e: print(dtx, 'EXC', type(e).__name__, e)

sec('C10 durations')
s = eqsig.AccSignal(a, dt)
print(im.calc_sig_dur(s, se=True), im.calc_sig_dur_vals(a, dt, se=True), im.calc_brac_dur(s, 1.0, se=True), im.calc_brac_dur(s, 100.0), im.calc_brac_dur(s, 100.0, se=True))
print(im.calc_sig_dur(s, start=0.2, end=0.7, se=True), im.calc_sig_dur(s, im=im.calc_cav, se=True))
z = eqsig.AccSignal(np.concatenate([np.zeros(7), a]), dt); print(im.calc_sig_dur(z, se=True), 7*dt)
print(im.calc_sig_dur(eqsig.AccSignal(a*3.7, dt), se=True))

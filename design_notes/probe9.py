import numpy as np, warnings, itertools
warnings.simplefilter('ignore')
import eqsig
from eqsig import im, surface, stockwell
from eqsig.fns import generic, average, time_shift, frequency, time_step
rng = np.random.default_rng(5)
def sec(t): print('\n==', t)

sec('C20 interp2d / interp_left / roll av')
xf = np.array([0., 1, 2.5, 4]); f = rng.standard_normal((4, 3))
x = np.array([-1, 0, 0.3, 1, 1.75, 2.5, 3.9, 4, 5, 1.7499999])
ref = np.stack([np.interp(x, xf, f[:, j]) for j in range(3)], axis=1)
print('interp2d maxerr', np.abs(generic.interp2d(x, xf, f) - ref).max())
print('interp_left', generic.interp_left([0, 0.5, 1, 3.9, 4, 10], xf), generic.interp_left(2.6, xf, [10, 20, 30, 40]))
v = rng.standard_normal(12)
for mode in ('forward', 'backward', 'centre'):
    for st in (1, 2, 3, 4, 12):
        r = average.calc_roll_av_vals(v, st, mode=mode)
        n = len(v)
        def ext(i): return v[min(max(i, 0), n-1)]
        if mode == 'forward': ref = [np.mean([ext(i+k) for k in range(st)]) for i in range(n)]
        elif mode == 'backward': ref = [np.mean([ext(i-k) for k in range(st)]) for i in range(n)]
        else:
            s = st//2; e = st - s - 1; ref = [np.mean([ext(i+k) for k in range(-s, e+1)]) for i in range(n)]
        if not np.allclose(r, ref) or len(r) != n: print('ROLL MISMATCH', mode, st)
print('roll ok')
sec('C20 design spectra')
from eqsig import design_spectra as ds
for sc in 'CDE':
    Ts = [0.0, 0.05, 0.1, 0.3, 0.56, 1.0, 1.5, 3.0, 4.0]
    print(sc, [round(float(ds.c_h_factor(T, sc)), 4) for T in Ts])
    print(sc, [round(float(ds.c_h_factor(T-1e-9, sc)), 4) for T in Ts[2:]])
    print(sc, 'sd/ch*T2', [ds.sd_nzs(T, sc, 0.3, 1.0, 1.0) - ds.c_h_factor(T, sc)*T**2*0.3 for T in Ts])
    dc = ds.sd_nzs(3.0, sc, 0.3, 1.0, 1.0)/(2*np.pi)**2*9.81
    print(sc, 't_eff(dc)=', ds.t_eff(dc, sc, 0.3, 1.0, 1.0), ds.t_eff(dc/2, sc, 0.3, 1.0, 1.0))
print(ds.c_h_factor(np.array([0.5, 1.0]), 'C'), ds.c_h_factor(1, 'C') if False else '')
try: print(ds.c_h_factor(1, 'C'))
except Exception as e: print('int period EXC', type(e).__name__, e)

sec('C19 surface')
a = rng.standard_normal(60); dt = 0.1; s = eqsig.AccSignal(a, dt)
for tt in ([0.0], [0.05], [0.13], [0.2, 0.35], 0.2):
    for nodal, trim, start in itertools.product([True, False], repeat=3):
        try:
            e = surface.calc_surface_energy(s, np.array(tt) if isinstance(tt, list) else tt, nodal=nodal, trim=trim, start=start, stt=0.3)
            c = surface.calc_cum_abs_surface_energy(s, np.array(tt) if isinstance(tt, list) else tt, nodal=nodal, trim=trim, start=start, stt=0.3)
            mono = np.all(np.diff(c, axis=-1) >= 0)
            if not mono: print('NONMONO', tt, nodal, trim, start)
            if tt in ([0.0],) and nodal and np.abs(c).max() != 0: print('nonzero nodal zero tt', c.max())
            if trim and e.shape[-1] != 60: print('LEN', tt, nodal, trim, start, e.shape)
        except Exception as ex:
            print('EXC', tt, nodal, trim, start, type(ex).__name__, str(ex)[:70])
e2 = surface.calc_surface_energy(s, np.array([0.2, 0.35])); e1 = surface.calc_surface_energy(s, np.array([0.2])); print('row consistency', e2.shape, e1.shape, np.abs(e2[0][:len(e1)] - e1).max())
try:
    print(surface.calc_surface_energy(s, np.array([0.2, 0.35]), up_red=np.array([0.9, 0.8]), down_red=np.array([0.7, 0.6])).shape)
except Exception as ex: print('EXC array red', type(ex).__name__, ex)
print(time_shift.put_array_in_2d_array(np.arange(1, 4), [-2, 0, 1]))
for clip in ('none', 'start', 'end', 'both'): print(clip, time_shift.put_array_in_2d_array(np.arange(1, 4), [-2, 0, 1], clip=clip).shape)
print(time_shift.join_values_w_shifts(np.arange(1., 4), [0, 2], jtype='sub'))
try: print(time_shift.join_values_w_shifts(np.arange(1., 4), [-1, 2]))
except Exception as ex: print('EXC join neg', type(ex).__name__, str(ex)[:80])
g = surface.get_time_shift_motions(s, np.array([0.2, 0.35])); print('get_time_shift_motions batch', type(g), None if g is None else g.shape)

sec('C07 smoothing')
fa_f = np.arange(0, 512)/(1024*0.01); fa = np.abs(rng.standard_normal(512)) + 0.1
for sm in (np.array([0.5, 1.0, 5.0, 30.0]), fa_f[[3, 10, 100]], np.array([1e-3, 200.])):
    r = frequency.calc_smooth_fa_spectrum(fa_f, fa, sm, band=40)
    M = frequency.calc_smoothing_matrix_konno_1998(fa_f, sm, band=40)
    print(r, 'colsum', M.sum(axis=0), 'min', M.min(), 'within', np.all((r >= fa[1:].min()-1e-12) & (r <= fa[1:].max()+1e-12)), 'matrix==direct', np.allclose(np.dot(fa[1:], M), r))
print('const', frequency.calc_smooth_fa_spectrum(fa_f, 3*np.ones(512), np.array([0.5, 7.0])))

sec('C06 / C15')
x = rng.standard_normal(100); sg = eqsig.Signal(x, 0.02)
N = 128; X = np.fft.fft(np.pad(x, (0, 28)))*0.02
print('fa', np.allclose(sg.fa_spectrum, X[:64]), np.allclose(sg.fa_freqs, np.arange(64)/(128*0.02)))
sg.gen_fa_spectrum(p2_plus=2); print(len(sg.fa_spectrum)); sg.gen_fa_spectrum(n=300); print(len(sg.fa_spectrum), sg.fa_freqs[1], 1/(300*0.02))
f1, fr1 = frequency.calc_fa_spectrum(sg); print(len(f1), fr1[1], 1/(100*0.02)); f2, fr2 = frequency.calc_fa_spectrum(eqsig.Signal(x[:99], 0.02)); print(len(f2), fr2[1], 1/(99*0.02), 1/(98*0.02))
rec = frequency.fas2values(eqsig.Signal(x, 0.02).fa_spectrum, 0.02); xp = np.pad(x, (0, 28)); Xp = np.fft.fft(xp); nyq = Xp[64].real*np.cos(np.pi*np.arange(128))/128
print('fas2values err', np.abs(rec.real - (xp - xp.mean() - nyq)).max(), np.abs(rec.imag).max())
for n in (16, 17):
    x = rng.standard_normal(n); st = stockwell.transform(x); st2 = stockwell.transform_w_scipy_fft(x.copy())
    print(n, st.shape, np.allclose(st, st2))
    ne = 2*(n//2); xe = x[:ne]; Xe = np.fft.fft(xe)
    print(' row sums == conj fft', np.allclose(st.sum(axis=1)[::-1], np.conj(Xe[1:ne//2+1])))
    inv = stockwell.itransform(st); nyq = Xe[ne//2].real*np.cos(np.pi*np.arange(ne))/ne
    print(' inverse err', np.abs(inv - (xe - xe.mean() - nyq)).max())

import Mathlib.Analysis.SpecialFunctions.Trigonometric.Deriv
import Mathlib.Analysis.SpecialFunctions.ExpDeriv
open Real

-- closed-form one-step solution with affine forcing f0 + g t
noncomputable def uSol (xi w k1 k2 al be : ℝ) (t : ℝ) : ℝ :=
  exp (-(xi*w)*t) * (k1 * cos (w*sqrt (1-xi^2)*t) + k2 * sin (w*sqrt (1-xi^2)*t)) + al + be*t

noncomputable def vSol (xi w k1 k2 be : ℝ) (t : ℝ) : ℝ :=
  exp (-(xi*w)*t) * ((-(xi*w)*k1 + w*sqrt (1-xi^2)*k2) * cos (w*sqrt (1-xi^2)*t)
     + (-(xi*w)*k2 - w*sqrt (1-xi^2)*k1) * sin (w*sqrt (1-xi^2)*t)) + be

theorem uSol_deriv (xi w k1 k2 al be t : ℝ) :
    HasDerivAt (uSol xi w k1 k2 al be) (vSol xi w k1 k2 be t) t := by
  unfold vSol
  have hE : HasDerivAt (fun t => exp (-(xi*w)*t)) (exp (-(xi*w)*t) * (-(xi*w))) t := by
    have := ((hasDerivAt_id t).const_mul (-(xi*w))).exp
    simpa using this
  have hC : HasDerivAt (fun t => cos (w*sqrt (1-xi^2)*t)) (-sin (w*sqrt (1-xi^2)*t) * (w*sqrt (1-xi^2))) t := by
    have := ((hasDerivAt_id t).const_mul (w*sqrt (1-xi^2))).cos
    simpa using this
  have hS : HasDerivAt (fun t => sin (w*sqrt (1-xi^2)*t)) (cos (w*sqrt (1-xi^2)*t) * (w*sqrt (1-xi^2))) t := by
    have := ((hasDerivAt_id t).const_mul (w*sqrt (1-xi^2))).sin
    simpa using this
  have h := ((hE.mul ((hC.const_mul k1).add (hS.const_mul k2))).add_const al).add ((hasDerivAt_id t).const_mul be)
  have h2 : HasDerivAt (uSol xi w k1 k2 al be) _ t := h
  refine h2.congr_deriv ?_
  simp only [Pi.add_apply, Pi.mul_apply, id]
  ring

theorem vSol_ode (xi w k1 k2 al be f0 g t : ℝ) (hxi : 0 ≤ 1 - xi^2)
    (hbe : w^2 * be = g) (hal : 2*xi*w*be + w^2*al = f0) :
    ∃ a, HasDerivAt (vSol xi w k1 k2 be) a t ∧
      a + 2*xi*w*(vSol xi w k1 k2 be t) + w^2 * (uSol xi w k1 k2 al be t) = f0 + g*t := by
  have hE : HasDerivAt (fun t => exp (-(xi*w)*t)) (exp (-(xi*w)*t) * (-(xi*w))) t := by
    have := ((hasDerivAt_id t).const_mul (-(xi*w))).exp
    simpa using this
  have hC : HasDerivAt (fun t => cos (w*sqrt (1-xi^2)*t)) (-sin (w*sqrt (1-xi^2)*t) * (w*sqrt (1-xi^2))) t := by
    have := ((hasDerivAt_id t).const_mul (w*sqrt (1-xi^2))).cos
    simpa using this
  have hS : HasDerivAt (fun t => sin (w*sqrt (1-xi^2)*t)) (cos (w*sqrt (1-xi^2)*t) * (w*sqrt (1-xi^2))) t := by
    have := ((hasDerivAt_id t).const_mul (w*sqrt (1-xi^2))).sin
    simpa using this
  have h := (hE.mul ((hC.const_mul (-(xi*w)*k1 + w*sqrt (1-xi^2)*k2)).add
      (hS.const_mul (-(xi*w)*k2 - w*sqrt (1-xi^2)*k1)))).add_const be
  refine ⟨_, h, ?_⟩
  unfold vSol uSol
  simp only [Pi.add_apply, Pi.mul_apply]
  have hs : sqrt (1-xi^2) ^ 2 = 1 - xi^2 := Real.sq_sqrt hxi
  rw [← hbe, ← hal]
  have hs' : ∀ x : ℝ, x * sqrt (1-xi^2) ^ 2 = x * (1 - xi^2) := fun x => by rw [hs]
  ring_nf
  rw [hs]
  ring

-- initial conditions: with k1 = u0 - al and w*sqrt(1-xi^2)*k2 = v0 - be + xi*w*k1 the closed form starts at (u0, v0)
theorem uSol_init (xi w k1 k2 al be u0 : ℝ) (hk1 : k1 = u0 - al) :
    uSol xi w k1 k2 al be 0 = u0 := by
  unfold uSol
  simp [hk1]

theorem vSol_init (xi w k1 k2 be v0 : ℝ) (hk2 : w * sqrt (1 - xi^2) * k2 = v0 - be + xi * w * k1) :
    vSol xi w k1 k2 be 0 = v0 := by
  unfold vSol
  simp
  linarith

"""Verification API used by the sidecar contract files (contracts/cNN_*.py).

A *unit* is a python function `u(V, **case)` that (1) declares symbolic inputs and the precondition inside a
`setup()` closure, (2) runs a real eqsig function through the interpreter with `V.run(qualname, setup)` which yields
one Outcome per feasible path, and (3) states postcondition clauses with `out.prove(name, goal)`.  Every clause is an
obligation `path facts /\\ path condition |- goal`, discharged by pyvc.prove.  The same unit runs in two modes:

  unbounded : V.size() returns a symbolic Int; arrays are closure arrays of symbolic length; counted as proof.
  bounded   : V.size() returns each concrete size of the unit's `sizes` table; quantifier-free; labelled bounded,
              never counted as proved (also serves as refuter for unbounded `unknown`s).
"""
import importlib
import itertools
import json
import os
import re
import time
import traceback
from fractions import Fraction

import numpy as np
import z3

from . import terms as T
from . import arrays as A
from . import prove as P
from .terms import EngineError, PyExc, N, Q
from .arrays import BArr, CArr, is_arr
from .interp import Interp, PathEnd, Infeasible, ObjVal, FuncVal, OpaqueFn
from .lib import Lib

UNITS = []
SUMMARIES = {}      # qualname -> summary callable (modular contract used at call sites)
INVARIANTS = {}     # (qualname, loop ordinal) -> LoopInv


def unit(prop, name, cases=None, sizes=None, functions=(), modes=('unbounded', 'bounded'), tier='quick', budget_ms=10000,
         thorough_sizes=None, opts=None):
    def deco(fn):
        UNITS.append(dict(prop=prop, name=name, fn=fn, cases=cases or [dict()], sizes=sizes or {}, functions=list(functions),
                          modes=modes, tier=tier, budget_ms=budget_ms, thorough_sizes=thorough_sizes, opts=opts or {}))
        return fn
    return deco


def int_variant(prop, name, arrays):
    """Also run the unit (prop, name) with the named record arrays declared as integer-dtype arrays (driver: extra tasks, case tag
    'record=int')."""
    for u in UNITS:
        if u['prop'] == prop and u['name'] == name:
            u['opts'] = dict(u['opts'] or {}, int_variant=tuple(arrays))
            return
    raise KeyError((prop, name))


def summary(qualname):
    def deco(fn):
        SUMMARIES[qualname] = fn
        return fn
    return deco


class _Captured(Exception):
    pass


class Skip(Exception):
    """Raised by a unit for a size combination that lies outside its stated domain (not a vacuity error)."""


class QuantHelper:
    """Universally quantified invariant clauses in two polarities: as an assumption a z3 ForAll (with pattern), as a goal
    the Skolemised ground implication (fresh constants), which is far more robust for the solver than a negated ForAll."""

    def __init__(self, mode):
        self.mode = mode

    def forall(self, names, rng_fn, body_fn, pattern_fn=None):
        from .np_util import forall as _forall
        if self.mode == 'assume':
            vs = [z3.Int('q_' + n) for n in names]
            body = z3.Implies(T.to_bool_term(rng_fn(*vs)), T.to_bool_term(body_fn(*vs)))
            pat = pattern_fn(*vs) if pattern_fn is not None else None
            return _forall(vs, body, T.to_z3(pat) if pat is not None and T.is_z3(T.N(pat)) else None)
        sk = [T.fresh('sk_' + n, T.I) for n in names]
        return T.simplies(rng_fn(*sk), body_fn(*sk))


class LoopInv:
    """Loop invariant spec: clauses(S, env, pre, k, lo, hi) -> iterable of (name, cond)."""

    def __init__(self, fn, types=None, exit_target=None):
        self.fn = fn
        self.types = types or {}
        self._exit_target = exit_target

    def snapshot(self, itp, locs):
        pre = {}
        for k, v in locs.items():
            pre[k] = v.snapshot() if isinstance(v, CArr) else (v.copy() if isinstance(v, BArr) else v)
        return pre

    def clauses(self, itp, locs, pre, k, lo, hi, mode='assume'):
        import inspect
        if len(inspect.signature(self.fn).parameters) >= 6:
            return list(self.fn(Env(locs), Env(pre), k, lo, hi, QuantHelper(mode)))
        return list(self.fn(Env(locs), Env(pre), k, lo, hi))

    def havoc(self, itp, locs, names, bufs):
        from .np_util import fresh_array_fn
        for b in bufs:
            b.get = fresh_array_fn('havoc', b.ndim, b.dtype)
            b.version += 1
        for nm in names:
            if nm not in locs:
                continue
            v = locs[nm]
            ty = self.types.get(nm)
            if ty == 'keep':
                continue
            if is_arr(v):
                if ty is None:
                    # rebinding of array-valued names inside the loop body is only supported for temporaries
                    locs.pop(nm)
                continue
            v = N(v) if T.is_scalar(v) else v
            if ty == 'int' or (ty is None and T.is_int_like(v) and not isinstance(v, bool)):
                locs[nm] = T.fresh('hv_' + nm, T.I)
            elif ty == 'real' or (ty is None and T.is_real_like(v)):
                locs[nm] = T.fresh('hv_' + nm, T.R)
            elif ty == 'bool' or (ty is None and T.is_bool_like(v)):
                locs[nm] = T.fresh('hv_' + nm, T.B)
            else:
                locs.pop(nm)

    def exit_target(self, itp, target, fr, lo, hi, item):
        # loop may run zero times: the target keeps its previous binding (if any); when it ran, it is item(hi-1)
        import ast as _ast
        if isinstance(target, _ast.Name):
            old = fr.locals.get(target.id)
            new = item(T.ssub(T.smax2(hi, lo), 1))
            if old is None or not T.is_scalar(old) or not T.is_scalar(new):
                fr.locals.pop(target.id, None)
            else:
                fr.locals[target.id] = T.site(T.sgt(hi, lo), new, old)


def invariant(qualname, loop, types=None):
    def deco(fn):
        INVARIANTS[(qualname, loop)] = LoopInv(fn, types)
        return fn
    return deco


class Env:
    def __init__(self, d):
        self._d = d

    def __getattr__(self, k):
        try:
            return self._d[k]
        except KeyError:
            raise EngineError('invariant refers to unknown local %r' % k)

    def __getitem__(self, k):
        return self._d[k]

    def __contains__(self, k):
        return k in self._d


# ================================================================================================ outcomes
class Outcome:
    def __init__(self, V, cx, args, result=None, raised=None, ended=None, fn=None):
        self.V, self.cx, self.args = V, cx, args
        self.fn = fn
        self.result, self.raised, self.ended = result, raised, ended
        self.path = '.'.join(cx.trace) or 'straight'

    def hyps(self, pc_len=None):
        pc = self.cx.pc if pc_len is None else self.cx.pc[:pc_len]
        return list(self.cx.facts) + list(pc)

    def prove(self, name, goal, pc_len=None, extra_hyps=(), kind='ensures', budget_ms=None, hints=(), atomize=False, inst=(), inst_cap=400):
        """inst: index terms at which every universally quantified integer hypothesis is instantiated up front (forall-elimination,
        sound; makes the proof independent of the solver's E-matching order, i.e. stable under load and seeds)."""
        goal = T.truthy(goal) if not isinstance(goal, bool) else goal
        if T.is_z3(goal) and pc_len is None and self.cx.known:
            # resolve flags already decided on this path (propositional constants in the path condition) inside the goal
            subs = [(c, z3.BoolVal(v)) for c, v in self.cx.known.values() if z3.is_const(c) and c.decl().kind() == z3.Z3_OP_UNINTERPRETED]
            if subs:
                goal = T.N(z3.simplify(z3.substitute(goal, *subs)))
        hs = list(self.hyps(pc_len)) + [T.to_bool_term(h) for h in extra_hyps]
        for t in hints:
            t = N(t)
            if T.is_z3(t):
                hs.append(t == t)
        if inst:
            hs = hs + ground_instances(hs, inst, cap=inst_cap)
        if atomize and T.is_z3(goal):
            hs, goal = atomize_transcendentals(hs, goal)
        self.V.record(self, name, hs, goal, kind, budget_ms, generalised=bool(atomize))

    def prove_qf(self, name, goal, singles=(), pairs=(), kind='ensures', budget_ms=None):
        """Quantifier-free proof from hand-picked instances: the ground hypotheses of the path plus the instances of every
        one-variable integer-indexed quantified hypothesis at `singles` and of every two-variable one at `pairs`.  A proof from fewer
        hypotheses is a proof; a counter-model of the reduced query is only a candidate (generalised).  No E-matching is involved, so
        the solver time does not depend on instantiation order, seed or load."""
        goal = T.truthy(goal) if not isinstance(goal, bool) else goal
        hs = self.hyps()
        ground = [h for h in hs if not (T.is_z3(h) and has_quant(h))]
        tz = lambda t: z3.IntVal(N(t)) if isinstance(N(t), int) else T.to_int_term(N(t))
        inst = []
        for h in hs:
            if not (T.is_z3(h) and z3.is_quantifier(h) and h.is_forall()):
                continue
            nv = h.num_vars()
            if any(h.var_sort(i).kind() != z3.Z3_INT_SORT for i in range(nv)):
                continue
            if nv == 1:
                inst += [z3.substitute_vars(h.body(), tz(t)) for t in singles]
            elif nv == 2:
                inst += [z3.substitute_vars(h.body(), tz(b), tz(a)) for a, b in pairs]
        inst = [i for i in inst if not has_quant(i)]
        self.V.record(self, name, ground + inst, goal, kind, budget_ms, generalised=True)

    def prove_from(self, name, hyps, goal, kind='lemma', budget_ms=None, atomize=False):
        """Prove goal from an explicit (smaller) hypothesis list only -- sound, and keeps hard lemmas quantifier free.
        Each hypothesis must itself be justified (a path fact, a ground instance of one, or a previously proved clause)."""
        goal = T.truthy(goal) if not isinstance(goal, bool) else goal
        hs = [T.to_bool_term(h) for h in hyps if not (isinstance(h, bool) and h)]
        if atomize and T.is_z3(goal):
            hs, goal = atomize_all(hs, goal)
        self.V.record(self, name, hs, goal, kind, budget_ms, generalised=True)

    def prove_all(self, clauses):
        for nm, g in clauses:
            self.prove(nm, g)

    def no_raise(self):
        """Obligation: this path does not end in an exception (proved by showing the path infeasible when it does)."""
        if self.raised is not None:
            self.prove('no-exception[%s]' % self.raised.kind, False, kind='safety')
            return False
        return True

    def side_conditions(self, skip=('nonzero-divisor',)):
        for entry in self.cx.safety:
            if len(entry) == 2:
                nm, cond = entry
                pcl = None
            else:
                nm, cond, pcl = entry
            if nm in skip:
                continue
            inst = ()
            if nm.startswith('loop') and ('-preserve/' in nm or '-establish/' in nm) and T.is_z3(cond):
                # Hoare obligations: the goal is Skolemised (constants sk_*); instantiate the assumed (quantified) invariant and
                # the other integer-indexed facts at those very constants up front instead of leaving it to E-matching
                inst = skolem_constants(cond)
            self.prove('side/' + nm, cond, pc_len=pcl, kind='safety', inst=inst)

    def assume(self, cond):
        cond = T.truthy(cond)
        if cond is True:
            return
        self.cx.pc.append(T.to_bool_term(cond))

    def unchanged(self, name, arr):
        """Frame clause: array argument not modified by the call."""
        if isinstance(arr, CArr):
            if arr.buf.version == 0:
                self.V.record(self, 'frame/%s-unchanged' % name, [], True, 'frame', None, backend='alias-rule')
                return
            orig = self.V.original[name]
            ks = [T.fresh('kfr', T.I) for _ in arr.shape]
            rngc = T.sand(*[T.sand(T.sle(0, k), T.slt(k, d)) for k, d in zip(ks, arr.shape)])
            self.prove('frame/%s-unchanged' % name, T.simplies(rngc, T.seq(arr.at(*ks), orig(*ks))), kind='frame')
        elif isinstance(arr, BArr):
            orig = self.V.original[name]
            goals = []
            for ix in np.ndindex(*arr.a.shape):
                goals.append(T.seq(arr.a[ix], orig(*ix)))
            self.prove('frame/%s-unchanged' % name, T.sand(*goals) if goals else True, kind='frame')


_COMM_OPS = None


def term_hash(t, memo):
    """Merkle hash of a z3 term, canonical modulo the argument order of commutative operators (z3 orders those by ast id, which
    depends on allocation history, so sexpr() is not reproducible between runs)."""
    import hashlib
    global _COMM_OPS
    if _COMM_OPS is None:
        _COMM_OPS = {z3.Z3_OP_AND, z3.Z3_OP_OR, z3.Z3_OP_ADD, z3.Z3_OP_MUL, z3.Z3_OP_EQ, z3.Z3_OP_DISTINCT, z3.Z3_OP_IFF}
    stack = [(t, False)]
    while stack:
        e, done = stack.pop()
        k = e.get_id()
        if k in memo:
            continue
        if z3.is_quantifier(e):
            kids = [e.body()]
        elif z3.is_app(e):
            kids = e.children()
        else:
            kids = []
        if not done and kids:
            stack.append((e, True))
            for c in kids:
                if c.get_id() not in memo:
                    stack.append((c, False))
            continue
        if z3.is_quantifier(e):
            head = 'Q%s%d:%s' % ('A' if e.is_forall() else 'E', e.num_vars(), ','.join(str(e.var_sort(i)) for i in range(e.num_vars())))
            parts = [memo[e.body().get_id()][1]]
        elif z3.is_var(e):
            head, parts = 'v%d' % z3.get_var_index(e), []
        elif z3.is_app(e):
            if e.num_args() == 0:
                head, parts = 'c:' + str(e) + ':' + str(e.sort()), []
            else:
                head = 'a:' + e.decl().name()
                parts = [memo[c.get_id()][1] for c in kids]
                if e.decl().kind() in _COMM_OPS:
                    parts.sort()
        else:
            head, parts = 'x:' + e.sexpr(), []
        memo[k] = (e, hashlib.sha1((head + '(' + ' '.join(parts) + ')').encode()).hexdigest())      # e kept alive: ids are reused after GC
    return memo[t.get_id()][1]


def vc_hash(hyps, goal, tag=''):
    import hashlib
    memo = {}
    hs = sorted((term_hash(x, memo) if T.is_z3(x) else repr(x)) for x in hyps)
    g = term_hash(goal, memo) if T.is_z3(goal) else repr(goal)
    h = hashlib.sha1(('|'.join(hs) + '==>' + g).encode()).hexdigest()
    d = os.environ.get('PYVC_DUMP_VC')
    if d:
        os.makedirs(d, exist_ok=True)
        with open(os.path.join(d, '%s_%s.txt' % (re.sub(r'[^A-Za-z0-9_.=-]+', '_', tag)[-150:], h[:10])), 'w') as f:
            f.write('\n'.join(sorted((x.sexpr() if T.is_z3(x) else repr(x)) for x in hyps)) + '\n==>\n' + (goal.sexpr() if T.is_z3(goal) else repr(goal)))
    return h


def skolem_constants(t, prefix='sk_'):
    out, seen = [], set()
    stack = [t]
    while stack:
        e = stack.pop()
        if e.get_id() in seen:
            continue
        seen.add(e.get_id())
        if z3.is_const(e) and e.decl().kind() == z3.Z3_OP_UNINTERPRETED and e.decl().name().startswith(prefix) and e.sort().kind() == z3.Z3_INT_SORT:
            out.append(e)
        elif z3.is_app(e):
            stack.extend(e.children())
        elif z3.is_quantifier(e):
            stack.append(e.body())
    return sorted(out, key=lambda c: c.decl().name())


def ground_instances(hyps, terms, max_vars=2, cap=400):
    """forall-elimination of the integer-indexed quantified hypotheses at the given index terms (all tuples for <= max_vars bound
    variables); every instance is a logical consequence of its hypothesis"""
    ts = []
    for t in terms:
        t = N(t)
        ts.append(z3.IntVal(t) if isinstance(t, int) else T.to_int_term(t))
    out = []
    for h in hyps:
        if not (T.is_z3(h) and z3.is_quantifier(h) and h.is_forall()):
            continue
        nv = h.num_vars()
        if nv > max_vars or any(h.var_sort(i).kind() != z3.Z3_INT_SORT for i in range(nv)):
            continue
        for combo in itertools.product(ts, repeat=nv):
            # de Bruijn: variable 0 is the LAST bound variable
            out.append(z3.substitute_vars(h.body(), *reversed(combo)))
            if len(out) >= cap:
                return out
    return out


def atomize_all(hyps, goal):
    """Replace EVERY application of an uninterpreted function by a fresh constant of its sort (outermost first): a sound
    generalisation that turns a ground lemma into pure arithmetic (no congruence reasoning is needed for such lemmas)."""
    found = {}
    seen = set()

    def walk(t):
        if t.get_id() in seen:
            return
        seen.add(t.get_id())
        if z3.is_app(t) and t.num_args() > 0 and t.decl().kind() == z3.Z3_OP_UNINTERPRETED:
            found[t.get_id()] = t
            return
        for c in t.children():
            walk(c)
    for f in list(hyps) + [goal]:
        if T.is_z3(f):
            if has_quant(f):
                raise EngineError('atomize_all on a quantified formula')
            walk(f)
    if not found:
        return hyps, goal
    subs = [(t, z3.Const('atom!%d' % k, t.sort())) for k, t in enumerate(found.values())]
    return [z3.substitute(h, *subs) if T.is_z3(h) else h for h in hyps], z3.substitute(goal, *subs)


def has_quant(e):
    st, seen = [e], set()
    while st:
        t = st.pop()
        if t.get_id() in seen:
            continue
        seen.add(t.get_id())
        if z3.is_quantifier(t):
            return True
        st.extend(t.children())
    return False


def atomize_transcendentals(hyps, goal):
    """Sound generalisation for polynomial identities: every application of exp/sin/cos/sqrt/log/pow is replaced by a
    fresh real constant (consistently in hypotheses and goal).  What is valid for arbitrary values of these atoms that
    satisfy the retained identity instances (sqrt^2, sin^2+cos^2, exp>0, ...) is valid for the actual functions."""
    names = {'exp', 'sin', 'cos', 'sqrt', 'log10', 'log2', 'ln', 'pow'}
    found = {}

    def walk(t):
        if t.get_id() in seen:
            return
        seen.add(t.get_id())
        if z3.is_app(t) and t.num_args() > 0 and t.decl().kind() == z3.Z3_OP_UNINTERPRETED and t.decl().name() in names:
            found[t.get_id()] = t
            return                     # outermost application only (nested ones disappear with it)
        for c in t.children():
            walk(c)
    seen = set()
    for f in list(hyps) + [goal]:
        if T.is_z3(f):
            walk(f)
    if not found:
        return hyps, goal
    subs = [(t, z3.Real('atom!%s!%d' % (t.decl().name(), k))) for k, t in enumerate(found.values())]
    new_h = [z3.substitute(h, *subs) if T.is_z3(h) else h for h in hyps]
    return new_h, z3.substitute(goal, *subs)


# ================================================================================================ verifier
class Verifier:
    def __init__(self, unit_, case, mode, sizes, budget_ms, seed=0, use_cvc5=False):
        self.unit, self.case, self.mode, self.sizes = unit_, case, mode, sizes
        self.budget_ms = budget_ms
        self.seed = seed
        self.use_cvc5 = use_cvc5
        self.records = []
        self.inputs = {}          # name -> description of declared symbolic inputs (for model extraction)
        self.original = {}        # name -> original content function of array inputs
        self.lib = Lib()
        self.itp = Interp(self.lib, contracts=dict(SUMMARIES), invariants=INVARIANTS)
        self.paths_seen = 0
        self.fail_counts = {}
        self.fail_time = 0.0                            # wall time spent in this task on obligations that did not discharge
        self.fail_time_cap = float(os.environ.get('PYVC_FAIL_TIME_CAP', '900' if use_cvc5 else '150'))   # use_cvc5 <=> thorough tier
        self.vacuous_paths = 0
        self.canary_ms = 300
        self.engine_errors = []
        self.assumed = set()
        self.case_tag = ','.join('%s=%s' % (k, _tag(v)) for k, v in sorted(case.items()))
        if sizes:
            self.case_tag += ('|' if self.case_tag else '') + ','.join('%s=%d' % (k, v) for k, v in sorted(sizes.items()))

    @property
    def np(self):
        return self.lib.models

    def op(self, sym, a, b=None):
        import ast as _ast
        ops = {'+': _ast.Add, '-': _ast.Sub, '*': _ast.Mult, '/': _ast.Div, '**': _ast.Pow, '%': _ast.Mod,
               '<': _ast.Lt, '<=': _ast.LtE, '>': _ast.Gt, '>=': _ast.GtE, '==': _ast.Eq, '!=': _ast.NotEq, '&': _ast.BitAnd, '|': _ast.BitOr}
        if sym == 'neg':
            return self.lib.unop(_ast.USub, a)
        if sym in ('<', '<=', '>', '>=', '==', '!='):
            return self.lib.compare(ops[sym], a, b)
        return self.lib.binop(ops[sym], a, b)

    # ------------------------------------------------------------------------------------ declarations
    def _nm(self, name):
        """inputs of the EARLIER call of a two-call history are independent symbols"""
        return name + '__prior' if getattr(self, '_prior', False) else name

    def size(self, name, lo=0):
        if self.mode == 'bounded':
            v = self.sizes[name]
            if v < lo:
                raise Infeasible()
            self.inputs[self._nm(name)] = ('size', v)
            return v
        name = self._nm(name)
        n = z3.Int(name)
        self.itp.assume(n >= lo)
        self.inputs[name] = ('int', n)
        return n

    def real(self, name):
        name = self._nm(name)
        r = z3.Real(name)
        self.inputs[name] = ('real', r)
        return r

    def int(self, name):
        name = self._nm(name)
        r = z3.Int(name)
        self.inputs[name] = ('int', r)
        return r

    def bool(self, name):
        name = self._nm(name)
        r = z3.Bool(name)
        self.inputs[name] = ('bool', r)
        return r

    def array(self, name, shape, dtype='float', origin='param'):
        """Symbolic input array: elements are applications name(i,..) of one uninterpreted function."""
        if not isinstance(shape, (tuple, list)):
            shape = (shape,)
        shape = tuple(N(s) for s in shape)
        nd = len(shape)
        if name in getattr(self, 'int_names', ()) and dtype == 'float':
            dtype = 'int'
        name = self._nm(name)
        if dtype == 'complex':
            fre = z3.Function(name + '_re', *([T.I] * nd + [T.R]))
            fim = z3.Function(name + '_im', *([T.I] * nd + [T.R]))
            get = lambda *i: T.Cx(fre(*[T.to_int_term(x) for x in i]), fim(*[T.to_int_term(x) for x in i]))
        else:
            f = z3.Function(name, *([T.I] * nd + [T.sort_of_dtype(dtype)]))
            get = lambda *i: N(f(*[T.to_int_term(x) for x in i]))
        self.inputs[name] = ('array', shape, dtype, get)
        self.original[name] = get
        if all(isinstance(s, int) for s in shape):
            a = np.empty(shape, dtype=object)
            for ix in np.ndindex(*shape):
                a[ix] = get(*ix)
            return BArr(a, dtype, origin)
        return CArr.from_fn(get, shape, dtype, origin=origin)

    def idx(self, lo, hi, name='i'):
        """Universally quantified index: a Skolem constant (unbounded) or every concrete value (bounded)."""
        lo, hi = N(lo), N(hi)
        if isinstance(lo, int) and isinstance(hi, int):
            return list(range(lo, hi))
        k = T.fresh(name, T.I)
        self.itp.assume(T.sand(T.sle(lo, k), T.slt(k, hi)))
        return [k]

    def skolem(self, name, lo=None, hi=None, sort='int'):
        k = T.fresh(name, T.I if sort == 'int' else T.R)
        if lo is not None:
            self.itp.assume(T.sle(lo, k))
        if hi is not None:
            self.itp.assume(T.slt(k, hi))
        return k

    def assume(self, *conds):
        for c in conds:
            self.itp.assume(c)

    def obj(self, qualname, **attrs):
        """A symbolic instance of a repo class with the given attribute values (no constructor run)."""
        cls = self.itp.get_function(qualname)
        o = ObjVal(cls)
        o.attrs.update(attrs)
        return o

    def opaque_callable(self, name, fn):
        return OpaqueFn(name, fn)

    # --------------------------------------------------------------------------------------------- running
    def run(self, qualname, setup, max_paths=4000, opts=None, histories=None):
        """Yield an Outcome per feasible path of the real function `qualname` on the inputs produced by setup().

        histories: two-call histories explored IN ADDITION to the call on a fresh process state, when (and only when) the call was
        seen to leave state behind that outlives it -- module-level containers / globals / memo tables ('prior', 'again') or changed
        attributes of an argument object ('again'):
          'prior' : the same function is first called with INDEPENDENT symbolic arguments of the same kind case (fresh symbols
                    <name>__prior); the postconditions are then stated for the second call (a cache keyed on too little fails here);
          'again' : the function is first called with the SAME arguments (same objects); the postconditions are stated for the second
                    call (a result that depends on what an earlier identical call left behind fails here).
        In both, an array returned by the earlier call must not be overwritten by the later one."""
        self._run_index = getattr(self, '_run_index', -1) + 1
        cap = getattr(self, '_capture', None)
        if cap is not None:
            # capture mode (see _sibling_setups): hand back the setup closure of the run with the wanted ordinal, execute nothing
            if self._run_index == cap['index']:
                cap['setup'] = setup
                cap['qualname'] = qualname
                raise _Captured()
            return
        my_index = self._run_index
        uo = self.unit.get('opts') or {}
        if histories is not None:
            hist = histories
        elif 'histories' in uo:
            hist = uo['histories']
        else:
            # a module-level function is a pure function of its arguments (C05: "returns the same result when called again"): both
            # histories; a method / a composite operation may change its object by design: only the earlier call on OTHER arguments
            fv = None
            if isinstance(qualname, str):
                try:
                    fv = self.itp.get_function(qualname)
                except Exception:
                    fv = None
            hist = ('prior', 'again') if isinstance(fv, FuncVal) and fv.cls is None else ('prior',)
        variants = [('fresh', None, '')]
        vi = 0
        self._mod_state_seen = False
        self._obj_state_seen = False
        while vi < len(variants):
            variant, psetup, tag = variants[vi]
            vi += 1
            yield from self._run_variant(qualname, setup, max_paths, opts, variant, psetup, tag)
            if variant == 'fresh' and hist:
                if 'prior' in hist and self._mod_state_seen:
                    variants.append(('prior', setup, ''))
                    # the earlier call may also have been a request of ANOTHER kind case of this unit (one case parameter changed)
                    for ctag, csetup in self._sibling_setups(qualname, my_index):
                        variants.append(('prior', csetup, ctag))
                if 'again' in hist and (self._mod_state_seen or self._obj_state_seen):
                    variants.append(('again', None, ''))
                self._run_index = my_index
        T.set_ctx(None)

    def _sibling_setups(self, qualname, index, cap_n=10):
        """setup closures of the unit's other kind cases that differ from the current case in exactly one parameter"""
        out = []
        cases = self.unit.get('cases') or []
        for c in cases:
            if len(out) >= cap_n:
                break
            if set(c) != set(self.case):
                continue
            diff = [k for k in c if c[k] != self.case[k]]
            if len(diff) != 1:
                continue
            self._capture = dict(index=index)
            self._run_index = -1
            try:
                self.unit['fn'](self, **c)
            except _Captured:
                pass
            except Exception:
                pass
            cap, self._capture = self._capture, None
            if cap.get('setup') is not None and cap.get('qualname') == qualname:
                out.append(('%s=%s' % (diff[0], _tag(c[diff[0]])), cap['setup']))
        return out

    @staticmethod
    def _obj_state(args):
        """identity snapshot of the attributes of object arguments (to see whether a call left something on them)"""
        snap = {}

        def ver(v):
            if isinstance(v, CArr):
                return ('c', id(v.buf), v.buf.version)
            if isinstance(v, BArr):
                return ('b', id(v.a), tuple(id(e) for e in v.a.reshape(-1).tolist()))
            return id(v)

        def walk(v, depth=0):
            if isinstance(v, ObjVal):
                snap[id(v)] = {k: ver(a) for k, a in v.attrs.items()}
            elif isinstance(v, (list, tuple)) and depth < 2:
                for e in v:
                    walk(e, depth + 1)
            elif isinstance(v, dict) and depth < 2:
                for e in v.values():
                    walk(e, depth + 1)
        walk(list(args))
        return snap

    def _call_root(self, f, args, kwargs):
        itp = self.itp
        if callable(f) and not isinstance(f, FuncVal):
            return f(itp, *args, **kwargs)
        return itp.call(f, list(args), dict(kwargs))

    def _run_variant(self, qualname, setup, max_paths, opts, variant, prior_setup=None, prior_tag=''):
        itp = self.itp
        stack = [[]]
        f = itp.get_function(qualname) if isinstance(qualname, str) else qualname
        qn = qualname if isinstance(qualname, str) else None
        n_paths = 0
        while stack:
            prefix = stack.pop()
            cx = T.set_ctx(T.Ctx(decisions=prefix, mode=self.mode, opts=dict(self.unit.get('opts') or {}, **dict(opts or {}, root=qualname))))
            itp.depth = 0
            itp.reset_module_state()
            self._prior = False
            out = None
            prior_info = None
            try:
                reference = None
                if variant != 'fresh':
                    # reference outcome: the same call on a fresh module state and freshly built arguments (same symbols)
                    spec0 = setup()
                    a0, k0 = spec0 if isinstance(spec0, tuple) else ((), spec0)
                    try:
                        r0 = self._call_root(f, a0, k0)
                        reference = (r0, list(a0) + [k0[k] for k in sorted(k0)])
                    except (PyExc, PathEnd):
                        reference = None
                    itp.reset_module_state()
                if variant == 'prior':
                    self._prior = True
                    try:
                        pspec = (prior_setup or setup)()
                    finally:
                        self._prior = False
                    pargs, pkwargs = pspec if isinstance(pspec, tuple) else ((), pspec)
                    pcall = dict(pkwargs)
                    for k, v in enumerate(pargs):
                        pcall['arg%d' % k] = v
                    pcall = {k: _freeze_arg(v) for k, v in pcall.items()}
                    try:
                        pres = self._call_root(f, pargs, pkwargs)
                    except (PyExc, PathEnd):
                        raise Infeasible()                      # histories whose earlier call failed are not histories of interest
                    prior_info = dict(variant='prior', args=pcall, result=pres, versions=_result_versions(pres), tag=prior_tag)
                spec = setup()
                args, kwargs = spec if isinstance(spec, tuple) else ((), spec)
                call_args = dict(kwargs)
                for k, v in enumerate(args):
                    call_args['arg%d' % k] = v
                # objects and arrays may be modified by the call: the counterexample must show the arguments as they were PASSED
                call_args = {k: _freeze_arg(v) for k, v in call_args.items()}
                if variant == 'again':
                    try:
                        pres = self._call_root(f, args, kwargs)
                    except (PyExc, PathEnd):
                        raise Infeasible()
                    prior_info = dict(variant='again', args=call_args, result=pres, versions=_result_versions(pres))
                before = self._obj_state(list(args) + list(kwargs.values())) if variant == 'fresh' else None
                if variant != 'fresh':
                    cx.cache.pop('opaque-calls', None)          # call logs the contracts inspect: of the call under test only
                try:
                    res = self._call_root(f, args, kwargs)
                    out = Outcome(self, cx, call_args, result=res, fn=qn)
                except PyExc as e:
                    out = Outcome(self, cx, call_args, raised=e, fn=qn)
                except PathEnd as e:
                    out = Outcome(self, cx, call_args, ended=e.why, fn=qn)
                post_args = list(args) + [kwargs[k] for k in sorted(kwargs)]
                if variant == 'fresh':
                    if itp.module_state_written:
                        self._mod_state_seen = True
                    if before != self._obj_state(list(args) + list(kwargs.values())):
                        self._obj_state_seen = True
            except Infeasible:
                out = None
            finally:
                self._prior = False
            n_paths += 1
            if n_paths > max_paths:
                raise EngineError('path limit exceeded in %s' % qualname)
            if out is not None:
                # canary: a path whose hypotheses are contradictory proves everything; drop it (vacuity guard)
                v, _, _, _ = P._solve(out.hyps(), self.canary_ms, self.seed)
                if v == 'unsat':
                    self.vacuous_paths += 1
                    out = None
            if out is not None:
                self.paths_seen += 1
                cx.cache['phase'] = 'contract'
                if prior_info is not None:
                    out.history = prior_info
                    out.path = variant + ('[%s]' % prior_tag if prior_tag else '') + ':' + out.path
                    ok = _result_versions(prior_info['result']) == prior_info['versions']
                    self.record(out, 'history/result-of-the-earlier-call-not-overwritten-by-this-call', [] if ok else out.hyps(), ok, 'frame', None,
                                backend='alias-rule' if ok else None)
                    if reference is not None and out.raised is None and out.ended is None:
                        goals = _same_outcome(reference[0], out.result, 'result')
                        for j, (x0, x1) in enumerate(zip(reference[1], post_args)):
                            if isinstance(x0, ObjVal) and isinstance(x1, ObjVal) and '_values' in x0.attrs and '_values' in x1.attrs:
                                goals += _same_outcome(x0.attrs['_values'], x1.attrs['_values'], 'values-of-argument-%d' % j)
                        g = T.sand(*[c for _, c in goals]) if goals else True
                        out.prove('history/outcome-equals-the-outcome-of-the-same-call-on-a-fresh-state', g, kind='frame')
                    elif reference is not None and out.raised is not None:
                        out.prove('history/no-exception-where-the-same-call-on-a-fresh-state-returns[%s]' % out.raised.kind, False, kind='frame')
                # loop-invariant obligations and other side conditions are always proved
                yield out
                if cx.cache.get('vacuous'):
                    self.vacuous_paths += 1
                for nm in cx.assumed:
                    self.assumed.add(nm)
            stack.extend(cx.pending)

    def symbolic(self, setup):
        """Run spec-level code only (lemmas over contracts): one 'path' without a real function."""
        def nop(itp, **kw):
            return kw
        return self.run(nop, setup)

    # ------------------------------------------------------------------------------------------- recording
    def record(self, out, name, hyps, goal, kind, budget_ms, backend=None, generalised=False):
        full = '%s/%s/%s/%s/%s' % (self.unit['prop'], self.unit['name'], self.case_tag or '-', out.path, name)
        t0 = time.time()
        fails = self.fail_counts.get(name, 0)
        if backend is None and out.cx.cache.get('vacuous'):
            backend = 'vacuous-path'                     # hypotheses of this path are unsatisfiable (found while running the contract body)
        if backend is not None:
            res = dict(verdict='proved', backend=backend, time_s=0.0, model=None, reason='')
        elif fails >= 2 and not (isinstance(goal, bool) and goal):
            # the same clause already failed on two paths of this unit case: do not spend the budget again
            res = dict(verdict='unknown', backend='skipped', time_s=0.0, model=None,
                       reason='not attempted: this clause already failed on %d other paths of the same case' % fails)
        elif self.fail_time > self.fail_time_cap and not (isinstance(goal, bool) and goal):
            # this task has already reported failures and spent its failure budget: the verdict of the task is settled, do not
            # let a broken tree turn a one-minute check into an hour
            res = dict(verdict='unknown', backend='skipped', time_s=0.0, model=None,
                       reason='not attempted: %d obligations of this task already failed and used %.0f s' % (sum(self.fail_counts.values()), self.fail_time))
        else:
            res = P.discharge(hyps, goal, timeout_ms=budget_ms or self.budget_ms, use_cvc5=self.use_cvc5, seed=self.seed)
            vh = None
            if res['verdict'] != 'proved' or getattr(self, 'hash_all', False):
                vh = vc_hash(hyps, goal, full) if res['backend'] not in ('trivial',) else None
            if res['verdict'] == 'unknown' and vh and vh in getattr(self, 'baseline_vcs', ()):
                # the identical formula was discharged on the unchanged tree: one retry with a larger budget and another seed
                res2 = P.discharge(hyps, goal, timeout_ms=3 * (budget_ms or self.budget_ms), use_cvc5=True, seed=self.seed + 17)
                if res2['verdict'] == 'proved':
                    res = res2
                else:
                    res = dict(res, same_vc=True)
            res = dict(res, vc_hash=vh)
        rec = dict(name=full, clause=name, kind=kind, mode=self.mode, verdict=res['verdict'], backend=res['backend'],
                   time_s=round(res['time_s'], 4), n_hyps=len(hyps), reason=res['reason'], path=out.path, function=out.fn)
        if res.get('vc_hash'):
            rec['vc_hash'] = res['vc_hash']
        if res.get('same_vc'):
            rec['same_vc_as_baseline'] = True
        if res['verdict'] != 'proved':
            self.fail_counts[name] = fails + 1
        if res.get('candidate') or (generalised and res['verdict'] == 'refuted'):
            # a counter-model of a GENERALISED query (function applications replaced by atoms / reduced hypothesis list) is
            # only a candidate: it counts as a violation only if a replay on the real code confirms it
            rec['candidate'] = True
            res = dict(res, candidate=True)
        if getattr(out, 'replay_info', None):
            rec['replay_info'] = out.replay_info
            if getattr(out, 'history', None) is not None:
                # the property-specific oracle is told which two-call history the obligation belongs to
                rec['replay_info'] = dict(out.replay_info, history=out.history['variant'], history_case=out.history.get('tag', ''))
        if res['verdict'] == 'refuted':
            model = (None if res.get('candidate') else self.nice_model(hyps, goal)) or res['model']
            rec['counterexample'] = self.counterexample(out, model, goal)
        if res['verdict'] in ('unknown', 'refuted') and getattr(out, 'history', None) is not None and res['backend'] != 'skipped' \
                and self.fail_counts.get('//history-candidates', 0) < 6:
            # no verdict on an obligation of a two-call history: take ANY small model of the hypotheses (the history is feasible there)
            # as a candidate history; it counts only if the real code, run on it, behaves differently after the earlier call
            self.fail_counts['//history-candidates'] = self.fail_counts.get('//history-candidates', 0) + 1
            model = self.generic_model(out)
            if model is not None:
                rec['history_candidate'] = self.counterexample(out, model, goal)
        if res['verdict'] != 'proved':
            self.fail_time += time.time() - t0
        self.records.append(rec)
        return rec

    def generic_model(self, out):
        """A small model of the PATH CONDITION (branch decisions, preconditions; the definitional facts and library axioms are left out:
        they are nonlinear and z3 does not reliably honour its timeout on them) in GENERAL position: array elements follow a fixed
        irregular non-zero pattern, the scalars of the earlier call differ from those of the call under test wherever the path
        condition allows it.  Only an input for a replay that looks for a dependence on the earlier call on the REAL code -- the
        replay decides, the model proves nothing.  Preferences are dropped one group at a time when they contradict the path condition."""
        pattern = [Fraction(1), Fraction(-1, 2), Fraction(3, 4), Fraction(2), Fraction(-5, 4), Fraction(1, 4), Fraction(-3), Fraction(3, 2)]
        prefs_arr, prefs_diff, bounds = [], [], []
        j = 0
        for nm, d in sorted(self.inputs.items()):
            if d[0] == 'array':
                _, shape, dtype, get = d
                if dtype not in ('float', 'int'):
                    continue
                dims = []
                for s_ in shape:
                    if isinstance(s_, int):
                        dims.append(s_)
                    else:
                        bounds.append(T.to_int_term(s_) <= 5)
                        dims.append(5)
                if all(x <= 8 for x in dims):
                    for ix in np.ndindex(*dims):
                        v = pattern[j % len(pattern)] * (1 + j // len(pattern))
                        j += 1
                        prefs_arr.append(T.to_z3(get(*ix)) == (T.to_z3(Q(v)) if dtype == 'float' else int(v * 4)))
            elif d[0] == 'real':
                bounds.append(z3.And(d[1] >= -8, d[1] <= 8))
            elif d[0] == 'int':
                bounds.append(z3.And(d[1] >= -6, d[1] <= 6))
            if d[0] in ('real', 'int') and nm.endswith('__prior') and nm[:-7] in self.inputs and self.inputs[nm[:-7]][0] == d[0]:
                prefs_diff.append(d[1] != self.inputs[nm[:-7]][1])
        base = [h for h in out.cx.pc if T.is_z3(h) and not has_quant(h)] + bounds
        sol = z3.Solver()
        sol.set('timeout', 800)
        sol.add(*base)
        try:
            if sol.check() != z3.sat:
                return None
            # greedy: keep every preference that is consistent with what has been kept so far
            for pref in prefs_diff + prefs_arr:
                sol.push()
                sol.add(pref)
                if sol.check() != z3.sat:
                    sol.pop()
            if sol.check() == z3.sat:
                return sol.model()
        except Exception:
            pass
        return None

    def nice_model(self, hyps, goal):
        """Model minimisation for replay: re-solve with every declared input restricted to small dyadic values
        (multiples of 1/4 in [-4, 4], lengths <= 5) so that the counterexample survives float64 arithmetic."""
        cons = []

        def nice(t, scale=4, bound=4):
            t = T.to_real(t)
            return z3.And(t * scale == z3.ToReal(z3.ToInt(t * scale)), t >= -bound, t <= bound)
        for nm, d in self.inputs.items():
            if d[0] == 'real':
                cons.append(nice(d[1], 8, 8))
            elif d[0] == 'int' :
                cons.append(z3.And(d[1] >= -6, d[1] <= 6))
            elif d[0] == 'array':
                _, shape, dtype, get = d
                if dtype not in ('float', 'int'):
                    continue
                dims = []
                for s_ in shape:
                    if isinstance(s_, int):
                        dims.append(s_)
                    else:
                        cons.append(T.to_int_term(s_) <= 5)
                        dims.append(5)
                if all(x <= 8 for x in dims):
                    for ix in np.ndindex(*dims):
                        cons.append(nice(get(*ix)) if dtype == 'float' else z3.And(get(*ix) >= -4, get(*ix) <= 4))
        if not cons:
            return None
        try:
            v, _, model, _ = P._solve(list(hyps) + [z3.Not(goal) if not isinstance(goal, bool) else z3.BoolVal(not goal)] + cons, 3000, self.seed)
        except Exception:
            return None
        return model if v == 'sat' else None

    # ------------------------------------------------------------------------------ model -> concrete input
    def counterexample(self, out, model, goal):
        ce = {'inputs': {}, 'args': {}, 'predicted': None}
        try:
            for nm, d in self.inputs.items():
                ce['inputs'][nm] = self.eval_input(d, model)
            ce['args'] = {k: to_jsonable(concretize(v, model)) for k, v in out.args.items()}
            h = getattr(out, 'history', None)
            if h is not None:
                ce['history'] = {'variant': h['variant'], 'earlier_call_args': {k: to_jsonable(concretize(v, model)) for k, v in h['args'].items()}}
            if out.raised is not None:
                ce['predicted'] = {'raises': out.raised.kind}
            elif out.result is not None:
                ce['predicted'] = {'result': to_jsonable(concretize(out.result, model))}
            ce['goal'] = str(goal)[:600]
        except Exception as e:       # model rendering must never turn a verdict into a crash
            ce['render_error'] = '%s: %s' % (type(e).__name__, e)
        return ce

    def eval_input(self, d, model):
        if d[0] == 'size':
            return d[1]
        if d[0] in ('int', 'real', 'bool'):
            return to_jsonable(mval(model, d[1]))
        if d[0] == 'array':
            _, shape, dtype, get = d
            shp = tuple(s if isinstance(s, int) else mval(model, s) for s in shape)
            if any((not isinstance(s, int)) or s > 64 for s in shp):
                return {'shape': [str(s) for s in shp], 'note': 'too large to render'}
            a = np.empty(shp, dtype=object)
            for ix in np.ndindex(*shp):
                a[ix] = to_jsonable(mval(model, get(*ix)))
            return a.tolist()
        return None


def _same_outcome(a, b, label, depth=0):
    """[(label, goal)]: structural equality of two call outcomes (arrays element-wise; symbolic shapes at a Skolem index)"""
    if a is None and b is None:
        return []
    if is_arr(a) and is_arr(b):
        if len(a.shape) != len(b.shape):
            return [(label, False)]
        if isinstance(a, BArr) and isinstance(b, BArr):
            if a.a.shape != b.a.shape:
                return [(label, False)]
            return [(label, T.sand(*[T.seq(x, y) for x, y in zip(a.a.reshape(-1).tolist(), b.a.reshape(-1).tolist())]) if a.a.size else True)]
        ks = [T.fresh('khist', T.I) for _ in a.shape]
        rngc = T.sand(*[T.sand(T.sle(0, k), T.slt(k, d)) for k, d in zip(ks, a.shape)])
        same_shape = T.sand(*[T.seq(x, y) for x, y in zip(a.shape, b.shape)])
        return [(label, T.sand(same_shape, T.simplies(rngc, T.seq(A.reader(a)(*ks), A.reader(b)(*ks)))))]
    if isinstance(a, (tuple, list)) and isinstance(b, (tuple, list)) and depth < 3:
        if len(a) != len(b):
            return [(label, False)]
        out = []
        for j, (x, y) in enumerate(zip(a, b)):
            out += _same_outcome(x, y, '%s[%d]' % (label, j), depth + 1)
        return out
    if isinstance(a, ObjVal) and isinstance(b, ObjVal):
        if a.cls is not b.cls:
            return [(label, False)]
        out = []
        for k in ('_values', '_dt'):
            if k in a.attrs and k in b.attrs:
                out += _same_outcome(a.attrs[k], b.attrs[k], label + '.' + k, depth + 1)
        return out
    if T.is_scalar(a) and T.is_scalar(b) and a is not None and b is not None:
        if isinstance(a, str) or isinstance(b, str):
            return [(label, a == b)]
        return [(label, T.seq(a, b))]
    return []


def _result_versions(r, depth=0):
    """write-version fingerprint of the arrays in a call result (to see whether a later call overwrote them)"""
    if isinstance(r, CArr):
        return ('c', id(r.buf), r.buf.version)
    if isinstance(r, BArr):
        return ('b', tuple(id(e) for e in r.a.reshape(-1).tolist()))
    if isinstance(r, (list, tuple)) and depth < 3:
        return tuple(_result_versions(e, depth + 1) for e in r)
    return None


def _freeze_arg(v, depth=0):
    """pre-state copy of an argument for counterexample rendering (arrays snapshotted, objects copied attribute-wise)"""
    from .interp import ObjVal
    try:
        if isinstance(v, BArr):
            return v.copy()
        if isinstance(v, CArr):
            return v.snapshot()
        if isinstance(v, ObjVal) and depth < 2:
            o = ObjVal(v.cls)
            o.attrs = {k: _freeze_arg(a, depth + 1) for k, a in v.attrs.items()}
            return o
        if isinstance(v, list) and depth < 2:
            return [_freeze_arg(a, depth + 1) for a in v]
        if isinstance(v, tuple) and depth < 2:
            return tuple(_freeze_arg(a, depth + 1) for a in v)
        if isinstance(v, dict) and depth < 2:
            return {k: _freeze_arg(a, depth + 1) for k, a in v.items()}
    except Exception:
        return v
    return v


def _tag(v):
    if isinstance(v, (str, int, bool)) or v is None:
        return str(v)
    if isinstance(v, (list, tuple)):
        return '[' + ';'.join(_tag(x) for x in v) + ']'
    return type(v).__name__


def mval(model, t):
    """Evaluate a pyvc scalar in a z3 model -> python number (int / Fraction / bool / complex-pair)."""
    t = N(t) if T.is_scalar(t) else t
    if isinstance(t, T.Cx):
        return ('cx', mval(model, t.re), mval(model, t.im))
    if isinstance(t, (bool, int, str)) or t is None:
        return t
    if T.is_ratnum(t):
        return T.fr(t)
    v = model.eval(t, model_completion=True)
    if z3.is_int_value(v):
        return v.as_long()
    if z3.is_rational_value(v):
        return Fraction(v.numerator_as_long(), v.denominator_as_long())
    if z3.is_true(v):
        return True
    if z3.is_false(v):
        return False
    if z3.is_algebraic_value(v):
        return Fraction(str(v.approx(12).as_fraction()))
    return str(v)


def concretize(v, model):
    if is_arr(v):
        shp = tuple(s if isinstance(s, int) else mval(model, s) for s in v.shape)
        if any((not isinstance(s, int)) or s > 200 for s in shp):
            return {'shape': [str(s) for s in shp]}
        a = np.empty(shp, dtype=object)
        for ix in np.ndindex(*shp):
            a[ix] = mval(model, v.at(*ix))
        return {'ndarray': a.tolist(), 'dtype': v.dtype}
    if isinstance(v, (list, tuple)):
        r = [concretize(e, model) for e in v]
        return r if isinstance(v, list) else {'tuple': r}
    if isinstance(v, dict):
        return {str(k): concretize(e, model) for k, e in v.items()}
    if isinstance(v, ObjVal):
        return {'object': v.cls.qualname, 'attrs': {k: concretize(e, model) for k, e in v.attrs.items()
                                                     if k in ('_values', '_dt', '_npts', 'label', 'response_times', '_smooth_fa_freqs')}}
    if T.is_scalar(v):
        return mval(model, v)
    return repr(v)


def to_jsonable(x):
    if isinstance(x, Fraction):
        return {'q': '%d/%d' % (x.numerator, x.denominator), 'f': float(x)} if x.denominator != 1 else int(x)
    if isinstance(x, tuple) and len(x) == 3 and x[0] == 'cx':
        return {'re': to_jsonable(x[1]), 'im': to_jsonable(x[2])}
    if isinstance(x, dict):
        return {k: to_jsonable(v) for k, v in x.items()}
    if isinstance(x, (list, tuple)):
        return [to_jsonable(v) for v in x]
    if isinstance(x, (bool, int, float, str)) or x is None:
        return x
    return repr(x)

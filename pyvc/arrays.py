"""Array values of pyvc.

BArr  -- array of concrete shape: a numpy *object* array whose elements are pyvc scalars.  NumPy itself supplies
         slicing, views, aliasing, broadcasting and in-place semantics (bounded mode).
CArr  -- array of (possibly) symbolic shape: an affine view onto a Buf whose content is a closure from index terms
         to scalars (unbounded mode).  Stores go through the view to the buffer, so aliasing is modelled.
"""
import itertools

import numpy as np
import z3

from . import terms as T
from .terms import (EngineError, PyExc, N, sadd, ssub, smul, site, sand, sor, sle, slt, sge, seq, to_int_term, is_z3,
                    cast_scalar)


# =============================================================================================== bounded arrays
class BArr:
    __slots__ = ('a', 'dtype', 'origin', 'names')

    def __init__(self, a, dtype, origin='fresh'):
        if not isinstance(a, np.ndarray) or a.dtype != object:
            raise EngineError('BArr needs an object ndarray')
        self.a = a
        self.dtype = dtype
        self.origin = origin
        self.names = None            # field names of a structured array (np.genfromtxt(names=True))

    @property
    def shape(self):
        return self.a.shape

    @property
    def ndim(self):
        return self.a.ndim

    def __len__(self):
        if self.a.ndim == 0:
            raise PyExc('TypeError', 'len() of unsized object')
        return self.a.shape[0]

    @property
    def size(self):
        return self.a.size

    def at(self, *idx):
        idx = tuple(N(i) for i in idx)
        if len(idx) != self.a.ndim:
            raise EngineError('BArr.at arity')
        if all(isinstance(i, int) for i in idx):
            for i, n in zip(idx, self.a.shape):
                if not -n <= i < n:
                    raise PyExc('IndexError', 'index %d out of bounds for size %d' % (i, n))
            return self.a[idx]
        # symbolic index: if-chain along each symbolic axis (arrays are small in bounded mode)
        return self._at_sym(self.a, idx)

    def _at_sym(self, a, idx):
        i0 = idx[0]
        rest = idx[1:]
        if isinstance(i0, int):
            sub = a[i0]
            return sub if not rest else self._at_sym(sub, rest)
        n = a.shape[0]
        if n == 0:
            # symbolic read of an empty array: only reachable under a false selecting condition of a closure
            # composition (e.g. the empty pad part of a concatenate); any value is correct there
            return cast_scalar(0, self.dtype if self.dtype != 'object' else 'float')
        vals = [(a[k] if not rest else self._at_sym(a[k], rest)) for k in range(n)]
        out = vals[n - 1]
        for k in range(n - 2, -1, -1):
            out = site(sor(seq(i0, k), seq(i0, k - n)), vals[k], out)
        return out

    def __getitem__(self, idx):
        if not isinstance(idx, tuple):
            idx = (idx,)
        if len(idx) == self.a.ndim and all(T.is_scalar(i) and not isinstance(i, (slice, type(None))) for i in idx):
            return self.at(*idx)
        r = self.a[idx]
        return BArr(r, self.dtype, self.origin) if isinstance(r, np.ndarray) else r

    def copy(self):
        return BArr(self.a.copy(), self.dtype, 'fresh')

    def tolist(self):
        return self.a.tolist()

    def __repr__(self):
        return 'BArr(%s, %s)' % (self.dtype, self.a.tolist())


def barr_from(seq_, dtype=None):
    """Build a BArr from nested python sequences / scalars / BArr."""
    def conv(x):
        if isinstance(x, BArr):
            return x.a.tolist() if x.a.ndim else x.a.item()
        if isinstance(x, (list, tuple)):
            return [conv(e) for e in x]
        if isinstance(x, np.ndarray):
            return [conv(e) for e in x.tolist()] if x.ndim else N(x.item())
        return N(x)
    data = conv(seq_)
    flat = []

    def walk(d):
        if isinstance(d, list):
            for e in d:
                walk(e)
        else:
            flat.append(d)
    walk(data)
    if dtype is None:
        dtype = T.promote(*[T.dtype_of_scalar(e) for e in flat]) if flat else 'float'

    def shape_of(d):
        if isinstance(d, list):
            if not d:
                return (0,)
            s0 = shape_of(d[0])
            for e in d[1:]:
                if shape_of(e) != s0:
                    raise PyExc('ValueError', 'inhomogeneous shape')
            return (len(d),) + s0
        return ()
    shp = shape_of(data)
    a = np.empty(shp, dtype=object)
    if shp == ():
        a[()] = cast_scalar(data, dtype)
    else:
        it = iter(flat)
        for ix in np.ndindex(*shp):
            a[ix] = cast_scalar(next(it), dtype)
    return BArr(a, dtype)


def bfull(shape, val, dtype):
    if isinstance(shape, int):
        shape = (shape,)
    a = np.empty(tuple(shape), dtype=object)
    v = cast_scalar(val, dtype)
    for ix in np.ndindex(*a.shape):
        a[ix] = v
    return BArr(a, dtype)


def bmap(fn, dtype, *args):
    """Elementwise map over BArr / scalar arguments with numpy broadcasting."""
    raw = [x.a if isinstance(x, BArr) else _scalar_obj(x) for x in args]
    try:
        bc = np.broadcast(*raw)
    except ValueError as e:
        raise PyExc('ValueError', 'operands could not be broadcast together: %s' % e)
    out = np.empty(bc.shape, dtype=object)
    flat = out.reshape(-1) if out.size else out
    k = 0
    for vals in bc:
        flat[k] = fn(*vals)
        k += 1
    if dtype is None:
        dtype = T.promote(*[T.dtype_of_scalar(e) for e in flat.tolist()]) if out.size else 'float'
    return BArr(out, dtype)


def _scalar_obj(x):
    a = np.empty((), dtype=object)
    a[()] = N(x)
    return a


# ============================================================================================== closure arrays
class Buf:
    """A buffer: content closure over buffer index tuples.  Mutable (stores replace the closure)."""
    __slots__ = ('get', 'ndim', 'origin', 'dtype', 'name', 'version')

    def __init__(self, get, ndim, dtype, origin='fresh', name=None):
        self.get, self.ndim, self.dtype, self.origin, self.name = get, ndim, dtype, origin, name
        self.version = 0


class CArr:
    """Affine view on a Buf.

    axes[k] describes buffer axis k:  ('fix', term)  or  ('ax', view_axis, off, step)   (buffer index = off + step*i)
    View axes that no buffer axis refers to are broadcast (newaxis) axes; they are read-only.
    """
    __slots__ = ('buf', 'shape', 'axes', 'meta')

    def __init__(self, buf, shape, axes=None, meta=None):
        self.buf = buf
        self.shape = tuple(T.resolve_dim(s) for s in shape)
        if axes is None:
            axes = [('ax', k, 0, 1) for k in range(len(shape))]
        self.axes = list(axes)
        self.meta = meta or {}

    # ---- construction helpers
    @staticmethod
    def from_fn(fn, shape, dtype, origin='fresh', meta=None):
        if not isinstance(shape, (tuple, list)):
            shape = (shape,)
        nd = len(shape)
        return CArr(Buf(lambda *b: fn(*b), nd, dtype, origin), shape, None, meta)

    @property
    def dtype(self):
        return self.buf.dtype

    @property
    def origin(self):
        return self.buf.origin

    @property
    def ndim(self):
        return len(self.shape)

    def __len__(self):
        raise EngineError('use alen() for symbolic lengths')

    def bidx(self, idx):
        out = []
        for ax in self.axes:
            if ax[0] == 'fix':
                out.append(ax[1])
            else:
                _, va, off, step = ax
                i = idx[va]
                out.append(sadd(off, smul(step, i)) if step != 1 else sadd(off, i))
        return tuple(out)

    def at(self, *idx):
        if len(idx) != len(self.shape):
            raise EngineError('CArr.at arity %d vs ndim %d' % (len(idx), len(self.shape)))
        idx = tuple(N(i) for i in idx)
        return N(self.buf.get(*self.bidx(idx)))

    def __getitem__(self, idx):
        if not isinstance(idx, tuple):
            idx = (idx,)
        if len(idx) == len(self.shape) and all(T.is_scalar(i) and i is not None for i in idx):
            idx = tuple(norm_index(i, n) for i, n in zip(idx, self.shape))
            return self.at(*idx)
        return view_index(self, idx)

    def reader(self):
        """Snapshot reader: a function idx -> scalar bound to the buffer content *as of now* (immune to later stores)."""
        get = self.buf.get
        axes = list(self.axes)

        def rd(*idx):
            out = []
            for ax in axes:
                if ax[0] == 'fix':
                    out.append(ax[1])
                else:
                    _, va, off, step = ax
                    out.append(sadd(off, smul(step, idx[va])) if step != 1 else sadd(off, idx[va]))
            return N(get(*out))
        return rd

    def same_view(self, other):
        """syntactically the same affine view (shape and axis maps) on the buffer"""
        def eq(a, b):
            if isinstance(a, (tuple, list)) and isinstance(b, (tuple, list)):
                return len(a) == len(b) and all(eq(x, y) for x, y in zip(a, b))
            a, b = (N(a) if T.is_scalar(a) else a), (N(b) if T.is_scalar(b) else b)
            if is_z3(a) and is_z3(b):
                return a.eq(b)
            if is_z3(a) or is_z3(b):
                return False
            return a == b
        try:
            return eq(self.shape, other.shape) and eq(self.axes, other.axes)
        except Exception:
            return False

    def snapshot(self):
        """A fresh array holding the current content of this view."""
        return CArr.from_fn(self.reader(), self.shape, self.dtype)

    def is_plain(self):
        return all(a[0] == 'ax' and a[1] == k and a[3] == 1 and N(a[2]) == 0 for k, a in enumerate(self.axes)) \
            and len(self.axes) == len(self.shape)

    def writable_axes(self):
        used = {a[1] for a in self.axes if a[0] == 'ax'}
        return used == set(range(len(self.shape)))

    def store(self, region, val):
        """Write val(*view_idx) where region(*view_idx) holds (region may be None = everywhere in the view)."""
        if not self.writable_axes():
            raise PyExc('ValueError', 'assignment destination is read-only (broadcast view)')
        buf = self.buf
        old = buf.get
        shape, axes, dtype = self.shape, list(self.axes), buf.dtype
        nd = len(shape)

        def new_get(*b):
            conds = []
            vidx = [None] * nd
            for k, ax in enumerate(axes):
                if ax[0] == 'fix':
                    conds.append(seq(b[k], ax[1]))
                else:
                    _, va, off, step = ax
                    d = ssub(b[k], off)
                    if step == 1:
                        v = d
                    elif step == -1:
                        v = T.sneg(d)
                    else:
                        if not isinstance(step, int):
                            raise EngineError('store through symbolic-step view')
                        conds.append(seq(T.smod(d, abs(step)), 0))
                        v = T.sfloordiv(d, step) if step > 0 else T.sfloordiv(T.sneg(d), -step)
                    vidx[va] = v
                    conds.append(sand(sle(0, v), slt(v, shape[va])))
            if region is not None:
                conds.append(region(*vidx))
            c = sand(*conds)
            if c is False:
                return old(*b)
            newv = cast_scalar(val(*vidx), dtype)
            if c is True:
                return newv
            return site(c, newv, old(*b))
        buf.get = new_get
        buf.version += 1

    def __repr__(self):
        return 'CArr(%s, shape=%s)' % (self.dtype, self.shape)


def alen(x):
    if isinstance(x, BArr):
        return len(x)
    if isinstance(x, CArr):
        if not x.shape:
            raise PyExc('TypeError', 'len() of unsized object')
        return x.shape[0]
    if isinstance(x, (list, tuple, str, dict)):
        return len(x)
    raise PyExc('TypeError', 'object of type %s has no len()' % type(x).__name__)


def norm_index(i, n):
    """Python negative indexing for concrete negative ints (symbolic indices are handled by the interpreter)."""
    i = N(i)
    if isinstance(i, int) and not isinstance(i, bool) and i < 0:
        return sadd(n, i)
    return i


def slice_bounds(sl, n):
    """Resolve a slice (start, stop, step) against length n -> (start, count, step) with python clamping semantics.

    Supports step 1 / -1 / other concrete ints with concrete bounds; symbolic bounds with step 1 (and -1 for full flips).
    """
    start, stop, step = N(sl.start), N(sl.stop), N(sl.step)
    if step is None:
        step = 1
    if not isinstance(step, int) or step == 0:
        raise EngineError('slice step must be a concrete non-zero int')
    if isinstance(n, int) and all(x is None or isinstance(x, int) for x in (start, stop)):
        s, e, st = slice(start, stop, step).indices(n)
        cnt = len(range(s, e, st))
        return s, cnt, st
    if step == 1:
        def clampi(v, default):
            if v is None:
                return default
            if isinstance(v, int) and not isinstance(v, bool):
                if v < 0:
                    w = sadd(n, v)
                    return T.smax2(w, 0)
                return T.smin2(v, n)
            # symbolic bound: python clamps to [0, n]; negative values wrap (+n)
            w = site(slt(v, 0), T.smax2(sadd(v, n), 0), T.smin2(v, n))
            return w
        s = T.resolve_dim(clampi(start, 0))
        e = T.resolve_dim(clampi(stop, n))
        cnt = T.resolve_dim(T.smax2(ssub(e, s), 0))
        return s, cnt, 1
    if step == -1 and start is None and stop is None:
        return ssub(n, 1), n, -1
    if step > 1 and (stop is None):
        s = 0 if start is None else start
        if not isinstance(s, int) or s < 0:
            raise EngineError('strided slice with symbolic/negative start')
        # count = ceil((n - s)/step) clipped at 0
        m = T.smax2(ssub(n, s), 0)
        cnt = T.sfloordiv(sadd(m, step - 1), step)
        return s, cnt, step
    raise EngineError('unsupported symbolic slice %r over length %r' % ((start, stop, step), n))


def view_index(arr, idx):
    """Basic indexing of a CArr with a tuple of ints / terms / slices / None / Ellipsis -> CArr view (or scalar)."""
    idx = list(idx)
    if any(i is Ellipsis for i in idx):
        k = idx.index(Ellipsis)
        nreal = sum(1 for i in idx if i is not None and i is not Ellipsis)
        idx[k:k + 1] = [slice(None)] * (len(arr.shape) - nreal)
    nreal = sum(1 for i in idx if i is not None)
    if nreal > len(arr.shape):
        raise PyExc('IndexError', 'too many indices for array')
    idx += [slice(None)] * (len(arr.shape) - nreal)
    new_shape = []
    # per old view axis: ('fix', term) or ('ax', new_axis, off, step)
    per_old = []
    old_ax = 0
    for it in idx:
        if it is None:
            new_shape.append(1)
            continue
        n = arr.shape[old_ax]
        if isinstance(it, slice):
            s, cnt, st = slice_bounds(it, n)
            per_old.append(('ax', len(new_shape), s, st))
            new_shape.append(cnt)
        elif isinstance(it, (BArr, CArr)):
            raise EngineError('fancy index inside view_index')
        else:
            per_old.append(('fix', norm_index(it, n)))
        old_ax += 1
    axes = []
    for ax in arr.axes:
        if ax[0] == 'fix':
            axes.append(ax)
        else:
            _, va, off, step = ax
            po = per_old[va]
            if po[0] == 'fix':
                axes.append(('fix', sadd(off, smul(step, po[1])) if step != 1 else sadd(off, po[1])))
            else:
                _, na, o2, s2 = po
                noff = sadd(off, smul(step, o2)) if step != 1 else sadd(off, o2)
                nstep = step * s2 if isinstance(step, int) and isinstance(s2, int) else smul(step, s2)
                axes.append(('ax', na, noff, nstep))
    if not new_shape:
        return CArr(arr.buf, (), axes).at()
    return CArr(arr.buf, tuple(new_shape), axes, None)


def to_carr(x):
    """View any array value as a CArr (BArr content is frozen at conversion time: used for read-only mixing)."""
    if isinstance(x, CArr):
        return x
    if isinstance(x, BArr):
        b = BArr(x.a.copy(), x.dtype, x.origin)

        def safe_at(*i):
            # closure compositions (concatenate / where / insert ...) evaluate every part eagerly and select afterwards: a
            # concrete out-of-range read can only sit under a false selecting condition; real subscripts are bounds-checked
            # by lib.check_index before they reach a closure
            i = tuple(N(k) for k in i)
            for k, n in zip(i, b.a.shape):
                if isinstance(k, int) and not -n <= k < n:
                    return cast_scalar(0, b.dtype if b.dtype != 'object' else 'float')
            return b.at(*i)
        return CArr.from_fn(safe_at, b.shape, b.dtype, origin=b.origin)
    raise EngineError('not an array: %r' % (x,))


def reader(x):
    """Snapshot reader of any array value."""
    return to_carr(x).reader()


def is_arr(x):
    return isinstance(x, (BArr, CArr))


def same_dim(a, b):
    a, b = N(a), N(b)
    if isinstance(a, int) and isinstance(b, int):
        return a == b
    if is_z3(a) and is_z3(b) and a.get_id() == b.get_id():
        return True
    r = seq(a, b)
    return r if isinstance(r, bool) else None       # None = unknown (symbolic)


def broadcast_shapes(*shapes):
    nd = max(len(s) for s in shapes)
    out = []
    for k in range(nd):
        dims = []
        for s in shapes:
            j = k - (nd - len(s))
            if j >= 0:
                dims.append(N(s[j]))
        cur = None
        for d in dims:
            if isinstance(d, int) and d == 1:
                continue
            if cur is None:
                cur = d
                continue
            sd = same_dim(cur, d)
            if sd is False:
                raise PyExc('ValueError', 'operands could not be broadcast together')
            if sd is None:
                T.ctx().safety.append(('broadcast-shape', seq(cur, d)))
                if isinstance(d, int):
                    cur = d
        out.append(1 if cur is None else cur)
    return tuple(out)


def cmap(fn, dtype, *args):
    """Elementwise map over CArr / BArr / scalar arguments with broadcasting -> fresh CArr."""
    arrs = [to_carr(x) if is_arr(x) else None for x in args]
    shapes = [a.shape for a in arrs if a is not None]
    shp = broadcast_shapes(*shapes)
    nd = len(shp)

    rds = [a.reader() if a is not None else None for a in arrs]

    def get(*idx):
        vals = []
        for a, rd, x in zip(arrs, rds, args):
            if a is None:
                vals.append(x)
            else:
                k0 = nd - len(a.shape)
                sub = [0 if (isinstance(a.shape[j], int) and a.shape[j] == 1 and not (isinstance(shp[k0 + j], int) and shp[k0 + j] == 1))
                       else idx[k0 + j] for j in range(len(a.shape))]
                vals.append(rd(*sub))
        return fn(*vals)
    if dtype is None:
        probe = get(*[z3.Int('probe%d' % k) for k in range(nd)])
        dtype = T.dtype_of_scalar(probe)
    return CArr.from_fn(get, shp, dtype)


def emap(fn, dtype, *args):
    """Elementwise map dispatching on representation."""
    if any(isinstance(x, CArr) for x in args):
        return cmap(fn, dtype, *args)
    if any(isinstance(x, BArr) for x in args):
        return bmap(fn, dtype, *args)
    return fn(*args)


def concretize(arr):
    """CArr with concrete shape -> BArr snapshot."""
    if isinstance(arr, BArr):
        return arr
    if not all(isinstance(s, int) for s in arr.shape):
        raise EngineError('cannot concretise array of symbolic shape')
    a = np.empty(arr.shape, dtype=object)
    for ix in np.ndindex(*arr.shape):
        a[ix] = arr.at(*ix)
    return BArr(a, arr.dtype)


_COMM = None
_CANON_MEMO = {}


def canon_str(t):
    """Printer that is canonical modulo the argument order of commutative operators (z3's simplifier orders them by
    ast id, which depends on creation order, so sexpr() is not a stable key)."""
    global _COMM
    if _COMM is None:
        _COMM = {z3.Z3_OP_AND, z3.Z3_OP_OR, z3.Z3_OP_ADD, z3.Z3_OP_MUL, z3.Z3_OP_EQ, z3.Z3_OP_DISTINCT, z3.Z3_OP_IFF}
    memo = _CANON_MEMO
    if len(memo) > 200000:
        memo.clear()

    def go(e):
        k = e.get_id()
        hit = memo.get(k)
        if hit is not None and hit[0].eq(e):
            return hit[1]
        if z3.is_quantifier(e):
            r = 'Q(' + go(e.body()) + ')'
        elif z3.is_var(e):
            r = 'v%d' % z3.get_var_index(e)
        elif z3.is_app(e):
            n = e.num_args()
            if n == 0:
                r = str(e)
            else:
                args = [go(c) for c in e.children()]
                if e.decl().kind() in _COMM:
                    args.sort()
                r = '(' + e.decl().name() + ' ' + ' '.join(args) + ')'
        else:
            r = e.sexpr()
        memo[k] = (e, r)
        return r
    return go(t)


def canon_key(x):
    """Structural key of a value (for hash-consing deterministic library results)."""
    x = N(x) if T.is_scalar(x) else x
    if isinstance(x, T.Cx):
        return ('cx', canon_key(x.re), canon_key(x.im))
    if is_z3(x):
        x = T.resolve(x)
        if not is_z3(x):
            return ('p', repr(x))
        return ('t', canon_str(x))
    if isinstance(x, BArr):
        return ('B', x.dtype, x.shape, tuple(canon_key(e) for e in x.a.reshape(-1).tolist()))
    if isinstance(x, CArr):
        ks = [z3.Int('K!%d' % k) for k in range(len(x.shape))]
        e = x.at(*ks)
        return ('C', x.dtype, tuple(canon_key(s) for s in x.shape), canon_key(e))
    if isinstance(x, (list, tuple)):
        return ('L', tuple(canon_key(e) for e in x))
    return ('p', repr(x))

"""Conformance of the ASSUMED library contracts (pyvc/np_models*.py) with the installed NumPy / SciPy.

Each model is run in the engine's bounded mode on CONCRETE inputs (exact dyadic rationals / integers / Booleans) and its result is
compared with what the real library returns for the same inputs: value (exact up to float rounding of the real library), shape, dtype
kind and -- where it matters for the ownership clauses -- aliasing (does writing the result change the argument?).  This does not
prove the contracts (A2 stays an assumption) but it turns "assumed" into "assumed and cross-checked on N random inputs per model"
and it has to pass on every run of `./check --conformance` (exit 3 otherwise: a wrong model makes every proof that uses it
meaningless).  Models whose result depends on an uninterpreted kernel (exp, sin, fft beyond the exact sizes, butter, filtfilt ...)
are compared where the engine still returns numerals and are reported as 'symbolic result, not compared' otherwise.
"""
import sys
from fractions import Fraction

import numpy as np
import z3

from . import terms as T
from . import arrays as A
from .terms import N, Q
from .arrays import BArr, is_arr
from .lib import Lib
from .interp import Interp


class NotConcrete(Exception):
    pass


def to_sym(x):
    if isinstance(x, np.ndarray):
        dt = {'f': 'float', 'i': 'int', 'b': 'bool', 'c': 'complex'}[x.dtype.kind]
        a = np.empty(x.shape, dtype=object)
        for ix in np.ndindex(*x.shape):
            a[ix] = to_sym(x[ix].item())
        return BArr(a, dt, origin='param')
    if isinstance(x, bool):
        return x
    if isinstance(x, int):
        return x
    if isinstance(x, float):
        return Q(Fraction(x))
    if isinstance(x, complex):
        return T.Cx(Q(Fraction(x.real)), Q(Fraction(x.imag)))
    if isinstance(x, (list, tuple)):
        return type(x)(to_sym(e) for e in x)
    if x is None or isinstance(x, (str, slice)):
        return x
    raise TypeError(type(x))


def num(v):
    v = N(v) if T.is_scalar(v) else v
    if isinstance(v, T.Cx):
        return complex(num(v.re), num(v.im))
    if isinstance(v, bool):
        return v
    if isinstance(v, int):
        return v
    if T.is_z3(v):
        s = z3.simplify(v)
        if z3.is_rational_value(s):
            return float(Fraction(s.numerator_as_long(), s.denominator_as_long()))
        if z3.is_int_value(s):
            return s.as_long()
        if z3.is_true(s):
            return True
        if z3.is_false(s):
            return False
        if z3.is_algebraic_value(s):
            return float(s.approx(30).as_fraction())
        raise NotConcrete(str(s)[:80])
    if isinstance(v, Fraction):
        return float(v)
    if v is None:
        return None
    raise NotConcrete(repr(v)[:80])


def from_sym(v):
    if isinstance(v, BArr):
        out = np.empty(v.a.shape, dtype={'float': float, 'int': np.int64, 'bool': bool, 'complex': complex}.get(v.dtype, object))
        for ix in np.ndindex(*v.a.shape):
            out[ix] = num(v.a[ix])
        return out
    if is_arr(v):
        return from_sym(A.concretize(v))
    if isinstance(v, (list, tuple)):
        return type(v)(from_sym(e) for e in v)
    return num(v)


def same(a, b):
    if isinstance(a, (list, tuple)) or isinstance(b, (list, tuple)):
        return isinstance(a, (list, tuple)) and isinstance(b, (list, tuple)) and len(a) == len(b) and all(same(x, y) for x, y in zip(a, b))
    a_, b_ = np.asarray(a), np.asarray(b)
    if a_.shape != b_.shape:
        return False
    ka, kb = a_.dtype.kind, b_.dtype.kind
    if ka != kb and not ({ka, kb} <= {'i', 'u'}):
        return False
    if a_.size == 0:
        return True
    return bool(np.allclose(a_.astype(complex), b_.astype(complex), rtol=1e-12, atol=1e-12))


def rnd(rng, shape, kind='f'):
    if kind == 'i':
        return rng.randint(-6, 7, size=shape).astype(np.int64)
    if kind == 'b':
        return rng.rand(*shape) > 0.5 if shape else bool(rng.rand() > 0.5)
    return np.round(rng.randn(*shape) * 8) / 4.0           # dyadic: exact in both worlds


def cases():
    """(model name, real callable, argument generator(rng) -> (args, kwargs), options)"""
    import scipy.integrate as si
    import scipy.linalg as sl
    f1 = lambda rng: ((rnd(rng, (5,)),), {})
    i1 = lambda rng: ((rnd(rng, (5,), 'i'),), {})
    f2 = lambda rng: ((rnd(rng, (3, 4)),), {})
    ff = lambda rng: ((rnd(rng, (5,)), rnd(rng, (5,))), {})
    out = []
    add = lambda name, real, gen, **kw: out.append((name, real, gen, kw))
    for name, real in [('numpy.abs', np.abs), ('numpy.fabs', np.fabs), ('numpy.sign', np.sign), ('numpy.floor', np.floor), ('numpy.ceil', np.ceil), ('numpy.round', np.round), ('numpy.rint', np.rint),
                       ('numpy.cumsum', np.cumsum), ('numpy.sum', np.sum), ('numpy.mean', np.mean), ('numpy.max', np.max), ('numpy.min', np.min),
                       ('numpy.amax', np.amax), ('numpy.amin', np.amin), ('numpy.argmax', np.argmax), ('numpy.argmin', np.argmin), ('numpy.diff', np.diff),
                       ('numpy.flip', np.flip), ('numpy.sort', np.sort), ('numpy.argsort', np.argsort), ('numpy.copy', np.copy), ('numpy.ravel', np.ravel),
                       ('numpy.array', np.array), ('numpy.asarray', np.asarray), ('numpy.zeros_like', np.zeros_like), ('numpy.ones_like', np.ones_like),
                       ('numpy.square', np.square), ('numpy.count_nonzero', np.count_nonzero), ('numpy.flatnonzero', np.flatnonzero), ('numpy.any', np.any),
                       ('numpy.all', np.all), ('numpy.transpose', np.transpose), ('numpy.isfinite', np.isfinite), ('numpy.isnan', np.isnan)]:
        add(name, real, f1)
        add(name + '/int', real, i1)
    for name, real in [('numpy.cumsum', np.cumsum), ('numpy.sum', np.sum), ('numpy.flipud', np.flipud), ('numpy.transpose', np.transpose), ('numpy.ravel', np.ravel),
                       ('numpy.zeros_like', np.zeros_like), ('numpy.abs', np.abs)]:
        add(name + '/2d', real, f2)
    for ax in (0, 1):
        add('numpy.cumsum/axis%d' % ax, np.cumsum, lambda rng, ax=ax: ((rnd(rng, (3, 4)),), dict(axis=ax)))
        add('numpy.sum/axis%d' % ax, np.sum, lambda rng, ax=ax: ((rnd(rng, (3, 4)),), dict(axis=ax)))
        add('numpy.max/axis%d' % ax, np.max, lambda rng, ax=ax: ((rnd(rng, (3, 4)),), dict(axis=ax)))
        add('numpy.diff/axis%d' % ax, np.diff, lambda rng, ax=ax: ((rnd(rng, (3, 4)),), dict(axis=ax)))
    for name, real in [('numpy.add', np.add), ('numpy.subtract', np.subtract), ('numpy.multiply', np.multiply), ('numpy.maximum', np.maximum),
                       ('numpy.minimum', np.minimum), ('numpy.dot', np.dot), ('numpy.outer', np.outer), ('numpy.array_equal', np.array_equal),
                       ('numpy.append', np.append), ('numpy.isclose', np.isclose), ('numpy.allclose', np.allclose)]:
        add(name, real, ff)
    add('numpy.round/ties', np.round, lambda rng: ((np.array([0.5, 1.5, 2.5, -0.5, -1.5, 2.25, -2.75]),), {}))
    add('numpy.divide', np.divide, lambda rng: ((rnd(rng, (5,)), rnd(rng, (5,)) + 9.0), {}))
    add('numpy.true_divide/int', np.true_divide, lambda rng: ((rnd(rng, (5,), 'i'), rnd(rng, (5,), 'i') + 9), {}))
    add('numpy.mod/int', np.mod, lambda rng: ((rnd(rng, (5,), 'i'), 3), {}))
    add('numpy.where/3', np.where, lambda rng: ((rnd(rng, (5,)) > 0, rnd(rng, (5,)), rnd(rng, (5,), 'i')), {}))
    add('numpy.where/1', lambda c: np.where(c)[0], lambda rng: ((rnd(rng, (6,)) > 0,), {}), unpack0=True)
    add('numpy.nonzero', lambda c: np.nonzero(c)[0], lambda rng: ((rnd(rng, (6,), 'i'),), {}), unpack0=True)
    add('numpy.clip', np.clip, lambda rng: ((rnd(rng, (6,)), -1.0, 1.5), {}))
    add('numpy.take', np.take, lambda rng: ((rnd(rng, (6,)), np.array([0, 5, 2, 2])), {}))
    add('numpy.put', None, lambda rng: ((rnd(rng, (6,)), np.array([1, 4]), rnd(rng, (2,))), {}), inplace=np.put)
    add('numpy.put/int-buffer', None, lambda rng: ((rnd(rng, (6,), 'i'), np.array([1, 4]), rnd(rng, (2,)) + 0.25), {}), inplace=np.put)
    add('numpy.insert', np.insert, lambda rng: ((rnd(rng, (5,)), 0, 7.5), {}))
    add('numpy.insert/int-into-int', np.insert, lambda rng: ((rnd(rng, (5,), 'i'), 5, 3), {}))
    add('numpy.insert/float-into-int', np.insert, lambda rng: ((rnd(rng, (5,), 'i'), 2, 0.75), {}))
    add('numpy.delete', np.delete, lambda rng: ((rnd(rng, (5,)), 2), {}))
    add('numpy.concatenate', np.concatenate, lambda rng: (([rnd(rng, (3,)), rnd(rng, (2,), 'i')],), {}))
    add('numpy.hstack', np.hstack, lambda rng: (([rnd(rng, (3,)), rnd(rng, (2,))],), {}))
    add('numpy.pad', np.pad, lambda rng: ((rnd(rng, (4,)), (2, 3)), dict(mode='constant')))
    add('numpy.tile', np.tile, lambda rng: ((rnd(rng, (3,)), 2), {}))
    add('numpy.ediff1d', np.ediff1d, lambda rng: ((rnd(rng, (5,)),), dict(to_begin=0)))
    add('numpy.ediff1d/int', np.ediff1d, lambda rng: ((rnd(rng, (5,), 'i'),), dict(to_begin=3)))
    add('numpy.searchsorted/left', np.searchsorted, lambda rng: ((np.sort(rnd(rng, (6,))), rnd(rng, (4,))), dict(side='left')))
    add('numpy.searchsorted/right', np.searchsorted, lambda rng: ((np.sort(rnd(rng, (6,))), rnd(rng, (4,))), dict(side='right')))
    add('numpy.interp', np.interp, lambda rng: ((rnd(rng, (5,)), np.array([-1.0, 0.0, 0.5, 2.0]), rnd(rng, (4,))), {}))
    add('numpy.interp/left-right', np.interp, lambda rng: ((rnd(rng, (5,)) * 2, np.array([-1.0, 0.0, 0.5, 2.0]), rnd(rng, (4,))), dict(left=0, right=0)))
    add('numpy.arange/int', np.arange, lambda rng: ((int(rng.randint(0, 7)),), {}))
    add('numpy.linspace', np.linspace, lambda rng: ((0.5, 3.0, 6), {}))
    add('numpy.zeros', np.zeros, lambda rng: ((4,), {}))
    add('numpy.zeros/int', np.zeros, lambda rng: ((4,), dict(dtype=int)))
    add('numpy.ones', np.ones, lambda rng: (((2, 3),), {}))
    add('numpy.full', np.full, lambda rng: ((3, 2.5), {}))
    add('numpy.full/int', np.full, lambda rng: ((3, 2), {}))
    add('numpy.full_like', np.full_like, lambda rng: ((rnd(rng, (4,), 'i'), 2.75), {}))
    add('numpy.zeros_like/shape', np.zeros_like, lambda rng: ((rnd(rng, (4,), 'i'),), dict(shape=3)))
    add('numpy.triu', np.triu, lambda rng: ((rnd(rng, (3, 3)),), {}))
    add('numpy.polyfit/0', np.polyfit, lambda rng: ((np.arange(5.0), rnd(rng, (5,)), 0), {}))
    add('numpy.polyfit/1', np.polyfit, lambda rng: ((np.arange(5.0), rnd(rng, (5,)), 1), {}))
    add('numpy.sqrt/squares', np.sqrt, lambda rng: ((np.array([0.0, 0.25, 1.0, 2.25, 16.0]),), {}))
    add('numpy.power/int-exponent', np.power, lambda rng: ((rnd(rng, (5,)), 3), {}))
    add('numpy.fft.fft/N=4', np.fft.fft, lambda rng: ((rnd(rng, (4,)),), {}))
    add('numpy.fft.fft/N=8-padded', np.fft.fft, lambda rng: ((rnd(rng, (5,)),), dict(n=8)))
    add('numpy.fft.ifft/N=4', np.fft.ifft, lambda rng: ((rnd(rng, (4,)) + 1j * rnd(rng, (4,)),), {}))
    add('numpy.fft.rfft/N=6', np.fft.rfft, lambda rng: ((rnd(rng, (6,)),), {}))
    add('scipy.integrate.cumulative_trapezoid', si.cumulative_trapezoid, lambda rng: ((rnd(rng, (6,)),), dict(dx=0.25, initial=0)))
    add('scipy.integrate.cumulative_trapezoid/int', si.cumulative_trapezoid, lambda rng: ((rnd(rng, (6,), 'i'),), dict(dx=0.25, initial=0)))
    add('scipy.integrate.trapezoid', getattr(si, 'trapezoid', None), lambda rng: ((rnd(rng, (6,)),), dict(dx=0.5)))
    add('scipy.linalg.toeplitz', sl.toeplitz, lambda rng: ((rnd(rng, (4,)),), {}))
    add('builtins.sum', sum, lambda rng: ((list(rnd(rng, (4,))),), {}))
    add('builtins.max', max, lambda rng: ((list(rnd(rng, (4,))),), {}))
    add('builtins.abs', abs, lambda rng: ((float(rnd(rng, ())),), {}))
    add('builtins.round', round, lambda rng: ((float(rnd(rng, ()) + 0.125),), {}))
    return [c for c in out if c is not None]


ALIAS = {'numpy.asarray': True, 'numpy.array': False, 'numpy.copy': False, 'numpy.ravel': None, 'numpy.abs': False, 'numpy.zeros_like': False,
         'numpy.flip': None, 'numpy.sort': False, 'numpy.cumsum': False, 'numpy.take': False, 'numpy.append': False, 'numpy.insert': False,
         'numpy.concatenate': False, 'numpy.clip': False}


def run(verbose=False, trials=6):
    lib = Lib()
    itp = Interp(lib)
    results = []
    rng = np.random.RandomState(20260928)
    for name, real, gen, kw in cases():
        base = name.split('/')[0]
        if base not in lib.table:
            results.append((name, 'no-model', 'not registered'))
            continue
        model = lib.table[base]
        verdict, detail = 'ok', ''
        for t in range(trials):
            args, kwargs = gen(rng)
            T.set_ctx(T.Ctx(decisions=[], mode='bounded', opts={}))
            try:
                sargs = [to_sym(a.copy() if isinstance(a, np.ndarray) else a) for a in args]
                skw = {k: (itp.lib.builtin(v.__name__) if isinstance(v, type) else to_sym(v)) for k, v in kwargs.items()}
                if kw.get('inplace'):
                    rargs = [a.copy() if isinstance(a, np.ndarray) else a for a in args]
                    with np.errstate(all='ignore'):
                        kw['inplace'](*rargs, **kwargs)
                    itp.call(model, sargs, skw)
                    got, want = from_sym(sargs[0]), rargs[0]
                else:
                    rargs = [a.copy() if isinstance(a, np.ndarray) else a for a in args]
                    with np.errstate(all='ignore'):
                        want = real(*rargs, **kwargs)
                    res = itp.call(model, sargs, skw)
                    if kw.get('unpack0') and isinstance(res, tuple):
                        res = res[0]
                    got = from_sym(res)
                    if base == 'numpy.argsort':
                        # ties may come in either order (NumPy's default sort is not stable; the model forks both ways): compare the sorted values
                        got, want = np.asarray(rargs[0])[np.asarray(got)], np.asarray(rargs[0])[np.asarray(want)]
                    # aliasing: does writing into the result change the (first) argument?
                    exp_alias = ALIAS.get(base)
                    if exp_alias is not None and isinstance(res, BArr) and isinstance(sargs[0], BArr) and res.a.size and isinstance(want, np.ndarray) and want.size \
                            and '/' not in name:
                        real_alias = bool(np.shares_memory(want, rargs[0]))
                        eng_alias = bool(np.shares_memory(res.a, sargs[0].a))
                        if real_alias != eng_alias:
                            verdict, detail = 'MISMATCH', 'aliasing: real %s, model %s' % (real_alias, eng_alias)
                            break
                if not same(got, want):
                    verdict, detail = 'MISMATCH', 'args=%r kwargs=%r real=%r model=%r' % (args, kwargs, want, got)
                    break
            except NotConcrete as e:
                verdict, detail = 'symbolic', 'symbolic result, not compared (%s)' % e
                break
            except Exception as e:
                verdict, detail = 'ERROR', '%s: %s (args=%r kwargs=%r)' % (type(e).__name__, str(e)[:200], args, kwargs)
                break
        results.append((name, verdict, detail))
        if verbose or verdict in ('MISMATCH', 'ERROR'):
            print('%-46s %s %s' % (name, verdict, detail[:400]))
    T.set_ctx(None)
    return results


def repo_cases():
    """(qualified name of a REAL eqsig function, argument generator) -- functions free of uninterpreted kernels, so that the engine's
    bounded mode computes exact numbers on concrete inputs"""
    PKc = 'eqsig.fns.peaks_and_crossings.'
    lv = lambda rng, n=9: np.round(rng.randn(n) * 2) / 1.0                  # few levels: plateaus, zeros, ties
    out = []
    add = lambda qn, gen: out.append((qn, gen))
    for fn in ('get_peak_array_indices', 'get_zero_crossings_array_indices', 'get_switched_peak_array_indices', 'determine_peaks_only_delta_series',
               'determine_pseudo_cyclic_peak_only_series', 'clean_out_non_changing', 'get_n_cyc_array'):
        add(PKc + fn, lambda rng: ((lv(rng) + (0 if rng.rand() < 0.5 else 0.5),), {}))
        add(PKc + fn, lambda rng: ((lv(rng).astype(np.int64),), {}))
    add(PKc + 'get_peak_array_indices', lambda rng: ((lv(rng),), dict(ptype='max')))
    add(PKc + 'get_peak_array_indices', lambda rng: ((lv(rng),), dict(ptype='min')))
    add(PKc + 'get_zero_crossings_array_indices', lambda rng: ((lv(rng),), dict(keep_adj_zeros=True)))
    add(PKc + 'get_zero_crossings_array_indices', lambda rng: ((lv(rng),), dict(tol=1.5)))
    add(PKc + 'get_switched_peak_array_indices', lambda rng: ((lv(rng),), dict(tol=1.5)))
    add('eqsig.displacements.calc_velo_and_disp_from_accel_arr', lambda rng: ((rnd(rng, (7,)), 0.25), {}))
    add('eqsig.displacements.calc_velo_and_disp_from_accel_arr', lambda rng: ((rnd(rng, (7,), 'i'), 0.25), dict(trap=False)))
    add('eqsig.im.calc_peak', lambda rng: ((rnd(rng, (7,)),), {}))
    add('eqsig.im.calc_sig_dur_vals', lambda rng: ((rnd(rng, (12,)) + 0.125, 0.5), dict(start=0.25, end=0.75, se=True)))
    add('eqsig.fns.time_step.interp_array_to_approx_dt', lambda rng: ((rnd(rng, (9,)), 0.5, 0.25), {}))
    add('eqsig.fns.time_step.interp_array_to_approx_dt', lambda rng: ((rnd(rng, (9,)), 0.25, 0.75), dict(even=False)))
    add('eqsig.fns.time_step.interp_array_to_approx_dt', lambda rng: ((rnd(rng, (10,), 'i'), 0.25, 0.5), {}))
    add('eqsig.fns.time_shift.put_array_in_2d_array', lambda rng: ((rnd(rng, (5,)), np.array([2, 0, -1])), {}))
    add('eqsig.fns.time_shift.put_array_in_2d_array', lambda rng: ((rnd(rng, (5,)), np.array([2, 0, -1])), dict(clip='both')))
    add('eqsig.fns.time_shift.join_values_w_shifts', lambda rng: ((rnd(rng, (5,)), np.array([1, 3])), dict(jtype='sub')))
    add('eqsig.fns.average.calc_roll_av_vals', lambda rng: ((rnd(rng, (8,)), 3), {}))
    add('eqsig.fns.average.calc_roll_av_vals', lambda rng: ((rnd(rng, (8,)), 4), dict(mode='centre')))
    add('eqsig.fns.average.calc_roll_av_vals', lambda rng: ((rnd(rng, (8,)), 2), dict(mode='backward')))
    add('eqsig.fns.average.calc_step_fn_steps_vals', lambda rng: ((rnd(rng, (8,)),), dict(ind=3)))
    add('eqsig.fns.average.calc_step_fn_vals_error', lambda rng: ((rnd(rng, (6,)),), dict(pow=2)))
    add('eqsig.fns.generic.interp_left', lambda rng: ((np.clip(rnd(rng, (4,)), -3.0, 9.0), np.array([-3.0, -1.0, 0.5, 2.0]), rnd(rng, (4,))), {}))
    add('eqsig.fns.generic.interp2d', lambda rng: ((rnd(rng, (4,)), np.array([-3.0, -1.0, 0.5, 2.0]), rnd(rng, (4, 2))), {}))
    add('eqsig.fns.generic.remove_poly', lambda rng: ((rnd(rng, (6,)),), dict(poly_fit=1)))
    add('eqsig.im.calc_cyc_amp_array_w_power_law', lambda rng: ((lv(rng, 7) + 0.5,), dict(n_cyc=2.0, b=1.0)))
    return out


def run_repo(verbose=False, trials=5):
    """End-to-end: the interpreter + library models executing the REAL source of an eqsig function on concrete inputs against CPython
    executing the same function (checks A1 and A2 together, on whatever tree PYVC_REPO / the installed package point to)."""
    import importlib
    lib = Lib()
    itp = Interp(lib)
    rng = np.random.RandomState(77)
    results = []
    for qn, gen in repo_cases():
        mod, fn = qn.rsplit('.', 1)
        try:
            real = getattr(importlib.import_module(mod), fn)
            f = itp.get_function(qn)
        except Exception as e:
            results.append((qn, 'ERROR', 'cannot resolve: %s' % e))
            continue
        verdict, detail = 'ok', ''
        for t in range(trials):
            args, kwargs = gen(rng)
            T.set_ctx(T.Ctx(decisions=[], mode='bounded', opts={}))
            itp.depth = 0
            try:
                itp.reset_module_state()
                try:
                    with np.errstate(all='ignore'):
                        want = real(*[a.copy() if isinstance(a, np.ndarray) else a for a in args], **kwargs)
                except Exception:
                    continue                 # the real code rejects this input (possible on a changed tree): nothing to compare
                res = itp.call(f, [to_sym(a) for a in args], {k: to_sym(v) for k, v in kwargs.items()})
                got = from_sym(res)
                if not same(got, want):
                    verdict, detail = 'MISMATCH', 'args=%r kwargs=%r real=%r engine=%r' % (args, kwargs, want, got)
                    break
            except NotConcrete as e:
                verdict, detail = 'symbolic', 'symbolic result, not compared (%s)' % e
                break
            except T.PyExc as e:
                verdict, detail = 'MISMATCH', 'engine raises %s where the real code returns (args=%r kwargs=%r)' % (e.kind, args, kwargs)
                break
            except T.EngineError as e:
                # a construct the engine does not model (possible on a changed tree): the units will report it as a checker error where
                # it matters; for the co-execution it only means "not comparable"
                verdict, detail = 'unmodelled', str(e)[:200]
                break
            except Exception as e:
                verdict, detail = 'ERROR', '%s: %s (args=%r kwargs=%r)' % (type(e).__name__, str(e)[:200], args, kwargs)
                break
        results.append((qn, verdict, detail))
        if verbose or verdict in ('MISMATCH', 'ERROR'):
            print('%-70s %s %s' % (qn, verdict, detail[:500]))
    T.set_ctx(None)
    return results


def main():
    res = run(verbose='-v' in sys.argv)
    rres = run_repo(verbose='-v' in sys.argv)
    rbad = [r for r in rres if r[1] in ('MISMATCH', 'ERROR')]
    print('engine co-execution: %d eqsig function variants give the same result in the interpreter as in CPython on random concrete inputs; %d symbolic; %d not modelled; %d DISAGREE'
          % (sum(1 for r in rres if r[1] == 'ok'), sum(1 for r in rres if r[1] == 'symbolic'), sum(1 for r in rres if r[1] == 'unmodelled'), len(rbad)))
    n_ok = sum(1 for r in res if r[1] == 'ok')
    bad = [r for r in res if r[1] in ('MISMATCH', 'ERROR')]
    print('library-contract conformance: %d models/variants agree with the installed NumPy %s / SciPy on random concrete inputs; %d symbolic (not compared); %d no model; %d DISAGREE'
          % (n_ok, np.__version__, sum(1 for r in res if r[1] == 'symbolic'), sum(1 for r in res if r[1] == 'no-model'), len(bad)))
    return 3 if (bad or rbad) else 0


if __name__ == '__main__':
    sys.exit(main())

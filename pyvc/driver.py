"""Check driver: runs the units of one property, writes evidence, prints VIOLATION / KNOWN-FINDING / UNDECIDED lines.

Exit codes: 0 all obligations discharged (known findings excepted) / 1 violation / 2 undecided / 3 checker error.
"""
import argparse
import glob
import hashlib
import importlib.util
import itertools
import json
import multiprocessing as mp
import os
import sys
import time
import traceback

HERE = os.path.dirname(os.path.dirname(os.path.abspath(__file__)))
REPO = os.environ.get('PYVC_REPO', '/repo')


def load_contracts(prop):
    from . import api
    api.UNITS.clear()
    api.SUMMARIES.clear()
    api.INVARIANTS.clear()
    # summaries / invariants of every contract file are shared (modular calls cross properties)
    files = sorted(glob.glob(os.path.join(HERE, 'contracts', 'c[0-9][0-9]_*.py')))
    common = sorted(glob.glob(os.path.join(HERE, 'contracts', 'common_*.py')))
    mods = []
    # c04_cache holds the table of public Signal/AccSignal operations that other properties' "after a change" units re-use: first
    files = sorted(files, key=lambda f: (0 if os.path.basename(f).startswith('c04_') else 1, f))
    for f in common + files:
        name = 'contracts_' + os.path.basename(f)[:-3]
        spec = importlib.util.spec_from_file_location(name, f)
        m = importlib.util.module_from_spec(spec)
        sys.modules[name] = m
        spec.loader.exec_module(m)
        mods.append(m)
    return [u for u in api.UNITS if u['prop'] == prop]


def tasks_for(units, tier):
    out = []
    for ui, u in enumerate(units):
        if u['tier'] == 'thorough' and tier != 'thorough':
            continue
        variants = [False] + ([True] if (u.get('opts') or {}).get('int_variant') else [])
        for ci, case in enumerate(u['cases']):
          for intv in variants:
            if 'unbounded' in u['modes']:
                out.append((ui, ci, 'unbounded', {'__int__': 1} if intv else {}))
            if 'bounded' in u['modes']:
                sizes = u['sizes']
                if tier == 'thorough' and u.get('thorough_sizes'):
                    sizes = u['thorough_sizes']
                if sizes:
                    keys = sorted(sizes)
                    for combo in itertools.product(*[list(sizes[k]) for k in keys]):
                        out.append((ui, ci, 'bounded', dict(zip(keys, combo), **({'__int__': 1} if intv else {}))))
                elif 'unbounded' not in u['modes']:
                    out.append((ui, ci, 'bounded', {'__int__': 1} if intv else {}))
    return out


_G = {}


def _run_task(task):
    ui, ci, mode, sizes = task
    sizes = dict(sizes)
    intv = bool(sizes.pop('__int__', 0))
    from . import api
    from .terms import EngineError
    from .interp import Infeasible
    u = _G['units'][ui]
    case = u['cases'][ci]
    t0 = time.time()
    V = api.Verifier(u, case, mode, sizes, u['budget_ms'] * (3 if _G['tier'] == 'thorough' else 1), seed=_G['seed'],
                     use_cvc5=_G['tier'] == 'thorough')
    if intv:
        # the same unit with the named record arrays declared as INTEGER-dtype arrays (raw counts): buffers derived from the record with
        # zeros_like / empty_like / astype take its dtype, and stores into them truncate
        V.int_names = set(u['opts']['int_variant'])
        V.case_tag = (V.case_tag.split('|')[0] + (',' if V.case_tag.split('|')[0] else '') + 'record=int') + ('|' + V.case_tag.split('|', 1)[1] if '|' in V.case_tag else '')
    V.baseline_vcs = _G.get('baseline_vcs', set())
    V.hash_all = _G.get('hash_all', False)
    err = None
    skipped = False
    try:
        u['fn'](V, **case)
    except api.Skip:
        skipped = True
    except Infeasible:
        if V.paths_seen > 0:
            # raised while a contract body was running after some paths had been yielded: the remaining paths were NOT explored
            err = 'Infeasible escaped from the unit body after %d paths: coverage truncated' % V.paths_seen
    except EngineError as e:
        err = 'EngineError: %s' % e
    except Exception as e:
        err = 'crash: %s: %s\n%s' % (type(e).__name__, e, traceback.format_exc()[-1500:])
    # de-duplicate clause names (bounded index loops)
    seen = {}
    for r in V.records:
        k = r['name']
        seen[k] = seen.get(k, 0) + 1
        if seen[k] > 1:
            r['name'] = '%s#%d' % (k, seen[k])
    return dict(unit=u['name'], prop=u['prop'], case=V.case_tag, mode=mode, sizes=sizes, records=V.records, error=err,
                paths=V.paths_seen, skipped=skipped, wall=time.time() - t0, functions=sorted(V.itp.functions_seen),
                sources={k: hashlib.sha256(v.encode()).hexdigest() for k, v in V.itp.sources.items()},
                assumed=sorted(V.assumed), qualnames=u['functions'])


def run_property(prop, tier, seed, jobs=None, only=None, hash_all=False):
    units = load_contracts(prop)
    if only:
        units = [u for u in units if only in u['name']]
    _G['units'], _G['tier'], _G['seed'] = units, tier, seed
    from . import report as _rp
    _rp._TIER[0] = tier
    _G['baseline_vcs'] = _rp.load_baseline_vcs(prop)
    _G['hash_all'] = hash_all
    tasks = tasks_for(units, tier)
    if not tasks:
        return units, []
    jobs = jobs or min(16, os.cpu_count() or 4)
    if jobs == 1 or len(tasks) == 1:
        results = [_run_task(t) for t in tasks]
    else:
        ctx_ = mp.get_context('fork')
        with ctx_.Pool(min(jobs, len(tasks)), maxtasksperchild=1) as pool:   # a fresh fork per task: fresh-name counters (and so VC hashes) do not depend on scheduling
            results = pool.map(_run_task, tasks, chunksize=1)
    return units, results


def main(argv=None):
    ap = argparse.ArgumentParser()
    ap.add_argument('prop')
    ap.add_argument('--tier', default=os.environ.get('VERIF_TIER', 'quick'), choices=['quick', 'thorough'])
    ap.add_argument('--replay')
    ap.add_argument('--jobs', type=int)
    ap.add_argument('--only')
    ap.add_argument('--verbose', '-v', action='store_true')
    ap.add_argument('--write-baseline', action='store_true', help='record the clauses discharged on the (unchanged) tree in baseline/<prop>.json')
    args = ap.parse_args(argv)
    seed = int(os.environ.get('VERIF_SEED', '0') or 0)
    os.chdir(HERE)
    if args.replay:
        from . import replay
        return replay.main_replay(args.prop, args.replay)
    t0 = time.time()
    from . import report
    # the assumed library contracts are cross-checked against the installed NumPy/SciPy on every run (pyvc/conformance.py)
    import subprocess
    try:
        cp = subprocess.run([sys.executable, '-m', 'pyvc.conformance'], cwd=HERE, capture_output=True, text=True, timeout=300)
        last = ' | '.join((cp.stdout.strip().splitlines() or ['no output'])[-2:])
        if cp.returncode != 0:
            print(cp.stdout[-3000:])
            print('CHECKER-ERROR property=%s an assumed library contract disagrees with the installed library: %s' % (args.prop, last))
            return 3
        os.environ['PYVC_CONFORMANCE'] = last
    except Exception as e:
        print('CHECKER-ERROR property=%s library-contract conformance run failed: %s: %s' % (args.prop, type(e).__name__, e))
        return 3
    try:
        units, results = run_property(args.prop, args.tier, seed, args.jobs, args.only, hash_all=args.write_baseline)
    except Exception as e:
        print('CHECKER-ERROR property=%s %s: %s' % (args.prop, type(e).__name__, e))
        traceback.print_exc()
        return 3
    return report.finish(args.prop, args.tier, seed, units, results, time.time() - t0, verbose=args.verbose, partial=bool(args.only), baseline_out=args.write_baseline)


if __name__ == '__main__':
    sys.exit(main())

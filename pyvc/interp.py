"""AST interpreter of pyvc: symbolic execution of the *real* eqsig source (read from /repo on every run).

Paths are enumerated by decision replay (each path re-executes the function from the start with a recorded
vector of branch decisions), so no state copying is needed.  Exceptions of the interpreted program are outcomes
(PyExc); engine limitations are EngineError (never a verdict).
"""
import ast
import os

import z3

from . import terms as T
from . import arrays as A
from .terms import EngineError, PyExc, N, ctx, Q
from .arrays import BArr, CArr, is_arr

REPO_ROOT = os.environ.get('PYVC_REPO', '/repo')
MAX_UNROLL = 4000
MAX_DEPTH = 40


def _has_quant(e):
    if isinstance(e, bool):
        return False
    stack = [e]
    seen = set()
    while stack:
        t = stack.pop()
        if t.get_id() in seen:
            continue
        seen.add(t.get_id())
        if z3.is_quantifier(t):
            return True
        stack.extend(t.children())
    return False


# ------------------------------------------------------------------------------------------- control signals
class ReturnSig(Exception):
    def __init__(self, value):
        self.value = value


class BreakSig(Exception):
    pass


class ContinueSig(Exception):
    pass


class PathEnd(Exception):
    """The current path ends here without a function result (loop-body verification branch, pruned path)."""

    def __init__(self, why):
        Exception.__init__(self, why)
        self.why = why


class Infeasible(Exception):
    pass


# -------------------------------------------------------------------------------------------------- values
class FuncVal:
    def __init__(self, qualname, node, module, cls=None):
        self.qualname, self.node, self.module, self.cls = qualname, node, module, cls

    def __repr__(self):
        return '<repo function %s>' % self.qualname


class BoundMethod:
    def __init__(self, obj, func):
        self.obj, self.func = obj, func


class MemoFn:
    """A module-level function wrapped by a memoising decorator."""
    def __init__(self, func):
        self.func = func
        self.qualname = func.qualname

    def __repr__(self):
        return '<memo %s>' % self.func.qualname


class SymKey:
    """Dictionary key that is not a plain str/int/bool/None: tuples, symbolic numbers, array bytes.  Hash by identity; equality with
    other keys is decided structurally by Interp.key_eq (a fork when it depends on symbolic values)."""
    def __init__(self, value):
        self.value = value

    def __repr__(self):
        return 'SymKey(%r)' % (self.value,)


class BytesVal:
    """ndarray.tobytes(): the content of an array as a hashable value (equal iff same dtype, length and elements)."""
    def __init__(self, arr):
        self.arr = arr

    def __repr__(self):
        return '<bytes of %r>' % (self.arr,)


class ClassVal:
    def __init__(self, qualname, node, module):
        self.qualname, self.node, self.module = qualname, node, module
        self.name = node.name
        self._members = None

    def bases(self):
        out = []
        for b in self.node.bases:
            if isinstance(b, ast.Name) and b.id == 'object':
                continue
            v = self.module.interp.eval_in_module(b, self.module)
            if isinstance(v, ClassVal):
                out.append(v)
            elif isinstance(v, ExcClass):
                out.append(v)
        return out

    def members(self):
        """name -> ('method', FuncVal) | ('property', getter, setter) | ('attr', ast expr)"""
        if self._members is None:
            m = {}
            for st in self.node.body:
                if isinstance(st, ast.FunctionDef):
                    decos = [ast.unparse(d) for d in st.decorator_list]
                    fv = FuncVal(self.qualname + '.' + st.name, st, self.module, self)
                    if 'property' in decos:
                        old = m.get(st.name)
                        m[st.name] = ('property', fv, old[2] if old and old[0] == 'property' else None)
                    elif any(d.endswith('.setter') for d in decos):
                        old = m.get(st.name)
                        m[st.name] = ('property', old[1] if old and old[0] == 'property' else None, fv)
                    elif 'staticmethod' in decos:
                        m[st.name] = ('static', fv)
                    elif any(d in ('functools.cached_property', 'cached_property') for d in decos):
                        m[st.name] = ('cached_property', fv, None)
                    elif decos:
                        raise EngineError('decorator %s on %s.%s is not modelled' % (decos, self.qualname, st.name))
                    else:
                        m[st.name] = ('method', fv)
                elif isinstance(st, ast.Assign):
                    for t in st.targets:
                        if isinstance(t, ast.Name):
                            m[t.id] = ('attr', st.value)
            self._members = m
        return self._members

    def mro(self):
        out = [self]
        for b in self.bases():
            if isinstance(b, ClassVal):
                for c in b.mro():
                    if c not in out:
                        out.append(c)
        return out

    def lookup(self, name, after=None):
        seen_after = after is None
        for c in self.mro():
            if not seen_after:
                if c is after:
                    seen_after = True
                continue
            m = c.members()
            if name in m:
                return c, m[name]
        return None, None

    def is_subclass(self, other):
        return any(c.qualname == other.qualname for c in self.mro())

    def __repr__(self):
        return '<repo class %s>' % self.qualname


class ObjVal:
    def __init__(self, cls):
        self.cls = cls
        self.attrs = {}

    def __repr__(self):
        return '<%s object>' % self.cls.qualname


class ExcClass:
    def __init__(self, name, base='Exception'):
        self.name, self.base = name, base

    def __repr__(self):
        return '<exception class %s>' % self.name


class ExcVal:
    def __init__(self, cls, args):
        self.cls, self.args = cls, args


class TypeVal:
    """Builtin type used as converter, isinstance target or dtype."""

    def __init__(self, name):
        self.name = name

    def __repr__(self):
        return '<type %s>' % self.name


class SuperVal:
    def __init__(self, obj, after):
        self.obj, self.after = obj, after


class SymRange:
    def __init__(self, start, stop, step=1):
        self.start, self.stop, self.step = start, stop, step


class EnumVal:
    def __init__(self, inner, start=0):
        self.inner, self.start = inner, start


class LibNS:
    """A namespace of the modelled libraries (numpy, scipy.*, collections ...)."""

    def __init__(self, path, lib):
        self.path, self.lib = path, lib

    def __repr__(self):
        return '<lib %s>' % self.path


class OpaqueFn:
    """A user supplied callable modelled as an arbitrary deterministic function (see spec.opaque_callable)."""

    def __init__(self, name, fn):
        self.name, self.fn = name, fn


BUILTIN_EXC = {
    'Exception': None, 'ValueError': 'Exception', 'TypeError': 'Exception', 'IndexError': 'LookupError',
    'KeyError': 'LookupError', 'LookupError': 'Exception', 'AttributeError': 'Exception',
    'ZeroDivisionError': 'ArithmeticError', 'ArithmeticError': 'Exception', 'AssertionError': 'Exception',
    'MemoryError': 'Exception', 'NotImplementedError': 'RuntimeError', 'RuntimeError': 'Exception',
    'Warning': 'Exception', 'UFuncTypeError': 'TypeError', 'FileNotFoundError': 'Exception', 'StopIteration': 'Exception',
}


class RepoModule:
    def __init__(self, name, path, interp):
        self.name, self.path, self.interp = name, path, interp
        self.is_pkg = os.path.isdir(path)
        self.file = os.path.join(path, '__init__.py') if self.is_pkg else path
        self.tree = None
        self.globals = None
        self.loading = False

    def load(self):
        if self.globals is not None:
            return
        src = open(self.file).read()
        self.interp.sources[os.path.relpath(self.file, REPO_ROOT)] = src
        self.tree = ast.parse(src, self.file)
        self.globals = {}
        self.defs = {}
        self.assigned = set()                       # names bound by module-level assignments / `global` writes: re-evaluated on every path
        for st in self.tree.body:
            if isinstance(st, ast.FunctionDef):
                self.defs[st.name] = st          # later definitions override earlier ones (python semantics)
            elif isinstance(st, ast.ClassDef):
                self.defs[st.name] = st
        self.stmts = self.tree.body

    def lookup(self, name):
        self.load()
        if name in self.globals:
            return self.globals[name]
        busy = self.interp.lookup_busy
        key = (self.name, name)
        if key in busy:
            raise KeyError(name)                      # cyclic star-import chain
        busy.add(key)
        try:
            return self._lookup(name)
        finally:
            busy.discard(key)

    def _lookup(self, name):
        if name in self.defs:
            st = self.defs[name]
            qn = self.name + '.' + name
            v = FuncVal(qn, st, self) if isinstance(st, ast.FunctionDef) else ClassVal(qn, st, self)
            if isinstance(st, ast.FunctionDef) and st.decorator_list:
                v = self.interp.decorate(v, st)
            self.globals[name] = v
            return v
        # module level imports / simple assignments, resolved lazily
        for st in self.stmts:
            if isinstance(st, ast.Import):
                for al in st.names:
                    bound = al.asname or al.name.split('.')[0]
                    if bound == name:
                        target = al.name if al.asname else al.name.split('.')[0]
                        v = self.interp.import_module(target)
                        self.globals[name] = v
                        return v
            elif isinstance(st, ast.ImportFrom):
                modname = self.interp.resolve_relative(self, st.module, st.level)
                for al in st.names:
                    if al.name == '*':
                        m = self.interp.import_module(modname)
                        if isinstance(m, RepoModule):
                            try:
                                return m.lookup(name)
                            except KeyError:
                                continue
                        continue
                    if (al.asname or al.name) == name:
                        v = self.interp.import_from(modname, al.name)
                        self.globals[name] = v
                        return v
            elif isinstance(st, ast.Assign) and len(st.targets) == 1 and isinstance(st.targets[0], ast.Name) \
                    and st.targets[0].id == name:
                v = self.interp.eval_in_module(st.value, self)
                self.globals[name] = v
                self.assigned.add(name)
                self.interp.note_module_object(v)
                return v
        if self.is_pkg:
            sub = self.interp.try_repo_module(self.name + '.' + name)
            if sub is not None:
                return sub
        raise KeyError(name)


class Frame:
    def __init__(self, func, locs):
        self.func = func
        self.locals = locs
        self.loop_counter = 0


# ============================================================================================== interpreter
class Interp:
    def __init__(self, lib, contracts=None, invariants=None):
        self.lib = lib
        self.modules = {}
        self.sources = {}
        self.contracts = contracts or {}        # qualname -> summary callable (modular call)
        self.invariants = invariants or {}      # (qualname, loop ordinal) -> invariant spec
        self.depth = 0
        self.functions_seen = set()
        self.feas_timeout = int(os.environ.get("PYVC_FEAS_MS", "400"))
        self.store_hook = None                   # optional callback(target array value) for frame analysis
        self.lookup_busy = set()
        self.module_objs = {}                    # id -> object: containers created by module-level assignments (hidden state between calls)
        self.memo_tables = {}                    # qualname -> dict: tables of memoising decorators (functools.lru_cache / cache)
        self.module_state_written = False        # this path wrote state that outlives the call (module containers, globals, memo tables)
        T.DECIDER = self.decide
        lib.interp = self

    # ------------------------------------------------------------------------------------------- modules
    def try_repo_module(self, name):
        if name in self.modules:
            return self.modules[name]
        parts = name.split('.')
        if parts[0] != 'eqsig':
            return None
        base = os.path.join(REPO_ROOT, *parts)
        if os.path.isdir(base) and os.path.exists(os.path.join(base, '__init__.py')):
            m = RepoModule(name, base, self)
        elif os.path.exists(base + '.py'):
            m = RepoModule(name, base + '.py', self)
        else:
            return None
        self.modules[name] = m
        return m

    def import_module(self, name):
        m = self.try_repo_module(name)
        if m is not None:
            return m
        return self.lib.namespace(name)

    def resolve_relative(self, module, modname, level):
        if not level:
            return modname
        parts = module.name.split('.')
        if not module.is_pkg:
            parts = parts[:-1]
        parts = parts[:len(parts) - (level - 1)]
        return '.'.join(parts + ([modname] if modname else []))

    def import_from(self, modname, name):
        m = self.import_module(modname)
        if isinstance(m, RepoModule):
            try:
                return m.lookup(name)
            except KeyError:
                sub = self.try_repo_module(modname + '.' + name)
                if sub is not None:
                    return sub
                raise PyExc('ImportError', 'cannot import name %s from %s' % (name, modname))
        return self.lib.getattr(m, name)

    # ------------------------------------------------------------------------ state that outlives a call
    def reset_module_state(self):
        """Start of a path: module-level assignments are re-evaluated (a path must not see what an earlier PATH stored)."""
        for m in self.modules.values():
            if isinstance(m, RepoModule) and m.globals is not None:
                for nm in list(getattr(m, 'assigned', ())):
                    m.globals.pop(nm, None)
                m.assigned = set()
        self.module_objs = {}
        self.memo_tables = {}
        self.module_state_written = False

    def note_module_object(self, v, depth=0):
        if isinstance(v, (dict, list)) or is_arr(v) or isinstance(v, ObjVal):
            self.module_objs[id(v)] = v
            if depth < 2 and isinstance(v, (dict, list)):
                for el in (v.values() if isinstance(v, dict) else v):
                    self.note_module_object(el, depth + 1)

    def decorate(self, fv, node):
        for d in node.decorator_list:
            txt = ast.unparse(d)
            head = txt.split('(')[0]
            if head in ('functools.lru_cache', 'lru_cache', 'functools.cache', 'cache'):
                fv = MemoFn(fv)
            else:
                raise EngineError('decorator %s on %s is not modelled' % (txt, fv.qualname))
        return fv

    def call_memo(self, f, args, kwargs):
        """functools.lru_cache / cache: a table keyed by the call's arguments (eviction not modelled: an evicted entry behaves
        like a first call, which the history-free run covers)."""
        table = self.memo_tables.setdefault(f.func.qualname, {})
        key = tuple(args) + tuple((k, kwargs[k]) for k in sorted(kwargs))
        for a in key:
            if is_arr(a) or isinstance(a, (list, dict)):
                raise PyExc('TypeError', 'unhashable type')
        found = self.find_key(table, key)
        if found is not None:
            return table[found]
        v = self.call_function(f.func, list(args), dict(kwargs))
        table[self.new_key(key)] = v
        self.module_state_written = True
        return v

    def eval_in_module(self, expr, module):
        fr = Frame(FuncVal(module.name + '.<module>', None, module), {})
        return self.ev(expr, fr)

    def get_function(self, qualname):
        parts = qualname.split('.')
        for k in range(len(parts) - 1, 0, -1):
            m = self.try_repo_module('.'.join(parts[:k]))
            if m is not None:
                v = m.lookup(parts[k])
                for p in parts[k + 1:]:
                    if isinstance(v, ClassVal):
                        _, mem = v.lookup(p)
                        if mem is None:
                            raise EngineError('no member %s in %s' % (p, v.qualname))
                        v = mem[1]
                    else:
                        raise EngineError('cannot resolve %s' % qualname)
                return v
        raise EngineError('cannot resolve %s' % qualname)

    # -------------------------------------------------------------------------------------------- forking
    def _solver(self):
        c = ctx()
        if c.solver is None:
            c.solver = z3.Solver()
            c.solver.set('timeout', self.feas_timeout)
            c._nf = 0
            c._np = 0
        s = c.solver
        while c._nf < len(c.facts):
            f = c.facts[c._nf]
            # quantified library axioms are left out of the *feasibility* solver (over-approximation of feasible paths is
            # sound; it keeps these checks quantifier-free and fast); obligations always see every fact
            if not _has_quant(f):
                s.add(f)
            c._nf += 1
        while c._np < len(c.pc):
            s.add(c.pc[c._np])
            c._np += 1
        return s

    def feasible(self, cond):
        s = self._solver()
        s.push()
        s.add(cond)
        r = s.check()
        s.pop()
        return r != z3.unsat

    def decide(self, cond):
        """True / False when the path hypotheses decide cond, else None (used to canonicalise shape terms)."""
        try:
            if self.implied(cond):
                return True
            if self.implied(z3.Not(cond)):
                return False
        except z3.Z3Exception:
            return None
        return None

    def implied(self, cond):
        """True only if the current hypotheses provably imply cond (quick check)."""
        cond = T.truthy(cond)
        if isinstance(cond, bool):
            return cond
        s = self._solver()
        s.push()
        s.add(z3.Not(cond))
        r = s.check()
        s.pop()
        return r == z3.unsat

    def fork(self, cond, label=''):
        cond = T.truthy(cond)
        if isinstance(cond, bool):
            return cond
        c = ctx()
        memo = c.cache.setdefault('fork-memo', {})
        hit = memo.get(cond.get_id())
        if hit is not None:
            return hit[1]                      # same condition already decided on this path
        if c.pos < len(c.decisions):
            d = c.decisions[c.pos]
        else:
            ft = self.feasible(cond)
            ff = self.feasible(z3.Not(cond))
            if ft and ff:
                c.pending.append(list(c.decisions[:c.pos]) + [False])
                d = True
            elif ft:
                d = True
            elif ff:
                d = False
            elif c.cache.get('phase') == 'contract':
                # the function under test has returned and the CONTRACT body is running spec-level code on this path: the path
                # turns out to be infeasible (the cheap canary had not noticed).  Do not abort the whole task (that would silently
                # drop every remaining path): mark the path vacuous -- its remaining obligations hold vacuously -- and go on.
                c.cache['vacuous'] = True
                d = True
            else:
                raise Infeasible()
            c.decisions.append(d)
        c.pos += 1
        c.pc.append(cond if d else z3.Not(cond))
        memo[cond.get_id()] = (cond, d)
        c.known[cond.get_id()] = (cond, d)
        if z3.is_not(cond):
            c.known[cond.arg(0).get_id()] = (cond.arg(0), not d)
        c.trace.append('%s=%s' % (label or 'br', 'T' if d else 'F'))
        return d

    def choose(self, label, n=2):
        """Non-deterministic choice among n alternatives (all explored)."""
        c = ctx()
        if c.pos < len(c.decisions):
            d = c.decisions[c.pos]
        else:
            for k in range(n - 1, 0, -1):
                c.pending.append(list(c.decisions[:c.pos]) + [k])
            d = 0
            c.decisions.append(d)
        c.pos += 1
        c.trace.append('%s#%d' % (label, d))
        return d

    def assume(self, cond):
        cond = T.truthy(cond)
        if cond is True:
            return
        if cond is False:
            raise Infeasible()
        c = ctx()
        c.pc.append(cond)
        c.known[cond.get_id()] = (cond, True)
        if z3.is_not(cond):
            c.known[cond.arg(0).get_id()] = (cond.arg(0), False)

    def oblige(self, name, cond):
        c = ctx()
        cond = T.truthy(cond)
        c.safety.append((name, cond, len(c.pc)))

    # ---------------------------------------------------------------------------------------------- calls
    def call(self, f, args, kwargs, node=None):
        if isinstance(f, FuncVal):
            return self.call_function(f, args, kwargs)
        if isinstance(f, BoundMethod):
            return self.call_function(f.func, [f.obj] + list(args), kwargs)
        if isinstance(f, MemoFn):
            return self.call_memo(f, args, kwargs)
        if isinstance(f, ClassVal):
            return self.instantiate(f, args, kwargs)
        if isinstance(f, ExcClass):
            return ExcVal(f, args)
        if isinstance(f, TypeVal):
            return self.lib.convert(f.name, args, kwargs)
        if isinstance(f, OpaqueFn):
            return f.fn(self, *args, **kwargs)
        if callable(f):
            if kwargs.get('out') is not None and getattr(f, '_reg', None):
                import inspect
                if 'out' not in inspect.signature(f).parameters:
                    # ufunc-style out=: compute, then write through the view into the given array (dtype cast as NumPy does)
                    kw = {k: v for k, v in kwargs.items() if k != 'out'}
                    out = kwargs['out']
                    if not is_arr(out):
                        raise EngineError('out= with a non-array')
                    r = f(*args, **kw)
                    if self.store_hook:
                        self.store_hook(out)
                    self.lib.setitem(out, (slice(None),) * len(out.shape), r)
                    return out
            try:
                return f(*args, **kwargs)
            except TypeError as e:
                if getattr(f, '_reg', None) and 'unexpected keyword argument' in str(e):
                    raise EngineError('library model %s: %s' % (f._reg[0], e))
                raise
        raise PyExc('TypeError', '%r is not callable' % (f,))

    def instantiate(self, cls, args, kwargs):
        obj = ObjVal(cls)
        c, mem = cls.lookup('__init__')
        if mem is not None:
            self.call_function(mem[1], [obj] + list(args), kwargs)
        return obj

    def call_function(self, f, args, kwargs):
        if f.qualname in self.contracts and not ctx().opts.get('inline_all'):
            summ = self.contracts[f.qualname]
            if ctx().opts.get('root') != f.qualname or self.depth > 0:
                self.functions_seen.add(f.qualname + ' (by contract)')
                return summ(self, *args, **kwargs)
        self.functions_seen.add(f.qualname)
        node = f.node
        locs = self.bind(f, node.args, args, kwargs)
        fr = Frame(f, locs)
        if self.depth > MAX_DEPTH:
            raise EngineError('call depth exceeded')
        self.depth += 1
        try:
            self.exec_block(node.body, fr)
        except ReturnSig as r:
            return r.value
        finally:
            self.depth -= 1
        return None

    def bind(self, f, a, args, kwargs):
        locs = {}
        params = [p.arg for p in a.posonlyargs + a.args]
        defaults = a.defaults
        nd = len(defaults)
        args = list(args)
        kwargs = dict(kwargs)
        if len(args) > len(params) and a.vararg is None:
            raise PyExc('TypeError', '%s() takes %d positional arguments but %d were given' % (f.qualname, len(params), len(args)))
        for k, p in enumerate(params):
            if k < len(args):
                if p in kwargs:
                    raise PyExc('TypeError', 'multiple values for argument %s' % p)
                locs[p] = args[k]
            elif p in kwargs:
                locs[p] = kwargs.pop(p)
            else:
                j = k - (len(params) - nd)
                if j < 0:
                    raise PyExc('TypeError', '%s() missing required argument %s' % (f.qualname, p))
                locs[p] = self.ev(defaults[j], Frame(f, {}))
        if a.vararg is not None:
            locs[a.vararg.arg] = tuple(args[len(params):])
        for p, d in zip(a.kwonlyargs, a.kw_defaults):
            if p.arg in kwargs:
                locs[p.arg] = kwargs.pop(p.arg)
            elif d is not None:
                locs[p.arg] = self.ev(d, Frame(f, {}))
            else:
                raise PyExc('TypeError', 'missing keyword-only argument %s' % p.arg)
        if a.kwarg is not None:
            locs[a.kwarg.arg] = kwargs
        elif kwargs:
            raise PyExc('TypeError', '%s() got an unexpected keyword argument %s' % (f.qualname, sorted(kwargs)[0]))
        return locs

    # ---------------------------------------------------------------------------------------- statements
    def exec_block(self, stmts, fr):
        for st in stmts:
            self.exec_stmt(st, fr)

    def exec_stmt(self, s, fr):
        if isinstance(s, ast.Expr):
            if isinstance(s.value, ast.Constant):
                return                                              # docstring / bare constant: dropped
            if isinstance(s.value, ast.Call) and isinstance(s.value.func, ast.Name) and s.value.func.id == 'print':
                return                                              # console output: dropped (DESIGN 3.1)
            self.ev(s.value, fr)
            return
        if isinstance(s, ast.Assign):
            v = self.ev(s.value, fr)
            for t in s.targets:
                self.assign(t, v, fr)
            return
        if isinstance(s, ast.AugAssign):
            self.aug_assign(s, fr)
            return
        if isinstance(s, ast.AnnAssign):
            if s.value is not None:
                self.assign(s.target, self.ev(s.value, fr), fr)
            return
        if isinstance(s, ast.If):
            c = self.truth(self.ev(s.test, fr), fr)
            if self.fork(c, 'if@%d' % s.lineno):
                self.exec_block(s.body, fr)
            else:
                self.exec_block(s.orelse, fr)
            return
        if isinstance(s, ast.For):
            self.exec_for(s, fr)
            return
        if isinstance(s, ast.While):
            self.exec_while(s, fr)
            return
        if isinstance(s, ast.Return):
            raise ReturnSig(self.ev(s.value, fr) if s.value is not None else None)
        if isinstance(s, ast.Raise):
            self.exec_raise(s, fr)
            return
        if isinstance(s, ast.Try):
            self.exec_try(s, fr)
            return
        if isinstance(s, ast.Assert):
            c = self.truth(self.ev(s.test, fr), fr)
            if not self.fork(c, 'assert@%d' % s.lineno):
                raise PyExc('AssertionError', 'line %d' % s.lineno)
            return
        if isinstance(s, ast.Pass):
            return
        if isinstance(s, ast.Global):
            if not hasattr(fr, 'global_names'):
                fr.global_names = set()
            fr.global_names.update(s.names)
            return
        if isinstance(s, ast.Break):
            raise BreakSig()
        if isinstance(s, ast.Continue):
            raise ContinueSig()
        if isinstance(s, ast.Import):
            for al in s.names:
                bound = al.asname or al.name.split('.')[0]
                fr.locals[bound] = self.import_module(al.name if al.asname else al.name.split('.')[0])
            return
        if isinstance(s, ast.ImportFrom):
            modname = self.resolve_relative(fr.func.module, s.module, s.level)
            for al in s.names:
                fr.locals[al.asname or al.name] = self.import_from(modname, al.name)
            return
        if isinstance(s, ast.With):
            for item in s.items:
                v = self.ev(item.context_expr, fr)
                if item.optional_vars is not None:
                    self.assign(item.optional_vars, v, fr)
            self.exec_block(s.body, fr)
            return
        if isinstance(s, ast.Delete):
            for t in s.targets:
                if isinstance(t, ast.Name):
                    fr.locals.pop(t.id, None)
                else:
                    raise EngineError('unsupported del target at line %d' % s.lineno)
            return
        if isinstance(s, (ast.FunctionDef, ast.ClassDef)):
            raise EngineError('nested def/class at line %d not supported' % s.lineno)
        raise EngineError('unsupported statement %s at line %d' % (type(s).__name__, s.lineno))

    def truth(self, v, fr=None):
        if is_arr(v):
            if isinstance(v, BArr) and v.a.size == 1:
                return T.truthy(v.a.reshape(-1)[0])
            raise PyExc('ValueError', 'truth value of an array with more than one element is ambiguous')
        if isinstance(v, (list, tuple, dict)):
            return len(v) > 0
        if isinstance(v, (ObjVal, FuncVal, ClassVal, LibNS, BoundMethod)):
            return True
        return T.truthy(v)

    def exec_raise(self, s, fr):
        if s.exc is None:
            raise EngineError('bare raise not supported')
        v = self.ev(s.exc, fr)
        if isinstance(v, ClassVal) and self._is_exc_class(v):
            raise PyExc(v.name, '')
        if isinstance(v, ObjVal) and self._is_exc_class(v.cls):
            raise PyExc(v.cls.name, '')
        if isinstance(v, ExcClass):
            raise PyExc(v.name, '')
        if isinstance(v, ExcVal):
            raise PyExc(v.cls.name, ' '.join(str(a) for a in v.args))
        raise PyExc('TypeError', 'exceptions must derive from BaseException')

    def _is_exc_class(self, cls):
        for b in cls.bases():
            if isinstance(b, ExcClass):
                self.lib.exc_bases.setdefault(cls.name, b.name)
                return True
            if isinstance(b, ClassVal) and self._is_exc_class(b):
                self.lib.exc_bases.setdefault(cls.name, b.name)
                return True
        return False

    def exc_matches(self, kind, handler_type, fr):
        if handler_type is None:
            return True
        v = self.ev(handler_type, fr)
        names = [x.name for x in (v if isinstance(v, tuple) else (v,)) if isinstance(x, (ExcClass, ClassVal))]
        k = kind
        seen = 0
        while k is not None and seen < 10:
            if k in names:
                return True
            k = self.exc_base(k)
            seen += 1
        return False

    def exc_base(self, kind):
        if kind in BUILTIN_EXC:
            return BUILTIN_EXC[kind]
        return self.lib.exc_bases.get(kind, 'Exception')

    def exec_try(self, s, fr):
        try:
            try:
                self.exec_block(s.body, fr)
            except PyExc as e:
                for h in s.handlers:
                    if self.exc_matches(e.kind, h.type, fr):
                        if h.name:
                            fr.locals[h.name] = ExcVal(ExcClass(e.kind), (e.msg,))
                        self.exec_block(h.body, fr)
                        break
                else:
                    raise
            else:
                self.exec_block(s.orelse, fr)
        finally:
            if s.finalbody:
                self.exec_block(s.finalbody, fr)

    # --------------------------------------------------------------------------------------------- loops
    def exec_for(self, s, fr):
        fr.loop_counter += 1
        ordinal = fr.loop_counter
        it = self.ev(s.iter, fr)
        items = self.iter_items(it)
        if items is None:
            self.exec_for_invariant(s, fr, it, ordinal)
            return
        count = 0
        broke = False
        for item in items:
            count += 1
            if count > MAX_UNROLL:
                raise EngineError('loop at line %d exceeds unroll limit' % s.lineno)
            self.assign(s.target, item, fr)
            try:
                self.exec_block(s.body, fr)
            except BreakSig:
                broke = True
                break
            except ContinueSig:
                continue
        if not broke:
            self.exec_block(s.orelse, fr)

    def iter_items(self, it):
        """Concrete iteration (python iterable of values) or None when the trip count is symbolic."""
        if isinstance(it, range):
            return it
        if isinstance(it, (list, tuple)):
            return list(it)
        if isinstance(it, dict):
            return list(it.keys())
        if isinstance(it, BArr):
            if it.a.ndim == 1:
                return [N(x) for x in it.a.tolist()]
            return [BArr(it.a[k], it.dtype, it.origin) for k in range(it.a.shape[0])]
        if isinstance(it, CArr):
            n = it.shape[0]
            if isinstance(n, int):
                return [it[k] for k in range(n)]
            return None
        if isinstance(it, SymRange):
            return None
        if isinstance(it, EnumVal):
            inner = self.iter_items(it.inner)
            if inner is None:
                return None
            return [(it.start + k, x) for k, x in enumerate(inner)]
        if isinstance(it, zip):
            return list(it)
        if type(it).__name__ in ('dict_items', 'dict_keys', 'dict_values'):
            return list(it)
        if isinstance(it, str):
            return list(it)
        raise EngineError('cannot iterate over %r' % (it,))

    def exec_while(self, s, fr):
        fr.loop_counter += 1
        count = 0
        while True:
            c = self.truth(self.ev(s.test, fr), fr)
            if not self.fork(c, 'while@%d' % s.lineno):
                self.exec_block(s.orelse, fr)
                return
            count += 1
            if count > MAX_UNROLL:
                raise EngineError('while loop at line %d exceeds unroll limit' % s.lineno)
            try:
                self.exec_block(s.body, fr)
            except BreakSig:
                return
            except ContinueSig:
                continue

    def exec_for_invariant(self, s, fr, it, ordinal):
        """Hoare-style treatment of `for <target> in range(..)/enumerate(array)/array` with symbolic trip count."""
        key = (fr.func.qualname, ordinal)
        spec = self.invariants.get(key)
        if spec is None:
            raise EngineError('loop %d of %s (line %d) has a symbolic trip count and no invariant' %
                              (ordinal, fr.func.qualname, s.lineno))
        if s.orelse:
            raise EngineError('for/else with invariant not supported')
        for nd in ast.walk(ast.Module(body=s.body, type_ignores=[])):
            if isinstance(nd, (ast.Break, ast.Return)):
                raise EngineError('break/return inside an invariant loop (line %d)' % s.lineno)
        # iteration space
        if isinstance(it, SymRange):
            if it.step != 1:
                raise EngineError('invariant loops need step 1')
            lo, hi = it.start, it.stop
            item = lambda k: k
        elif isinstance(it, CArr):
            lo, hi = 0, it.shape[0]
            item = lambda k: it[k]
        elif isinstance(it, EnumVal) and isinstance(it.inner, CArr):
            lo, hi = 0, it.inner.shape[0]
            inner, st = it.inner, it.start
            item = lambda k: (T.sadd(k, st), inner[k])
        else:
            raise EngineError('unsupported symbolic iteration')
        exit_k = T.smax2(hi, lo)
        locs = fr.locals
        pre = spec.snapshot(self, locs)
        # 1. establish
        for nm, cond in spec.clauses(self, locs, pre, lo, lo, hi, 'goal'):
            self.oblige('loop%d-establish/%s' % (ordinal, nm), cond)
        # 2. havoc
        mod_names, mod_bufs = self.modified(s, fr)
        spec.havoc(self, locs, mod_names, mod_bufs)
        which = self.choose('loop%d@%d' % (ordinal, s.lineno), 2)
        if which == 0:
            # arbitrary iteration: assume invariant, run body, re-establish
            k = T.fresh('k_loop%d' % ordinal, T.I)
            self.assume(T.sand(T.sle(lo, k), T.slt(k, hi)))
            for nm, cond in spec.clauses(self, locs, pre, k, lo, hi):
                self.assume(cond)
            self.assign(s.target, item(k), fr)
            try:
                self.exec_block(s.body, fr)
            except ContinueSig:
                pass
            for nm, cond in spec.clauses(self, locs, pre, T.sadd(k, 1), lo, hi, 'goal'):
                self.oblige('loop%d-preserve/%s' % (ordinal, nm), cond)
            raise PathEnd('loop-body')
        # exit path
        for nm, cond in spec.clauses(self, locs, pre, exit_k, lo, hi):
            self.assume(cond)
        if self.implied(T.sgt(hi, lo)):
            self.assign(s.target, item(T.ssub(exit_k, 1)), fr)
        else:
            spec.exit_target(self, s.target, fr, lo, hi, item)

    def modified(self, s, fr):
        """Names assigned and buffers stored to inside a loop body (syntactic over-approximation)."""
        names, bufs = set(), []

        def base_name(e):
            while isinstance(e, (ast.Subscript, ast.Attribute)):
                if isinstance(e, ast.Attribute):
                    return e
                e = e.value
            return e

        def note_store(target):
            b = base_name(target)
            try:
                v = self.ev(b, fr)
            except (PyExc, EngineError, KeyError):
                return
            if isinstance(v, CArr):
                if v.buf not in bufs:
                    bufs.append(v.buf)
            elif isinstance(v, BArr):
                raise EngineError('invariant loop stores into a bounded array')

        body = ast.Module(body=s.body, type_ignores=[])
        for nd in ast.walk(body):
            if isinstance(nd, (ast.Assign, ast.AugAssign, ast.For)):
                targets = nd.targets if isinstance(nd, ast.Assign) else [nd.target]
                for t in targets:
                    for e in ast.walk(t):
                        if isinstance(e, ast.Name) and isinstance(e.ctx, ast.Store):
                            names.add(e.id)
                    if isinstance(t, ast.Subscript):
                        note_store(t)
                    if isinstance(nd, ast.AugAssign) and isinstance(t, (ast.Name, ast.Attribute)):
                        note_store(t)
                    if isinstance(t, ast.Attribute):
                        raise EngineError('attribute assignment inside invariant loop not supported')
            if isinstance(nd, ast.Call):
                for kw in nd.keywords:
                    if kw.arg == 'out':
                        note_store(kw.value)
                if isinstance(nd.func, ast.Attribute) and nd.func.attr in ('put', 'sort', 'append', 'fill'):
                    if nd.func.attr == 'put' and nd.args:
                        note_store(nd.args[0])
                    elif nd.func.attr in ('sort', 'fill'):
                        note_store(nd.func.value)
                    elif nd.func.attr == 'append':
                        raise EngineError('list append inside invariant loop not supported')
        return names, bufs

    # ------------------------------------------------------------------------------------------ assignment
    def assign(self, t, v, fr):
        if isinstance(t, ast.Name):
            if t.id in getattr(fr, 'global_names', ()):
                m = fr.func.module
                m.load()
                m.globals[t.id] = v
                m.assigned.add(t.id)
                self.note_module_object(v)
                self.module_state_written = True
                return
            fr.locals[t.id] = v
            return
        if isinstance(t, (ast.Tuple, ast.List)):
            vals = self.unpack(v, len(t.elts))
            for tt, vv in zip(t.elts, vals):
                self.assign(tt, vv, fr)
            return
        if isinstance(t, ast.Attribute):
            obj = self.ev(t.value, fr)
            self.set_attr(obj, t.attr, v)
            return
        if isinstance(t, ast.Subscript):
            base = self.ev(t.value, fr)
            idx = self.ev_index(t.slice, fr)
            self.store(base, idx, v)
            return
        raise EngineError('unsupported assignment target %s' % type(t).__name__)

    def unpack(self, v, n):
        if isinstance(v, (tuple, list)):
            if len(v) != n:
                raise PyExc('ValueError', 'cannot unpack %d values into %d' % (len(v), n))
            return list(v)
        if is_arr(v):
            ln = A.alen(v)
            if not isinstance(ln, int):
                raise EngineError('unpacking array of symbolic length')
            if ln != n:
                raise PyExc('ValueError', 'cannot unpack %d values into %d' % (ln, n))
            return [self.lib.getitem(v, k) for k in range(n)]
        raise PyExc('TypeError', 'cannot unpack non-iterable %s' % type(v).__name__)

    def aug_assign(self, s, fr):
        t = s.target
        rhs = self.ev(s.value, fr)
        if isinstance(t, ast.Name):
            cur = self.lookup(t.id, fr)
            if is_arr(cur):
                self.lib.inplace(cur, None, type(s.op), rhs)
                return
            if isinstance(cur, list) and isinstance(s.op, ast.Add):
                cur.extend(list(rhs))
                return
            fr.locals[t.id] = self.binop(type(s.op), cur, rhs)
            return
        if isinstance(t, ast.Attribute):
            obj = self.ev(t.value, fr)
            cur = self.get_attr(obj, t.attr)
            if is_arr(cur):
                self.lib.inplace(cur, None, type(s.op), rhs)
                # python re-binds the attribute to the same object
                self.set_attr(obj, t.attr, cur)
                return
            self.set_attr(obj, t.attr, self.binop(type(s.op), cur, rhs))
            return
        if isinstance(t, ast.Subscript):
            base = self.ev(t.value, fr)
            idx = self.ev_index(t.slice, fr)
            if is_arr(base):
                self.lib.inplace(base, idx, type(s.op), rhs)
                return
            cur = self.lib.getitem(base, idx)
            self.store(base, idx, self.binop(type(s.op), cur, rhs))
            return
        raise EngineError('unsupported augmented assignment target')

    def store(self, base, idx, v):
        if is_arr(base):
            if self.store_hook:
                self.store_hook(base)
            self.lib.setitem(base, idx, v)
            return
        if isinstance(base, list):
            i = T.concrete_int(idx, 'list index')
            if not -len(base) <= i < len(base):
                raise PyExc('IndexError', 'list assignment index out of range')
            base[i] = v
            return
        if isinstance(base, dict):
            if id(base) in self.module_objs:
                self.module_state_written = True
            found = self.find_key(base, idx)
            base[found if found is not None else self.new_key(idx)] = v
            return
        raise PyExc('TypeError', '%s object does not support item assignment' % type(base).__name__)

    def dict_key(self, k, container=None):
        """The key object under which k is (or would be) stored in `container`."""
        if container is not None:
            found = self.find_key(container, k)
            if found is not None:
                return found
        return self.new_key(k)

    def _raw_key(self, k):
        k = N(k) if T.is_scalar(k) else k
        if isinstance(k, (str, int, bool)) or k is None:
            return True, k
        if T.is_ratnum(k):
            return True, ('q', str(k))
        return False, k

    def new_key(self, k):
        ok, rk = self._raw_key(k)
        if ok:
            return rk
        if is_arr(k) or isinstance(k, (list, dict)):
            raise PyExc('TypeError', 'unhashable type')
        return SymKey(k)

    def key_eq(self, a, b):
        """Python equality of two hashable key values: a python bool or a symbolic Bool."""
        if isinstance(a, SymKey):
            a = a.value
        if isinstance(b, SymKey):
            b = b.value
        if isinstance(a, tuple) and len(a) == 2 and isinstance(a[0], str) and a[0] == 'q' and isinstance(a[1], str):
            a = Q(a[1])
        if isinstance(b, tuple) and len(b) == 2 and isinstance(b[0], str) and b[0] == 'q' and isinstance(b[1], str):
            b = Q(b[1])
        if isinstance(a, (tuple, list)) or isinstance(b, (tuple, list)):
            if not (isinstance(a, tuple) and isinstance(b, tuple)) or len(a) != len(b):
                return False
            return T.sand(*[self.key_eq(x, y) for x, y in zip(a, b)]) if a else True
        if isinstance(a, BytesVal) or isinstance(b, BytesVal):
            if not (isinstance(a, BytesVal) and isinstance(b, BytesVal)):
                return False
            return self.lib.bytes_eq(a, b)
        if isinstance(a, str) or isinstance(b, str) or a is None or b is None:
            return (a == b) if type(a) == type(b) else False
        if isinstance(a, (ObjVal, FuncVal, ClassVal)) or isinstance(b, (ObjVal, FuncVal, ClassVal)):
            return a is b
        if T.is_scalar(a) and T.is_scalar(b):
            return T.seq(a, b)
        raise EngineError('equality of dictionary keys %r / %r not modelled' % (a, b))

    def find_key(self, container, k):
        ok, rk = self._raw_key(k)
        if ok and rk in container:
            return rk
        if is_arr(k) or isinstance(k, (list, dict)):
            raise PyExc('TypeError', 'unhashable type')
        for sk in list(container.keys()):
            if ok and not isinstance(sk, SymKey):
                continue                                    # two plain keys: python equality already decided above
            c = self.key_eq(k, sk)
            if c is True:
                return sk
            if c is False:
                continue
            if self.fork(c, 'dict-key-equal'):
                return sk
        return None

    # ------------------------------------------------------------------------------------------ attributes
    def get_attr(self, obj, name):
        if isinstance(obj, ObjVal):
            if name in obj.attrs:
                return obj.attrs[name]
            c, mem = obj.cls.lookup(name)
            if mem is None:
                if name == '__class__':
                    return obj.cls
                raise PyExc('AttributeError', '%s object has no attribute %s' % (obj.cls.name, name))
            if mem[0] == 'method':
                return BoundMethod(obj, mem[1])
            if mem[0] == 'static':
                return mem[1]
            if mem[0] == 'property':
                if mem[1] is None:
                    raise PyExc('AttributeError', 'unreadable attribute %s' % name)
                return self.call_function(mem[1], [obj], {})
            if mem[0] == 'cached_property':
                # functools.cached_property: computed once, then an instance attribute of the same name
                v = self.call_function(mem[1], [obj], {})
                obj.attrs[name] = v
                return v
            if mem[0] == 'attr':
                return self.eval_in_module(mem[1], c.module)
        if isinstance(obj, SuperVal):
            c, mem = obj.obj.cls.lookup(name, after=obj.after)
            if mem is None:
                raise PyExc('AttributeError', 'super object has no attribute %s' % name)
            if mem[0] == 'method':
                return BoundMethod(obj.obj, mem[1])
            raise EngineError('super() access to non-method')
        if isinstance(obj, RepoModule):
            try:
                return obj.lookup(name)
            except KeyError:
                raise PyExc('AttributeError', 'module %s has no attribute %s' % (obj.name, name))
        if isinstance(obj, ClassVal):
            c, mem = obj.lookup(name)
            if mem is None:
                raise PyExc('AttributeError', 'class %s has no attribute %s' % (obj.name, name))
            if mem[0] in ('method', 'static'):
                return mem[1]
            if mem[0] == 'attr':
                return self.eval_in_module(mem[1], c.module)
            raise EngineError('class level property access')
        if isinstance(obj, LibNS):
            return self.lib.getattr(obj, name)
        return self.lib.value_attr(obj, name)

    def has_attr(self, obj, name):
        if isinstance(obj, ObjVal):
            if name in obj.attrs:
                return True
            c, mem = obj.cls.lookup(name)
            return mem is not None
        try:
            self.get_attr(obj, name)
            return True
        except PyExc as e:
            if e.kind == 'AttributeError':
                return False
            raise

    def set_attr(self, obj, name, v):
        if isinstance(obj, ObjVal):
            c, mem = obj.cls.lookup(name)
            if mem is not None and mem[0] == 'property':
                if mem[2] is None:
                    raise PyExc('AttributeError', "can't set attribute %s" % name)
                self.call_function(mem[2], [obj, v], {})
                return
            obj.attrs[name] = v
            return
        raise EngineError('attribute assignment on %r' % (obj,))

    # ----------------------------------------------------------------------------------------- expressions
    def lookup(self, name, fr):
        if name in fr.locals and name not in getattr(fr, 'global_names', ()):
            return fr.locals[name]
        try:
            return fr.func.module.lookup(name)
        except KeyError:
            pass
        b = self.lib.builtin(name)
        if b is not None:
            return b
        raise PyExc('NameError', 'name %s is not defined' % name)

    def ev_index(self, sl, fr):
        if isinstance(sl, ast.Slice):
            return slice(self.ev(sl.lower, fr) if sl.lower else None,
                         self.ev(sl.upper, fr) if sl.upper else None,
                         self.ev(sl.step, fr) if sl.step else None)
        if isinstance(sl, ast.Tuple):
            return tuple(self.ev_index(e, fr) for e in sl.elts)
        return self.ev(sl, fr)

    def ev(self, e, fr):
        if isinstance(e, ast.Constant):
            v = e.value
            if isinstance(v, float):
                return T.from_float(v)
            if isinstance(v, complex):
                return T.Cx(T.from_float(v.real), T.from_float(v.imag))
            if v is Ellipsis:
                return Ellipsis
            return v
        if isinstance(e, ast.Name):
            return self.lookup(e.id, fr)
        if isinstance(e, ast.Tuple):
            return tuple(self.ev(x, fr) for x in e.elts)
        if isinstance(e, ast.List):
            return [self.ev(x, fr) for x in e.elts]
        if isinstance(e, ast.Dict):
            return {self.new_key(self.ev(k, fr)): self.ev(v, fr) for k, v in zip(e.keys, e.values)}
        if isinstance(e, ast.Attribute):
            return self.get_attr(self.ev(e.value, fr), e.attr)
        if isinstance(e, ast.UnaryOp):
            v = self.ev(e.operand, fr)
            return self.unop(type(e.op), v)
        if isinstance(e, ast.BinOp):
            a = self.ev(e.left, fr)
            b = self.ev(e.right, fr)
            return self.binop(type(e.op), a, b)
        if isinstance(e, ast.BoolOp):
            return self.boolop(e, fr)
        if isinstance(e, ast.Compare):
            return self.compare(e, fr)
        if isinstance(e, ast.IfExp):
            c = self.truth(self.ev(e.test, fr))
            if isinstance(c, bool):
                return self.ev(e.body if c else e.orelse, fr)
            if self.fork(c, 'ifexp@%d' % e.lineno):
                return self.ev(e.body, fr)
            return self.ev(e.orelse, fr)
        if isinstance(e, ast.Call):
            return self.ev_call(e, fr)
        if isinstance(e, ast.Subscript):
            base = self.ev(e.value, fr)
            idx = self.ev_index(e.slice, fr)
            return self.lib.getitem(base, idx)
        if isinstance(e, ast.ListComp):
            return self.listcomp(e, fr)
        if isinstance(e, ast.JoinedStr):
            raise EngineError('f-strings not supported')
        if isinstance(e, ast.Starred):
            raise EngineError('starred expression')
        if isinstance(e, ast.Lambda):
            raise EngineError('lambda not supported')
        raise EngineError('unsupported expression %s at line %d' % (type(e).__name__, getattr(e, 'lineno', 0)))

    def listcomp(self, e, fr):
        if len(e.generators) != 1:
            raise EngineError('nested comprehension')
        g = e.generators[0]
        items = self.iter_items(self.ev(g.iter, fr))
        if items is None:
            raise EngineError('comprehension over symbolic range')
        out = []
        sub = Frame(fr.func, dict(fr.locals))
        for it in items:
            self.assign(g.target, it, sub)
            ok = True
            for cnd in g.ifs:
                if not self.fork(self.truth(self.ev(cnd, sub)), 'comp-if'):
                    ok = False
                    break
            if ok:
                out.append(self.ev(e.elt, sub))
        return out

    def ev_call(self, e, fr):
        # super() special form
        if isinstance(e.func, ast.Name) and e.func.id == 'super':
            self_obj = fr.locals.get(fr.func.node.args.args[0].arg)
            return SuperVal(self_obj, fr.func.cls)
        f = self.ev(e.func, fr)
        args = []
        for a in e.args:
            if isinstance(a, ast.Starred):
                args.extend(self.iter_items(self.ev(a.value, fr)))
            else:
                args.append(self.ev(a, fr))
        kwargs = {}
        for k in e.keywords:
            if k.arg is None:
                kwargs.update(self.ev(k.value, fr))
            else:
                kwargs[k.arg] = self.ev(k.value, fr)
        return self.call(f, args, kwargs, e)

    def boolop(self, e, fr):
        is_and = isinstance(e.op, ast.And)
        val = None
        for k, sub in enumerate(e.values):
            val = self.ev(sub, fr)
            if k == len(e.values) - 1:
                return val
            c = self.truth(val)
            if isinstance(c, bool):
                if is_and and not c:
                    return val
                if not is_and and c:
                    return val
                continue
            # symbolic operand: fork (python short-circuit semantics)
            d = self.fork(c, 'boolop@%d' % e.lineno)
            # python returns the OPERAND that decided the result (`n or npts` is n when n is truthy), not a boolean
            if is_and and not d:
                return False if T.is_bool_like(N(val) if T.is_scalar(val) else val) else val
            if not is_and and d:
                return True if T.is_bool_like(N(val) if T.is_scalar(val) else val) else val
        return val

    def compare(self, e, fr):
        left = self.ev(e.left, fr)
        result = True
        for op, rexp in zip(e.ops, e.comparators):
            right = self.ev(rexp, fr)
            r = self.cmp1(type(op), left, right)
            left = right
            if len(e.ops) == 1:
                return r
            if is_arr(r):
                raise EngineError('chained comparison on arrays')
            result = T.sand(result, r)
            if result is False:
                return False
        return result

    def cmp1(self, op, a, b):
        if op in (ast.Is, ast.IsNot):
            if a is None or b is None:
                r = a is b
            elif isinstance(a, bool) and isinstance(b, bool):
                r = a == b
            elif T.is_scalar(a) and T.is_scalar(b):
                # `x is False` style tests on non-bool scalars are False; identity of numbers is not modelled
                if isinstance(a, bool) or isinstance(b, bool):
                    r = False
                else:
                    raise EngineError('identity comparison of numbers')
            else:
                r = a is b
            return r if op is ast.Is else not r
        if op in (ast.In, ast.NotIn):
            r = self.contains(b, a)
            return r if op is ast.In else T.snot(r)
        return self.lib.compare(op, a, b)

    def contains(self, container, x):
        if isinstance(container, dict):
            return self.find_key(container, x) is not None
        if isinstance(container, (list, tuple)):
            out = False
            for el in container:
                if is_arr(el) or is_arr(x):
                    raise EngineError('array membership test')
                if isinstance(el, (ObjVal,)) or isinstance(x, ObjVal):
                    out = T.sor(out, el is x)
                else:
                    out = T.sor(out, T.seq(el, x))
            return out
        if isinstance(container, str):
            if not isinstance(x, str):
                raise PyExc('TypeError', 'in <string> requires string')
            return x in container
        if isinstance(container, BArr) and container.a.ndim == 1:
            out = False
            for el in container.a.tolist():
                out = T.sor(out, T.seq(el, x))
            return out
        raise EngineError('membership test on %r' % (container,))

    def unop(self, op, v):
        if op is ast.Not:
            return T.snot(self.truth(v))
        return self.lib.unop(op, v)

    def binop(self, op, a, b):
        return self.lib.binop(op, a, b)

"""Operators, indexing, builtins and library namespaces for the pyvc interpreter."""
import ast
import importlib

import numpy as np
import z3

from . import terms as T
from . import arrays as A
from .terms import EngineError, PyExc, N, ctx, Q
from .arrays import BArr, CArr, is_arr, emap

_REAL_MODULES = {}


def real_module(path):
    if path not in _REAL_MODULES:
        try:
            _REAL_MODULES[path] = importlib.import_module(path)
        except ImportError:
            _REAL_MODULES[path] = None
    return _REAL_MODULES[path]


class DTypeVal:
    def __init__(self, name):
        self.name = name


def dtype_name(d, default=None):
    from .interp import TypeVal
    if d is None:
        return default
    if isinstance(d, TypeVal):
        return {'float': 'float', 'int': 'int', 'complex': 'complex', 'bool': 'bool', 'object': 'object'}[d.name]
    if isinstance(d, DTypeVal):
        return d.name
    if isinstance(d, str):
        return {'float': 'float', 'float64': 'float', 'int': 'int', 'int64': 'int', 'complex': 'complex', 'bool': 'bool'}[d]
    raise EngineError('unsupported dtype %r' % (d,))


def arr_dtype(x):
    if is_arr(x):
        return x.dtype
    return T.dtype_of_scalar(x)


class Lib:
    def __init__(self):
        from . import np_models
        self.interp = None
        self.table = {}
        _ITP.clear()
        _ITP.append(None)
        self.exc_bases = {'SignalProcessingError': 'Exception', 'SignalProcessingWarning': 'Warning'}
        np_models.register(self)

    # --------------------------------------------------------------------------------------- namespaces
    def namespace(self, name):
        from .interp import LibNS
        root = name.split('.')[0]
        if root not in ('numpy', 'scipy', 'collections', 'warnings', 'math'):
            raise EngineError('import of unmodelled module %s' % name)
        return LibNS(name, self)

    def getattr(self, ns, name):
        from .interp import LibNS
        path = ns.path + '.' + name
        if path == 'numpy.ndarray':
            from .interp import TypeVal
            return TypeVal('ndarray')
        if path in self.table:
            return self.table[path]
        mod = real_module(ns.path)
        if mod is not None:
            if not hasattr(mod, name):
                raise PyExc('AttributeError', 'module %s has no attribute %s' % (ns.path, name))
            sub = getattr(mod, name)
            import types
            if isinstance(sub, types.ModuleType):
                return LibNS(path, self)
        else:
            # attribute of a non-module object (e.g. numpy.maximum.accumulate)
            parent_path, _, attr = ns.path.rpartition('.')
            pm = real_module(parent_path)
            if pm is None or not hasattr(getattr(pm, attr, None), name):
                raise PyExc('AttributeError', '%s has no attribute %s' % (ns.path, name))
        if real_module(path) is not None:
            return LibNS(path, self)
        # exists in the real library but has no model
        return _Unmodelled(path)

    def builtin(self, name):
        from .interp import TypeVal, ExcClass, BUILTIN_EXC
        if name in ('float', 'int', 'complex', 'bool', 'str', 'list', 'tuple', 'dict', 'object'):
            return TypeVal(name)
        if name in BUILTIN_EXC:
            return ExcClass(name)
        if name == 'NotImplemented':
            return _NotImplementedVal()
        f = self.table.get('builtins.' + name)
        return f

    # ------------------------------------------------------------------------------------------ casting
    def convert(self, tname, args, kwargs):
        if tname == 'float':
            (x,) = args
            from . import text as TX
            if isinstance(x, TX.SymStr):
                return TX.parse_float(self.interp, x)
            if isinstance(x, str):
                return parse_float(x)
            if is_arr(x):
                x = self.scalar_of(x)
            if isinstance(x, T.Cx):
                raise PyExc('TypeError', "can't convert complex to float")
            return T.to_real(x)
        if tname == 'int':
            (x,) = args
            if isinstance(x, str):
                try:
                    return int(x)
                except ValueError:
                    raise PyExc('ValueError', 'invalid literal for int(): %r' % x)
            if is_arr(x):
                x = self.scalar_of(x)
            return T.strunc(x)
        if tname == 'bool':
            return self.interp.truth(args[0])
        if tname == 'complex':
            return T.as_cx(args[0])
        if tname == 'list':
            if not args:
                return []
            items = self.interp.iter_items(args[0])
            if items is None:
                raise EngineError('list() of symbolic-length iterable')
            return list(items)
        if tname == 'tuple':
            if not args:
                return ()
            items = self.interp.iter_items(args[0])
            if items is None:
                raise EngineError('tuple() of symbolic-length iterable')
            return tuple(items)
        if tname == 'dict':
            return dict(*args, **kwargs)
        if tname == 'str':
            (x,) = args
            if isinstance(x, (str, int)):
                return str(x)
            raise EngineError('str() of symbolic value')
        raise EngineError('conversion %s' % tname)

    def scalar_of(self, x):
        if isinstance(x, BArr) and x.a.size == 1:
            return N(x.a.reshape(-1)[0])
        if isinstance(x, CArr) and all(isinstance(s, int) and s == 1 for s in x.shape):
            return x.at(*([0] * len(x.shape)))
        raise PyExc('TypeError', 'only length-1 arrays can be converted to Python scalars')

    # ----------------------------------------------------------------------------------------- operators
    BIN = {
        ast.Add: T.sadd, ast.Sub: T.ssub, ast.Mult: T.smul, ast.Div: T.sdiv, ast.Pow: T.spow, ast.Mod: T.smod,
        ast.FloorDiv: T.sfloordiv,
    }

    def binop(self, op, a, b):
        from .interp import TypeVal
        _ITP[0] = self.interp
        if op in (ast.BitAnd, ast.BitOr):
            f = T.sand if op is ast.BitAnd else T.sor
            if is_arr(a) or is_arr(b):
                return emap(f, 'bool', a, b)
            if T.is_bool_like(N(a)) and T.is_bool_like(N(b)):
                return f(a, b)
            raise EngineError('bitwise op on non-bool')
        from . import text as TX
        if isinstance(a, TX.SymStr) or isinstance(b, TX.SymStr):
            if op is ast.Add:
                return TX.concat(a, b)
            raise EngineError('operator on symbolic string')
        if isinstance(a, str) or isinstance(b, str):
            if op is ast.Add and isinstance(a, str) and isinstance(b, str):
                return a + b
            if op is ast.Mod and isinstance(a, str):
                return str_format(a, b)
            if op is ast.Mult:
                return a * b
            raise PyExc('TypeError', 'unsupported operand types for string op')
        if isinstance(a, (list, tuple)) or isinstance(b, (list, tuple)):
            if is_arr(a) or is_arr(b):
                other = a if is_arr(a) else b
                conv = self.table['numpy.array']
                if is_arr(a):
                    b = conv(b)
                else:
                    a = conv(a)
            elif op is ast.Add and type(a) is type(b):
                return a + b
            elif op is ast.Mult:
                seq_, k = (a, b) if isinstance(a, (list, tuple)) else (b, a)
                return seq_ * T.concrete_int(k, 'sequence repeat count')
            else:
                # list <op> scalar: python raises TypeError (this is how `periods < dt * 6` fails for lists)
                raise PyExc('TypeError', 'unsupported operand type(s): %s and %s' % (type(a).__name__, type(b).__name__))
        if a is None or b is None:
            raise PyExc('TypeError', 'unsupported operand type(s) with NoneType')
        f = self.BIN.get(op)
        if f is None:
            raise EngineError('operator %s not supported' % op.__name__)
        if is_arr(a) or is_arr(b):
            da, db = arr_dtype(a), arr_dtype(b)
            dt = T.promote(da, db)
            if op is ast.Div and dt in ('int', 'bool'):
                dt = 'float'
            if op is ast.Pow and dt == 'int' and not is_arr(b) and T.is_ratnum(N(b)):
                dt = 'float'
            if dt == 'bool' and op in (ast.Add, ast.Mult, ast.Sub):
                if op is ast.Mult:
                    return emap(T.sand, 'bool', a, b)          # bool * bool == logical and (numpy)
                if op is ast.Add:
                    return emap(T.sor, 'bool', a, b)
                raise PyExc('TypeError', 'numpy boolean subtract')
            return emap(lambda x, y: T.cast_scalar(f(x, y), dt), dt, a, b)
        return f(a, b)

    def unop(self, op, v):
        if op is ast.USub:
            if is_arr(v):
                return emap(T.sneg, v.dtype, v)
            if isinstance(v, (list, tuple, str)) or v is None:
                raise PyExc('TypeError', 'bad operand type for unary -')
            return T.sneg(v)
        if op is ast.UAdd:
            return v
        if op is ast.Invert:
            if is_arr(v) and v.dtype == 'bool':
                return emap(T.snot, 'bool', v)
            if T.is_bool_like(N(v)):
                return T.snot(v)
            raise EngineError('bitwise invert on non-bool')
        raise EngineError('unary operator')

    CMP = {ast.Lt: T.slt, ast.LtE: T.sle, ast.Gt: T.sgt, ast.GtE: T.sge, ast.Eq: T.seq, ast.NotEq: T.sne}

    def compare(self, op, a, b):
        f = self.CMP.get(op)
        if f is None:
            raise EngineError('comparison operator')
        if is_arr(a) or is_arr(b):
            for x in (a, b):
                if isinstance(x, (list, tuple)):
                    raise EngineError('array/list comparison')
            if a is None or b is None:
                if op in (ast.Eq, ast.NotEq):
                    raise EngineError('array == None')
                raise PyExc('TypeError', 'ordering comparison with None')
            return emap(f, 'bool', a, b)
        if isinstance(a, (list, tuple)) or isinstance(b, (list, tuple)):
            if op in (ast.Eq, ast.NotEq) and isinstance(a, (list, tuple)) and isinstance(b, (list, tuple)):
                if len(a) != len(b):
                    r = False
                else:
                    r = T.sand(*[self.compare(ast.Eq, x, y) for x, y in zip(a, b)]) if a else True
                return r if op is ast.Eq else T.snot(r)
            if op in (ast.Eq, ast.NotEq):
                return op is ast.NotEq
            raise PyExc('TypeError', 'ordering comparison between %s and %s' % (type(a).__name__, type(b).__name__))
        from .interp import ObjVal, ClassVal, FuncVal
        if isinstance(a, (ObjVal, ClassVal, FuncVal, dict)) or isinstance(b, (ObjVal, ClassVal, FuncVal, dict)):
            if op in (ast.Eq, ast.NotEq):
                r = a is b
                return r if op is ast.Eq else not r
            raise PyExc('TypeError', 'ordering comparison of objects')
        return f(a, b)

    # ------------------------------------------------------------------------------------------ indexing
    def check_index(self, i, n, what='index'):
        """Bounds-check scalar index i against length n; returns the normalised (non-negative) index."""
        i, n = N(i), N(n)
        if isinstance(i, bool):
            i = int(i)
        if T.is_real_like(i):
            raise PyExc('IndexError', 'only integers are valid indices (got a float)')
        if isinstance(i, int) and isinstance(n, int):
            if not -n <= i < n:
                raise PyExc('IndexError', '%s %d out of bounds for size %d' % (what, i, n))
            return i + n if i < 0 else i
        itp = self.interp
        if isinstance(i, int):
            cond = T.slt(i, n) if i >= 0 else T.sle(-i, n)
            if not itp.fork(cond, 'inb'):
                raise PyExc('IndexError', '%s out of bounds' % what)
            return i if i >= 0 else T.sadd(n, i)
        cond = T.sand(T.sle(T.sneg(n), i), T.slt(i, n))
        if not itp.fork(cond, 'inb'):
            raise PyExc('IndexError', '%s out of bounds' % what)
        if itp.implied(T.sge(i, 0)):
            return i
        return T.site(T.slt(i, 0), T.sadd(i, n), i)

    def getitem(self, base, idx):
        from .interp import ObjVal
        if isinstance(base, (list, tuple)):
            if isinstance(idx, slice):
                return base[slice(*[None if x is None else T.concrete_int(x, 'slice bound') for x in
                                    (idx.start, idx.stop, idx.step)])]
            i = N(idx)
            if isinstance(i, bool):
                i = int(i)
            if isinstance(i, int):
                if not -len(base) <= i < len(base):
                    raise PyExc('IndexError', 'list index out of range')
                return base[i]
            if T.is_int_like(i):
                j = self.check_index(i, len(base))
                out = base[-1]
                for k in range(len(base) - 2, -1, -1):
                    out = select(T.seq(j, k), base[k], out)
                return out
            raise PyExc('TypeError', 'list indices must be integers')
        if isinstance(base, dict):
            k = self.interp.find_key(base, idx)
            if k is None:
                raise PyExc('KeyError', repr(idx))
            return base[k]
        from . import text as TX
        if isinstance(base, TX.SymStr):
            if isinstance(idx, slice) and idx.stop is None and idx.step is None:
                return TX.drop_first(self.interp, base, T.concrete_int(idx.start or 0, 'slice start'))
            raise EngineError('unsupported subscript on a symbolic string')
        if isinstance(base, str):
            if isinstance(idx, slice):
                return base[slice(*[None if x is None else T.concrete_int(x, 'slice bound') for x in
                                    (idx.start, idx.stop, idx.step)])]
            i = T.concrete_int(idx, 'string index')
            if not -len(base) <= i < len(base):
                raise PyExc('IndexError', 'string index out of range')
            return base[i]
        if is_arr(base):
            return self.arr_getitem(base, idx)
        if isinstance(base, DTypeVal):
            raise EngineError('dtype indexing')
        if T.is_scalar(base):
            raise PyExc('TypeError', 'scalar is not subscriptable')
        raise EngineError('subscript on %r' % (base,))

    def _norm_idx_tuple(self, base, idx):
        if not isinstance(idx, tuple):
            idx = (idx,)
        # a tuple holding a single index array (np.where result) is fancy indexing with that array
        return idx

    def arr_getitem(self, base, idx):
        idx = self._norm_idx_tuple(base, idx)
        shape = base.shape
        # fancy indexing?
        from .interp import SymRange
        if any(isinstance(it, SymRange) or isinstance(it, range) for it in idx):
            # indexing with range(k): the same elements as the slice [start:stop:step] (a copy in numpy; a view here is
            # equivalent for reads, and eqsig never stores through such a result)
            ax_ = 0
            for it in idx:
                if isinstance(it, (SymRange, range)):
                    if it.step != 1:
                        raise EngineError('range index with step')
                    ok = T.sand(T.sle(0, it.start), T.sor(T.sle(it.stop, it.start), T.sle(it.stop, base.shape[ax_])))
                    if ok is False:
                        raise PyExc('IndexError', 'range index out of bounds')
                    if ok is not True:
                        self.interp.oblige('range-index-in-bounds', ok)
                if it is not None:
                    ax_ += 1
            idx = tuple(slice(it.start, it.stop, it.step) if isinstance(it, (SymRange, range)) else it for it in idx)
            r = self.arr_getitem(base, idx)
            return self.table['numpy.array'](r) if is_arr(r) else r
        fancy = [k for k, it in enumerate(idx) if is_arr(it) or isinstance(it, list)]
        if fancy:
            return self.fancy_get(base, idx, fancy)
        # scalar bounds checks
        out_idx = []
        ax = 0
        nreal = sum(1 for it in idx if it is not None and it is not Ellipsis)
        if nreal > len(shape):
            raise PyExc('IndexError', 'too many indices for array: array is %d-dimensional, but %d were indexed' % (len(shape), nreal))
        for it in idx:
            if it is None:
                out_idx.append(None)
                continue
            if it is Ellipsis:
                out_idx.append(Ellipsis)
                ax += len(shape) - nreal
                continue
            if isinstance(it, slice):
                out_idx.append(slice(N(it.start), N(it.stop), N(it.step)))
                for b in (it.start, it.stop, it.step):
                    if b is not None and T.is_real_like(N(b)):
                        raise PyExc('TypeError', 'slice indices must be integers')
            else:
                out_idx.append(self.check_index(it, shape[ax]))
            ax += 1
        if isinstance(base, BArr):
            if all(not T.is_z3(i) and not (isinstance(i, slice) and any(T.is_z3(b) for b in (i.start, i.stop, i.step)))
                   for i in out_idx if i is not None and i is not Ellipsis):
                r = base.a[tuple(out_idx)]
                return BArr(r, base.dtype, base.origin) if isinstance(r, np.ndarray) else N(r)
            if len(out_idx) == base.a.ndim and all(T.is_scalar(i) and i is not None for i in out_idx):
                return base.at(*out_idx)
            # symbolic slice bound / mixed symbolic index on a bounded array: go through the closure form
            return A.view_index(A.to_carr(base), tuple(out_idx))
        return A.view_index(base, tuple(out_idx))

    def fancy_get(self, base, idx, fancy):
        if len(fancy) != 1:
            raise EngineError('multi-array fancy indexing')
        k = fancy[0]
        sel = idx[k]
        if isinstance(sel, (list, range)):
            sel = self.table['numpy.array'](list(sel))
        pre = idx[:k]
        post = idx[k + 1:]
        if any(not (isinstance(p, slice) and p == slice(None)) for p in pre + post):
            raise EngineError('fancy indexing mixed with other indices')
        if k != 0:
            raise EngineError('fancy indexing on non-leading axis')
        n0 = base.shape[0]
        if sel.dtype == 'bool':
            if isinstance(sel, BArr) and isinstance(base, BArr):
                keep = [j for j in range(sel.a.shape[0]) if self.interp.fork(sel.a[j], 'mask')]
                return BArr(base.a[keep], base.dtype)
            w = self.table['numpy.where'](sel)[0]
            return self.fancy_get(base, (w,), [0])
        if sel.dtype != 'int':
            raise PyExc('IndexError', 'arrays used as indices must be of integer (or boolean) type')
        if isinstance(sel, BArr) and isinstance(base, BArr):
            flat = sel.a.reshape(-1).tolist()
            if all(isinstance(N(j), int) for j in flat):
                try:
                    r = base.a[sel.a.astype(int)]
                except IndexError as e:
                    raise PyExc('IndexError', str(e))
                return BArr(r, base.dtype)
            out = np.empty(sel.a.shape + base.a.shape[1:], dtype=object)
            for ix in np.ndindex(*sel.a.shape):
                j = self.check_index(sel.a[ix], n0)
                if base.a.ndim == 1:
                    out[ix] = base.at(j)
                else:
                    for rest in np.ndindex(*base.a.shape[1:]):
                        out[ix + rest] = base.at(j, *rest)
            return BArr(out, base.dtype)
        # closure form
        cb = A.to_carr(base)
        cs = A.to_carr(sel)
        rb, rs = cb.reader(), cs.reader()
        ns = len(cs.shape)
        # safety: every index in range
        ks = [T.fresh('kf', T.I) for _ in range(ns)]
        rng = T.sand(*[T.sand(T.sle(0, kk), T.slt(kk, d)) for kk, d in zip(ks, cs.shape)])
        jv = rs(*ks)
        self.interp.oblige('fancy-index-in-bounds', T.simplies(rng, T.sand(T.sle(T.sneg(n0), jv), T.slt(jv, n0))))

        def get(*i):
            j = rs(*i[:ns])
            j = T.site(T.slt(j, 0), T.sadd(j, n0), j) if not isinstance(j, int) else (j if j >= 0 else T.sadd(n0, j))
            return rb(j, *i[ns:])
        return CArr.from_fn(get, tuple(cs.shape) + tuple(cb.shape[1:]), cb.dtype)

    def as_value_reader(self, v, shape):
        """Reader for a right-hand side broadcast against `shape`."""
        if is_arr(v):
            cv = A.to_carr(v)
            rd = cv.reader()
            vs = cv.shape
            nd = len(shape)
            if len(vs) > nd:
                # allow leading singleton dims
                raise PyExc('ValueError', 'could not broadcast input array')
            for j in range(len(vs)):
                d, t = vs[j], shape[nd - len(vs) + j]
                if isinstance(d, int) and d == 1:
                    continue
                sd = A.same_dim(d, t)
                if sd is False:
                    raise PyExc('ValueError', 'could not broadcast input array from shape %s into shape %s' % (vs, shape))
                if sd is None:
                    self.interp.oblige('store-shape-match', T.seq(d, t))

            def r(*idx):
                sub = [0 if (isinstance(vs[j], int) and vs[j] == 1) else idx[nd - len(vs) + j] for j in range(len(vs))]
                return rd(*sub)
            return r
        if isinstance(v, (list, tuple)):
            return self.as_value_reader(self.table['numpy.array'](list(v)), shape)
        return lambda *idx: v

    def setitem(self, base, idx, v):
        idx = self._norm_idx_tuple(base, idx)
        if isinstance(base, BArr):
            simple = all((it is None or it is Ellipsis or isinstance(it, int) or
                          (isinstance(it, slice) and all(b is None or isinstance(N(b), int) for b in (it.start, it.stop, it.step))))
                         for it in (N(i) if T.is_scalar(i) else i for i in idx))
            if simple and not isinstance(v, CArr):
                key = tuple(N(i) if T.is_scalar(i) else (slice(N(i.start), N(i.stop), N(i.step)) if isinstance(i, slice) else i)
                            for i in idx)
                try:
                    target = base.a[key]
                except IndexError as e:
                    raise PyExc('IndexError', str(e))
                if isinstance(target, np.ndarray):
                    src = v
                    if isinstance(v, (list, tuple)):
                        src = self.table['numpy.array'](list(v))
                    if isinstance(src, BArr):
                        try:
                            bc = np.broadcast_to(src.a, target.shape)
                        except ValueError as e:
                            raise PyExc('ValueError', 'could not broadcast input array from shape %s into shape %s' % (src.a.shape, target.shape))
                        if src.dtype == 'complex' and base.dtype != 'complex':
                            raise PyExc('TypeError', 'cannot cast complex to %s' % base.dtype)
                        vals = bc.copy()
                        for ix in np.ndindex(*target.shape):
                            target[ix] = T.cast_scalar(vals[ix], base.dtype)
                    else:
                        cv = T.cast_scalar(src, base.dtype)
                        for ix in np.ndindex(*target.shape):
                            target[ix] = cv
                else:
                    if is_arr(v):
                        v = self.scalar_of(v)
                    base.a[key] = T.cast_scalar(v, base.dtype)
                return
            # fancy / symbolic stores on bounded arrays
            if len(idx) == 1 and is_arr(idx[0]) and idx[0].dtype == 'int':
                self.table['numpy.put'](base, idx[0], v)
                return
            if len(idx) == base.a.ndim and all(T.is_scalar(i) and i is not None for i in idx):
                # symbolic scalar index: conditional update of every cell
                nidx = [self.check_index(i, n) for i, n in zip(idx, base.a.shape)]
                val = T.cast_scalar(self.scalar_of(v) if is_arr(v) else v, base.dtype)
                for ix in np.ndindex(*base.a.shape):
                    c = T.sand(*[T.seq(a_, b_) for a_, b_ in zip(nidx, ix)])
                    base.a[ix] = select(c, val, base.a[ix])
                return
            raise EngineError('unsupported store pattern on bounded array: %r' % (idx,))
        # closure arrays
        fancy = [k for k, it in enumerate(idx) if is_arr(it)]
        if fancy:
            if len(idx) == 1 and idx[0].dtype == 'int':
                self.table['numpy.put'](base, idx[0], v)
                return
            raise EngineError('fancy store')
        out_idx = []
        ax = 0
        if any(it is Ellipsis for it in idx):
            if sum(1 for it in idx if it is Ellipsis) > 1:
                raise PyExc('IndexError', "an index can only have a single ellipsis ('...')")
            k = [j for j, it in enumerate(idx) if it is Ellipsis][0]
            fill = len(base.shape) - sum(1 for it in idx if it is not Ellipsis and it is not None)
            if fill < 0:
                raise PyExc('IndexError', 'too many indices for array')
            idx = tuple(idx[:k]) + (slice(None, None, None),) * fill + tuple(idx[k + 1:])
        for it in idx:
            if it is None or it is Ellipsis:
                raise EngineError('newaxis in store')
            if isinstance(it, slice):
                out_idx.append(slice(N(it.start), N(it.stop), N(it.step)))
            else:
                out_idx.append(self.check_index(it, base.shape[ax]))
            ax += 1
        view = A.view_index(base, tuple(out_idx)) if not (len(out_idx) == len(base.shape) and all(not isinstance(i, slice) for i in out_idx)) \
            else CArr(base.buf, (), self._fix_axes(base, out_idx))
        if view.buf.origin == 'param' and self.interp.store_hook:
            self.interp.store_hook(view)
        if view.dtype != 'complex' and (isinstance(v, T.Cx) or (is_arr(v) and v.dtype == 'complex')):
            raise PyExc('TypeError', 'cannot cast complex to %s' % view.dtype)
        rd = self.as_value_reader(v, view.shape)
        view.store(None, rd)

    def _fix_axes(self, base, out_idx):
        axes = []
        for ax in base.axes:
            if ax[0] == 'fix':
                axes.append(ax)
            else:
                _, va, off, step = ax
                i = out_idx[va]
                axes.append(('fix', T.sadd(off, T.smul(step, i)) if step != 1 else T.sadd(off, i)))
        return axes

    def inplace(self, arr, idx, op, rhs):
        """arr[idx] <op>= rhs  (idx None: whole array).  Result is cast back to the array's dtype (numpy semantics)."""
        target = arr if idx is None else self.arr_getitem(arr, idx)
        if not is_arr(target):
            # scalar element
            newv = self.binop(op, target, rhs)
            self.setitem(arr, idx, newv)
            return
        rdt = T.promote(arr_dtype(target), arr_dtype(rhs) if not isinstance(rhs, (list, tuple)) else 'float')
        if op is ast.Div and target.dtype in ('int', 'bool'):
            raise PyExc('UFuncTypeError', 'cannot cast ufunc divide output from float to int')
        if _RANKS[rdt] > _RANKS[target.dtype] and target.dtype != 'object':
            raise PyExc('UFuncTypeError', "cannot cast ufunc output from dtype %s to %s with casting rule 'same_kind'" % (rdt, target.dtype))
        snap = target.snapshot() if isinstance(target, CArr) else target.copy()
        res = self.binop(op, snap, rhs)
        if isinstance(target, BArr):
            if isinstance(res, CArr):
                res = A.concretize(res)
            if res.a.shape != target.a.shape:
                raise PyExc('ValueError', 'non-broadcastable output operand')
            for ix in np.ndindex(*target.a.shape):
                target.a[ix] = T.cast_scalar(res.a[ix], target.dtype)
            return
        if self.interp.store_hook:
            self.interp.store_hook(target)
        rd = self.as_value_reader(res, target.shape)
        target.store(None, rd)

    # --------------------------------------------------------------------------------- attributes of values
    def value_attr(self, obj, name):
        from .interp import ExcVal
        from . import text as TX
        if isinstance(obj, TX.SymStr):
            if name == 'split':
                return lambda sep=None: TX.split_on(obj, sep)
            if name == 'splitlines':
                return lambda: TX.splitlines(obj)
            if name == 'strip':
                def strip_(chars=None):
                    if chars is not None:
                        return TX.strip_chars(obj, chars)
                    return TX.strip(obj)
                return strip_
            if name in ('rstrip', 'lstrip'):
                def rstrip_(chars=None):
                    if chars is None:
                        raise EngineError('str.%s() without a character set on a symbolic string' % name)
                    return TX.strip_chars(obj, chars, left=name == 'lstrip', right=name == 'rstrip')
                return rstrip_
            raise EngineError('str.%s on a symbolic string' % name)
        if isinstance(obj, TX.FileObj):
            return getattr(obj, name)
        if isinstance(obj, str) and name == 'join':
            def join_(items):
                items = self.interp.iter_items(items)
                if any(isinstance(i, TX.SymStr) for i in items):
                    return TX.join(obj, items)
                return obj.join(items)
            return join_
        if is_arr(obj):
            return self.arr_attr(obj, name)
        if isinstance(obj, (list, dict, str, tuple)):
            if isinstance(obj, str) and name in ('split', 'join', 'splitlines', 'strip', 'rstrip', 'lstrip', 'format', 'replace', 'startswith', 'endswith', 'lower', 'upper'):
                return _str_method(obj, name)
            if hasattr(obj, name):
                if isinstance(obj, dict):
                    return self.dict_method(obj, name)
                return getattr(obj, name)
            raise PyExc('AttributeError', '%s object has no attribute %s' % (type(obj).__name__, name))
        if isinstance(obj, ExcVal):
            if name == 'args':
                return obj.args
        if isinstance(obj, DTypeVal):
            if name == 'names':
                return getattr(obj, 'names', None)
            if name == 'name':
                return obj.name
        if T.is_scalar(obj):
            x = N(obj)
            if name == 'real':
                return x.re if isinstance(x, T.Cx) else x
            if name == 'imag':
                return x.im if isinstance(x, T.Cx) else 0
            if name == 'conjugate' or name == 'conj':
                return lambda: (x.conj() if isinstance(x, T.Cx) else x)
            if name == '__len__':
                raise PyExc('AttributeError', 'scalar has no attribute __len__')
            raise PyExc('AttributeError', 'scalar has no attribute %s' % name)
        if isinstance(obj, _FileVal):
            return getattr(obj, name)
        raise PyExc('AttributeError', '%r has no attribute %s' % (obj, name))

    def dict_method(self, obj, name):
        itp = self.interp
        hidden = id(obj) in itp.module_objs

        def touch():
            if hidden:
                itp.module_state_written = True
        if name == 'get':
            def get_(k, d=None):
                f = itp.find_key(obj, k)
                return obj[f] if f is not None else d
            return get_
        if name == 'pop':
            def pop_(k, *d):
                touch()
                f = itp.find_key(obj, k)
                if f is not None:
                    return obj.pop(f)
                if d:
                    return d[0]
                raise PyExc('KeyError', repr(k))
            return pop_
        if name == 'setdefault':
            def setdefault_(k, d=None):
                f = itp.find_key(obj, k)
                if f is not None:
                    return obj[f]
                touch()
                obj[itp.new_key(k)] = d
                return d
            return setdefault_
        if name == 'update':
            def update_(other=(), **kw):
                touch()
                items = list(other.items()) if isinstance(other, dict) else list(other)
                for k, v in items + list(kw.items()):
                    kk = k.value if hasattr(k, 'value') and type(k).__name__ == 'SymKey' else k
                    itp.store(obj, kk, v)
            return update_
        if name in ('clear', 'popitem'):
            def mut_(*a):
                touch()
                return getattr(obj, name)(*a)
            return mut_
        if name in ('keys', 'values', 'items', 'copy'):
            if name == 'keys' and any(type(k).__name__ == 'SymKey' for k in obj):
                return lambda: [k.value if type(k).__name__ == 'SymKey' else k for k in obj]
            if name == 'items' and any(type(k).__name__ == 'SymKey' for k in obj):
                return lambda: [((k.value if type(k).__name__ == 'SymKey' else k), v) for k, v in obj.items()]
            return getattr(obj, name)
        raise EngineError('dict.%s not modelled' % name)

    def bytes_eq(self, a, b):
        """ndarray.tobytes() equality: same dtype, same length, same elements."""
        x, y = a.arr, b.arr
        if x.dtype != y.dtype or len(x.shape) != len(y.shape):
            return False
        if isinstance(x, BArr) and isinstance(y, BArr):
            if x.a.size != y.a.size:
                return False
            return T.sand(*[T.seq(p, q) for p, q in zip(x.a.reshape(-1).tolist(), y.a.reshape(-1).tolist())]) if x.a.size else True
        if len(x.shape) != 1:
            raise EngineError('tobytes equality of nd closure arrays')
        import z3
        from .np_util import forall
        rx, ry = A.reader(x), A.reader(y)
        n, m = x.shape[0], y.shape[0]
        i = z3.Int('tb_i')
        body = z3.Implies(z3.And(0 <= i, i < T.to_int_term(n)), T.to_bool_term(T.seq(rx(i), ry(i))))
        return T.sand(T.seq(n, m), forall([i], body))

    def arr_attr(self, arr, name):
        t = self.table
        if name == 'shape':
            return tuple(arr.shape)
        if name == 'ndim':
            return len(arr.shape)
        if name == 'size':
            s = 1
            for d in arr.shape:
                s = T.smul(s, d)
            return s
        if name == 'dtype':
            d = DTypeVal(arr.dtype)
            d.names = getattr(arr, 'names', None)
            return d
        if name == 'T':
            return t['numpy.transpose'](arr)
        if name == 'real':
            return t['numpy.real'](arr)
        if name == 'imag':
            return t['numpy.imag'](arr)
        if name == '__len__':
            if len(arr.shape) == 0:
                raise PyExc('AttributeError', '0-d array has no len')
            return lambda: A.alen(arr)
        meths = {'max': 'numpy.max', 'min': 'numpy.min', 'sum': 'numpy.sum', 'mean': 'numpy.mean', 'copy': 'numpy.copy',
                 'transpose': 'numpy.transpose', 'conj': 'numpy.conj', 'conjugate': 'numpy.conj', 'argmax': 'numpy.argmax',
                 'argmin': 'numpy.argmin', 'cumsum': 'numpy.cumsum', 'flatten': 'numpy.ravel', 'ravel': 'numpy.ravel',
                 'reshape': 'numpy.reshape', 'take': 'numpy.take', 'clip': 'numpy.clip', 'dot': 'numpy.dot',
                 'any': 'numpy.any', 'all': 'numpy.all'}
        if name in meths:
            f = t[meths[name]]
            return lambda *a, **k: f(arr, *a, **k)
        if name == 'astype':
            return lambda d, **k: t['numpy.array'](arr, dtype=d)
        if name == 'sort':
            return lambda *a, **k: t['ndarray.sort'](arr, *a, **k)
        if name == 'fill':
            return lambda v: self.setitem(arr, (slice(None),) * len(arr.shape), v)
        if name == 'tolist':
            return lambda: t['builtins.list'](arr) if len(arr.shape) == 1 else _unsupported('tolist on nd')
        if name == 'tobytes':
            from .interp import BytesVal
            return lambda *a, **k: BytesVal(arr.snapshot() if isinstance(arr, CArr) else arr.copy())
        raise PyExc('AttributeError', 'ndarray has no attribute %s (or it is not modelled)' % name) if not hasattr(np.ndarray, name) \
            else EngineError('ndarray.%s not modelled' % name)


_RANKS = {'bool': 0, 'int': 1, 'float': 2, 'complex': 3, 'object': 4}
_ITP = [None]


def _unsupported(msg):
    raise EngineError(msg)


class _Unmodelled:
    def __init__(self, path):
        self.path = path

    def __call__(self, *a, **k):
        raise EngineError('library function %s has no model' % self.path)


class _NotImplementedVal:
    def __call__(self, *a, **k):
        raise PyExc('TypeError', "'NotImplementedType' object is not callable")


class _FileVal:
    pass


def select(c, a, b):
    """ite over arbitrary values (scalars, or identical objects)."""
    c = T.truthy(c)
    if c is True:
        return a
    if c is False:
        return b
    if T.is_scalar(a) and T.is_scalar(b):
        return T.site(c, a, b)
    if a is b:
        return a
    raise EngineError('symbolic selection between non-scalar values')


def parse_float(s):
    s2 = s.strip()
    try:
        from fractions import Fraction
        if s2.lower() in ('nan', 'inf', '-inf', '+inf', 'infinity', '-infinity'):
            raise EngineError('non-finite float literal')
        float(s2)
        return T.Q(Fraction(s2.replace('_', '')))
    except ValueError:
        raise PyExc('ValueError', 'could not convert string to float: %r' % s)


def str_format(fmt, args):
    """printf-style formatting with exact decimal rounding of concrete rationals (ideal-arithmetic reading of %.kf)."""
    from fractions import Fraction
    if not isinstance(args, tuple):
        args = (args,)
    import re
    out = []
    pos = 0
    ai = 0
    # every conversion in the format must be one the model understands: anything else is a CHECKER limitation, not a Python error
    for m0 in re.finditer(r'%([-+ #0]*\d*(?:\.\d+)?[a-zA-Z%]?)', fmt):
        if not re.fullmatch(r'(\.\d+)?[ifdsg%]', m0.group(1)):
            raise EngineError('format conversion %%%s is not modelled' % m0.group(1))
    for m in re.finditer(r'%(?:(\.\d+)?([ifdsg%]))', fmt):
        out.append(fmt[pos:m.start()])
        pos = m.end()
        prec, kind = m.group(1), m.group(2)
        if kind == '%':
            out.append('%')
            continue
        if ai >= len(args):
            raise PyExc('TypeError', 'not enough arguments for format string')
        a = N(args[ai]) if T.is_scalar(args[ai]) else args[ai]
        ai += 1
        if kind == 's':
            if isinstance(a, str):
                out.append(a)
            elif isinstance(a, int):
                out.append(str(a))
            else:
                raise EngineError('%s of non-string')
        elif kind in 'id':
            if not T.is_concrete(a):
                from . import text as TX
                if not T.is_int_like(a):
                    raise EngineError('%i of a symbolic non-integer')
                _ITP[0].assume(T.sge(a, 0))
                out.append(TX.SymStr([TX.Num(T.to_int_term(a), 0, dot=False)]))
                continue
            if isinstance(a, str) or a is None:
                raise PyExc('TypeError', '%i format: a real number is required')
            out.append(str(T.strunc(a)))
        elif kind == 'g':
            if isinstance(a, str) or a is None:
                raise PyExc('TypeError', 'must be real number, not str')
            p_ = max(int(prec[1:]) if prec else 6, 1)
            out.append(format_general(a, p_))
        else:
            if isinstance(a, str) or a is None:
                raise PyExc('TypeError', 'must be real number, not str')
            k = int(prec[1:]) if prec else 6
            if not T.is_concrete(a):
                from . import text as TX
                out.append(TX.fmt_fixed(_ITP[0], a, k))
            else:
                out.append(format_fixed(T.fr(a), k))
    out.append(fmt[pos:])
    if ai != len(args):
        raise PyExc('TypeError', 'not all arguments converted during string formatting')
    if any(not isinstance(o, str) for o in out):
        from . import text as TX
        return TX.norm(TX.SymStr(out))
    return ''.join(out)


def format_general(a, p):
    """'%.pg': p significant digits; for 1e-4 <= |x| < 10^p Python uses fixed notation with p-1-e decimals (e = decade of x) and strips
    trailing zeros.  The VALUE of that text is round(|x| * 10^k) / 10^k with k = p-1-e (a carry into the next decade gives the same
    value), which is all that float() of the field can observe; the decade is a case split.  Outside that range: not modelled."""
    from . import text as TX
    itp = _ITP[0]
    if T.is_concrete(a):
        q = T.fr(a)
        return ('%.' + str(p) + 'g') % float(q)
    x = T.to_real(N(a))
    mag = z3.If(x >= 0, x, -x)
    if itp.fork(x == 0, 'g-zero'):
        return '0'
    for e in range(-4, p):
        lo = Q(10 ** e) if e >= 0 else Q(1, 10 ** (-e))
        hi = Q(10 ** (e + 1)) if e + 1 >= 0 else Q(1, 10 ** (-e - 1))
        if itp.fork(z3.And(mag >= lo, mag < hi), 'g-decade=%d' % e):
            k = p - 1 - e
            D = T.fresh('dec', T.I)
            scaled = mag * (10 ** k)
            itp.assume(z3.And(D >= 0, scaled - z3.ToReal(D) <= Q(1, 2), z3.ToReal(D) - scaled <= Q(1, 2)))
            return TX.SymStr([TX.Sign(x < 0), TX.Num(D, k, dot=k > 0)])
    raise EngineError('%%.%dg of a value outside [1e-4, 1e%d): scientific notation is not modelled' % (p, p))


def format_fixed(q, k):
    """Decimal rendering of rational q with k decimals, round-half-even on the exact value."""
    from fractions import Fraction
    scaled = q * (10 ** k)
    fl = scaled.numerator // scaled.denominator
    rem = scaled - fl
    if rem > Fraction(1, 2) or (rem == Fraction(1, 2) and fl % 2 == 1):
        fl += 1
    sign = '-' if fl < 0 or (fl == 0 and q < 0 and False) else ''
    fl = abs(fl)
    ip, fp = divmod(fl, 10 ** k)
    if q < 0 and fl == 0:
        sign = '-'
    return '%s%d.%s' % (sign, ip, str(fp).rjust(k, '0')) if k > 0 else '%s%d' % (sign, ip)


def _str_method(s, name):
    if name == 'format':
        def fmt(*args, **kw):
            if not all(isinstance(a, (str, int)) for a in args):
                return s
            return s.format(*args, **kw)
        return fmt
    return getattr(s, name)

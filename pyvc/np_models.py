"""Models (assumed contracts, DESIGN.md 3.4) of the NumPy / SciPy / builtin functions used by eqsig.

Every model accepts bounded arrays (BArr: explicit computation, no quantifier) and closure arrays (CArr: symbolic
shape; reductions, scans and index sets introduce fresh uninterpreted functions with their defining axioms).
"""
import ast

import numpy as np
import z3

from . import terms as T
from . import arrays as A
from .terms import EngineError, PyExc, N, ctx, Q
from .arrays import BArr, CArr, is_arr, emap


def register(lib):
    M = Models(lib)
    for name in dir(M):
        f = getattr(M, name)
        reg = getattr(f, '_reg', None)
        if reg:
            for r in reg:
                lib.table[r] = f
    lib.table['numpy.pi'] = None  # placeholder, resolved dynamically
    lib.models = M
    orig_getattr = lib.getattr

    def getattr_(ns, name):
        p = ns.path + '.' + name
        if p == 'numpy.pi':
            return T.pi()
        if p == 'numpy.newaxis':
            return None
        if p == 'numpy.inf':
            raise EngineError('np.inf not modelled')
        return orig_getattr(ns, name)
    lib.getattr = getattr_


from .np_util import reg, fresh_array_fn, find_pattern, forall, rng, zterm, _axis
from .np_models2 import Structural


class Models(Structural):
    def __init__(self, lib):
        self.lib = lib

    @property
    def itp(self):
        return self.lib.interp

    # ======================================================================================== builtins
    @reg('builtins.len')
    def b_len(self, x):
        from .interp import ObjVal
        if isinstance(x, ObjVal):
            raise PyExc('TypeError', 'object has no len()')
        if T.is_scalar(x) and not isinstance(x, str):
            raise PyExc('TypeError', 'object of type scalar has no len()')
        return A.alen(x)

    @reg('builtins.range')
    def b_range(self, *args):
        from .interp import SymRange
        args = [N(a) for a in args]
        for a in args:
            if T.is_real_like(a):
                raise PyExc('TypeError', 'float object cannot be interpreted as an integer')
        if all(isinstance(a, int) for a in args):
            return range(*args)
        if len(args) == 1:
            return SymRange(0, args[0], 1)
        if len(args) == 2:
            return SymRange(args[0], args[1], 1)
        if not isinstance(args[2], int):
            raise EngineError('symbolic range step')
        return SymRange(args[0], args[1], args[2])

    @reg('builtins.enumerate')
    def b_enumerate(self, it, start=0):
        from .interp import EnumVal
        return EnumVal(it, T.concrete_int(start))

    @reg('builtins.zip')
    def b_zip(self, *its):
        lists = [self.itp.iter_items(i) for i in its]
        if any(l is None for l in lists):
            raise EngineError('zip over symbolic-length iterable')
        return list(zip(*lists))

    @reg('builtins.abs')
    def b_abs(self, x):
        return self.np_abs(x)

    @reg('builtins.print')
    def b_print(self, *a, **k):
        return None

    @reg('builtins.isinstance')
    def b_isinstance(self, x, cls):
        from .interp import TypeVal, ClassVal, ObjVal
        if isinstance(cls, tuple):
            return any(self.b_isinstance(x, c) for c in cls)
        if isinstance(cls, TypeVal):
            nx = N(x) if T.is_scalar(x) else x
            if cls.name == 'float':
                return T.is_real_like(nx)
            if cls.name == 'int':
                return isinstance(nx, int) or (T.is_z3(nx) and nx.sort() == T.I)
            if cls.name == 'bool':
                return T.is_bool_like(nx) if T.is_scalar(nx) else False
            if cls.name == 'complex':
                return isinstance(nx, T.Cx)
            if cls.name == 'list':
                return isinstance(x, list)
            if cls.name == 'tuple':
                return isinstance(x, tuple)
            if cls.name == 'str':
                return isinstance(x, str)
            if cls.name == 'dict':
                return isinstance(x, dict)
            if cls.name == 'object':
                return True
            if cls.name == 'ndarray':
                return is_arr(x)
        if isinstance(cls, ClassVal):
            return isinstance(x, ObjVal) and x.cls.is_subclass(cls)
        raise EngineError('isinstance with %r' % (cls,))


    @reg('builtins.hasattr')
    def b_hasattr(self, x, name):
        from .interp import ObjVal
        if name == '__len__':
            if is_arr(x):
                return len(x.shape) > 0
            if isinstance(x, (list, tuple, dict, str)):
                return True
            if isinstance(x, ObjVal):
                return self.itp.has_attr(x, name)
            return False
        return self.itp.has_attr(x, name)

    @reg('builtins.getattr')
    def b_getattr(self, x, name, *default):
        try:
            return self.itp.get_attr(x, name)
        except PyExc as e:
            if e.kind == 'AttributeError' and default:
                return default[0]
            raise

    @reg('builtins.list')
    def b_list(self, x=()):
        return self.lib.convert('list', [x] if x != () else [], {})

    def _seq_items(self, x, what):
        items = self.itp.iter_items(x)
        if items is None:
            return None
        for it in items:
            if is_arr(it):
                raise EngineError('%s over nested arrays' % what)
        return items

    @reg('builtins.max')
    def b_max(self, *args, **kw):
        return self._minmax(args, True)

    @reg('builtins.min')
    def b_min(self, *args, **kw):
        return self._minmax(args, False)

    def _minmax(self, args, is_max):
        if len(args) > 1:
            out = args[0]
            for a in args[1:]:
                if is_arr(a) or is_arr(out):
                    raise PyExc('ValueError', 'truth value of an array is ambiguous')
                # python: max keeps the first maximal element; values equal so either is the same real number
                out = T.site(T.sgt(a, out) if is_max else T.slt(a, out), a, out)
            return out
        x = args[0]
        if is_arr(x):
            if len(x.shape) != 1:
                raise PyExc('ValueError', 'truth value of an array with more than one element is ambiguous')
            return self._reduce_extreme(x, None, is_max)
        items = self._seq_items(x, 'max/min')
        if items is None:
            raise EngineError('max/min over symbolic iterable')
        if not items:
            raise PyExc('ValueError', 'max() arg is an empty sequence')
        out = items[0]
        for a in items[1:]:
            out = T.site(T.sgt(a, out) if is_max else T.slt(a, out), a, out)
        return out

    @reg('builtins.sum')
    def b_sum(self, x, start=0):
        if is_arr(x):
            if len(x.shape) == 1:
                return T.sadd(start, self.np_sum(x))
            return self.np_sum(x, axis=0)
        items = self._seq_items(x, 'sum')
        if items is None:
            raise EngineError('sum over symbolic iterable')
        out = start
        for a in items:
            out = T.sadd(out, a)
        return out

    @reg('builtins.sorted')
    def b_sorted(self, x):
        raise EngineError('sorted() not modelled')

    @reg('builtins.round')
    def b_round(self, x, nd=None):
        if nd is not None:
            raise EngineError('round(x, n)')
        return T.sround(x)

    @reg('builtins.any')
    def b_any(self, x):
        items = self._seq_items(x, 'any')
        return T.sor(*[self.itp.truth(i) for i in items]) if items else False

    @reg('builtins.all')
    def b_all(self, x):
        items = self._seq_items(x, 'all')
        return T.sand(*[self.itp.truth(i) for i in items]) if items else True

    @reg('builtins.open')
    def b_open(self, path, mode='r', *a, **k):
        from . import text as TX
        vfs = ctx().cache.setdefault('vfs', {})
        if not isinstance(path, str):
            raise EngineError('symbolic file path')
        if 'w' not in mode and path not in vfs:
            raise PyExc('FileNotFoundError', path)
        return TX.FileObj(vfs, path, mode)

    @reg('numpy.genfromtxt')
    def np_genfromtxt(self, fname, skip_header=0, delimiter=None, names=None, usecols=None, **kw):
        """Assumed contract of np.genfromtxt for the call shape used by eqsig (one numeric column, optional header names)."""
        from . import text as TX
        vfs = ctx().cache.setdefault('vfs', {})
        if fname not in vfs:
            raise PyExc('FileNotFoundError', str(fname))
        lines = [l for l in TX.splitlines(vfs[fname])]
        lines = lines[T.concrete_int(skip_header):]
        lines = [l for l in lines if not (isinstance(l, str) and l.strip() == '')]
        col = 0 if usecols is None else T.concrete_int(usecols)
        header = None
        if names is True:
            if not lines:
                raise PyExc('StopIteration', 'no header line')
            first = lines.pop(0)
            cells = TX.split_on(first, delimiter) if delimiter is not None else TX.split_on(first, None)
            header = TX.sanitise_name(cells[col] if col < len(cells) else '')
            if header == '':
                header = 'f0'
        vals = []
        for l in lines:
            cells = TX.split_on(l, delimiter) if delimiter is not None else TX.split_on(l, None)
            vals.append(TX.parse_float(self.itp, cells[col]))
        ctx().assumed.append('numpy.genfromtxt / text I/O (decimal-text domain)')
        if len(vals) == 1:
            r = A.barr_from(vals[0], 'float')            # numpy squeezes a single row to a 0-d array
        else:
            r = A.barr_from(vals, 'float') if vals else A.bfull((0,), 0, 'float')
        if header is not None:
            r.names = (header,)
        return r

    @reg('collections.OrderedDict')
    def c_ordered_dict(self, *a, **k):
        return dict(*a, **k)

    @reg('warnings.warn')
    def w_warn(self, *a, **k):
        return None

    # ======================================================================================== creation
    def _shape_arg(self, shape):
        if isinstance(shape, (list, tuple)):
            return tuple(N(s) for s in shape)
        if isinstance(shape, BArr):
            return tuple(N(s) for s in shape.a.tolist())
        return (N(shape),)

    def _check_dims(self, shp):
        for s in shp:
            if T.is_real_like(s):
                raise PyExc('TypeError', 'float object cannot be interpreted as an integer')
            if isinstance(s, int) and s < 0:
                raise PyExc('ValueError', 'negative dimensions are not allowed')
            if T.is_z3(s):
                self.itp.oblige('non-negative-dimension', T.sge(s, 0))

    def full(self, shape, val, dtype):
        shp = self._shape_arg(shape)
        self._check_dims(shp)
        v = T.cast_scalar(val, dtype)
        if all(isinstance(s, int) for s in shp):
            return A.bfull(shp, v, dtype)
        return CArr.from_fn(lambda *i: v, shp, dtype)

    @reg('numpy.zeros')
    def np_zeros(self, shape, dtype=None):
        from .lib import dtype_name
        return self.full(shape, 0, dtype_name(dtype, 'float'))

    @reg('numpy.ones')
    def np_ones(self, shape, dtype=None):
        from .lib import dtype_name
        return self.full(shape, 1, dtype_name(dtype, 'float'))

    @reg('numpy.full')
    def np_full(self, shape, fill_value, dtype=None):
        from .lib import dtype_name
        v = N(fill_value) if T.is_scalar(fill_value) else self.lib.scalar_of(fill_value)
        dt = dtype_name(dtype, None) if dtype is not None else ('bool' if T.is_bool_like(v) else 'int' if T.is_int_like(v) else
                                                                   'complex' if isinstance(v, T.Cx) else 'float')
        return self.full(shape, v, dt)

    @reg('numpy.full_like')
    def np_full_like(self, a, fill_value, dtype=None, shape=None):
        from .lib import dtype_name
        a = self.asarray(a)
        v = N(fill_value) if T.is_scalar(fill_value) else self.lib.scalar_of(fill_value)
        return self.full(self._like_shape(shape, a), v, dtype_name(dtype, a.dtype))

    @reg('numpy.hstack')
    def np_hstack(self, tup):
        parts = [self.lib.models.np_atleast_1d(p) if hasattr(self.lib.models, 'np_atleast_1d') else self.asarray(p) for p in tup]
        if any(len(p.shape) != 1 for p in parts):
            raise EngineError('hstack of nd arrays')
        return self.lib.table['numpy.concatenate'](parts, axis=0)

    @reg('numpy.square')
    def np_square(self, x):
        import ast as _ast
        return self.lib.binop(_ast.Mult, x, x)

    @reg('numpy.power')
    def np_power(self, a, b):
        import ast as _ast
        return self.lib.binop(_ast.Pow, a, b)

    @reg('numpy.errstate')
    def np_errstate(self, **kw):
        # context manager that only changes how floating-point WARNINGS are reported; values are unaffected (used in `with`, no `as`)
        return None

    @reg('numpy.isscalar')
    def np_isscalar(self, x):
        return T.is_scalar(x) and x is not None

    @reg('numpy.ascontiguousarray')
    def np_ascontiguousarray(self, x, dtype=None):
        return self.np_asarray(x, dtype=dtype)

    @reg('numpy.isfinite')
    def np_isfinite(self, x):
        # A3: every value is a real number
        if is_arr(x):
            return emap(lambda v: True, 'bool', x)
        return True

    @reg('numpy.isnan', 'numpy.isinf')
    def np_isnan(self, x):
        if is_arr(x):
            return emap(lambda v: False, 'bool', x)
        return False

    @reg('numpy.allclose')
    def np_allclose(self, a, b, rtol=None, atol=None):
        c = self.np_isclose(a, b, rtol=rtol, atol=atol)
        return self.lib.table['numpy.all'](c) if is_arr(c) else c

    @reg('numpy.count_nonzero')
    def np_count_nonzero(self, x):
        import ast as _ast
        x = self.asarray(x)
        return self.np_sum(self.lib.compare(_ast.NotEq, x, 0))

    @reg('numpy.empty')
    def np_empty(self, shape, dtype=None):
        """Uninitialised array: ARBITRARY content (a fresh uninterpreted function), so only cells the code writes are known."""
        from .lib import dtype_name
        from .np_util import fresh_array_fn
        dt = dtype_name(dtype, 'float')
        shp = self._shape_arg(shape)
        self._check_dims(shp)
        get = fresh_array_fn('empty', len(shp), dt)
        if all(isinstance(s, int) for s in shp):
            a = np.empty(shp, dtype=object)
            for ix in np.ndindex(*shp):
                a[ix] = get(*ix)
            return BArr(a, dt)
        return CArr.from_fn(get, shp, dt)

    @reg('numpy.empty_like')
    def np_empty_like(self, a, dtype=None, shape=None):
        from .lib import dtype_name
        a = self.asarray(a)
        return self.np_empty(self._like_shape(shape, a), dtype_name(dtype, a.dtype))

    @reg('numpy.zeros_like')
    def np_zeros_like(self, a, dtype=None, shape=None):
        from .lib import dtype_name
        a = self.asarray(a)
        return self.full(self._like_shape(shape, a), 0, dtype_name(dtype, a.dtype))

    def _like_shape(self, shape, a):
        if shape is None:
            return a.shape
        if isinstance(shape, (list, tuple)):
            return tuple(N(s) for s in shape)
        return (N(shape),)

    @reg('numpy.ones_like')
    def np_ones_like(self, a, dtype=None, shape=None):
        from .lib import dtype_name
        a = self.asarray(a)
        return self.full(self._like_shape(shape, a), 1, dtype_name(dtype, a.dtype))

    def asarray(self, x):
        if is_arr(x):
            return x
        return self.np_array(x)

    @reg('numpy.asarray', 'numpy.asanyarray', 'numpy.atleast_1d')
    def np_asarray(self, x, dtype=None):
        from .lib import dtype_name
        if is_arr(x) and (dtype is None or dtype_name(dtype) == x.dtype) and len(x.shape) >= 1:
            return x                                    # no copy: the result aliases the argument
        r = self.np_array(x, dtype=dtype)
        if len(r.shape) == 0:
            r = self.np_reshape(r, 1)
        return r

    @reg('numpy.array')
    def np_array(self, x, dtype=None, copy=True):
        from .lib import dtype_name
        from .interp import ObjVal
        dt = dtype_name(dtype, None)
        if isinstance(x, ObjVal):
            raise EngineError('np.array(object)')
        if isinstance(x, CArr):
            tgt = dt or x.dtype
            if tgt != 'complex' and x.dtype == 'complex':
                raise EngineError('complex -> real cast (ComplexWarning) not modelled')
            rd = x.reader()
            return CArr.from_fn(lambda *i: T.cast_scalar(rd(*i), tgt), x.shape, tgt)
        if isinstance(x, BArr):
            tgt = dt or x.dtype
            if tgt != 'complex' and x.dtype == 'complex':
                raise EngineError('complex -> real cast (ComplexWarning) not modelled')
            out = np.empty(x.a.shape, dtype=object)
            for ix in np.ndindex(*x.a.shape):
                out[ix] = T.cast_scalar(x.a[ix], tgt)
            if x.a.ndim == 0:
                out[()] = T.cast_scalar(x.a[()], tgt)
            return BArr(out, tgt)
        if isinstance(x, range):
            x = list(x)
        if isinstance(x, (list, tuple)):
            if self._contains_carr(x):
                return self._stack_closure(x, dt)
            for e in _flatten(x):
                if e is None or isinstance(e, str):
                    raise EngineError('np.array over None/str entries')
            return A.barr_from(x, dt)
        if T.is_scalar(x):
            if x is None or isinstance(x, str):
                raise EngineError('np.array(None/str)')
            return A.barr_from(x, dt)
        raise EngineError('np.array(%r)' % (x,))

    def _contains_carr(self, x):
        if isinstance(x, CArr):
            return True
        if isinstance(x, (list, tuple)):
            return any(self._contains_carr(e) for e in x)
        return False

    def _stack_closure(self, x, dt):
        """np.array([[a, b], [c, d]]) where the leaves are arrays of symbolic shape."""
        def dims(v):
            if isinstance(v, (list, tuple)):
                d0 = dims(v[0])
                return (len(v),) + d0[0], d0[1]
            return (), v
        lead, leaf = dims(x)
        leaf = A.to_carr(leaf) if is_arr(leaf) else None
        if leaf is None:
            raise EngineError('mixed stacking')
        leaves = {}

        def collect(v, pre):
            if isinstance(v, (list, tuple)):
                for k, e in enumerate(v):
                    collect(e, pre + (k,))
            else:
                if not is_arr(v):
                    raise EngineError('mixed scalar/array stacking')
                leaves[pre] = A.to_carr(v).reader()
        collect(x, ())
        dtype = dt or leaf.dtype
        nl = len(lead)

        def get(*i):
            head = tuple(N(j) for j in i[:nl])
            if all(isinstance(j, int) for j in head):
                return T.cast_scalar(leaves[head](*i[nl:]), dtype)
            out = None
            for key in sorted(leaves, reverse=True):
                val = leaves[key](*i[nl:])
                cond = T.sand(*[T.seq(a_, b_) for a_, b_ in zip(head, key)])
                out = val if out is None else T.site(cond, val, out)
            return T.cast_scalar(out, dtype)
        return CArr.from_fn(get, tuple(lead) + tuple(leaf.shape), dtype)

    @reg('numpy.copy')
    def np_copy(self, x):
        return self.np_array(x)

    @reg('numpy.arange')
    def np_arange(self, *args, dtype=None):
        args = [N(a) for a in args]
        if len(args) == 1:
            start, stop, step = 0, args[0], 1
        elif len(args) == 2:
            start, stop, step = args[0], args[1], 1
        else:
            start, stop, step = args
        real = any(T.is_real_like(a) for a in (start, stop, step))
        dt = 'float' if real else 'int'
        if T.is_num(step) and T.fr(step) == 0:
            raise PyExc('ZeroDivisionError', 'arange step 0')
        # length = ceil((stop - start)/step) clipped at 0
        if all(T.is_num(a) for a in (start, stop, step)):
            import math
            n = max(0, math.ceil((T.fr(stop) - T.fr(start)) / T.fr(step)))
        else:
            span = T.ssub(stop, start)
            if T.is_num(step) and T.fr(step) == 1:
                cnt = T.sceil(span)
            elif T.is_num(step) and T.fr(step) == -1:
                cnt = T.sceil(T.sneg(span))
            else:
                cnt = T.sceil(T.sdiv(span, step))
            n = T.smax2(cnt, 0)
        el = lambda i: T.cast_scalar(T.sadd(start, T.smul(step, i)), dt)
        if isinstance(n, int):
            a = np.empty((n,), dtype=object)
            for k in range(n):
                a[k] = el(k)
            r = BArr(a, dt)
        else:
            r = CArr.from_fn(el, (n,), dt, meta={'arange': (start, step)})
        return r

    @reg('numpy.linspace')
    def np_linspace(self, start, stop, num=50, endpoint=True):
        num = N(num)
        if T.is_real_like(num):
            raise PyExc('TypeError', 'linspace num must be an integer')
        if isinstance(num, int):
            if num < 0:
                raise PyExc('ValueError', 'Number of samples must be non-negative')
            if num == 0:
                return A.bfull((0,), 0, 'float')
            if num == 1:
                return A.barr_from([T.to_real(start)], 'float')
            den = num - 1 if endpoint else num
            vals = [T.sadd(start, T.sdiv(T.smul(T.ssub(stop, start), k), den)) for k in range(num)]
            if is_arr(start) or is_arr(stop):
                raise EngineError('linspace with array bounds')
            return A.barr_from(vals, 'float')
        den = T.ssub(num, 1) if endpoint else num
        # for num == 1 numpy returns [start]; the closure below gives start + 0*... = start as well when k = 0
        span = T.ssub(stop, start)

        def el(k):
            return T.to_real(T.site(T.seq(k, 0), start, T.sadd(start, T.sdiv(T.smul(span, k), den))))
        self.itp.oblige('non-negative-dimension', T.sge(num, 0))
        return CArr.from_fn(el, (num,), 'float', meta={'linspace': (start, stop, num)})

    @reg('numpy.logspace')
    def np_logspace(self, start, stop, num=50, base=10):
        lin = self.np_linspace(start, stop, num)
        # lazy even for concrete sizes: the pow() identity instances are only emitted for elements that are read
        rd = A.reader(lin)
        return CArr.from_fn(lambda i: T.spow(base, rd(i)), lin.shape, 'float')

    # ===================================================================================== elementwise
    def _ew1(self, f, x, dtype=None):
        if isinstance(x, (list, tuple)):
            x = self.np_array(x)
        if is_arr(x):
            return emap(f, dtype, x)
        return f(x)

    @reg('numpy.fabs')
    def np_fabs(self, x):
        """fabs always returns floating point (abs keeps an integer dtype)"""
        if isinstance(x, (list, tuple)):
            x = self.np_array(x)
        if is_arr(x):
            if x.dtype == 'complex':
                raise PyExc('TypeError', "ufunc 'fabs' not supported for complex input")
            return emap(lambda v: T.to_real(T.sabs(v)), 'float', x)
        return T.to_real(T.sabs(x))

    @reg('numpy.abs', 'numpy.absolute')
    def np_abs(self, x):
        if isinstance(x, (list, tuple)):
            x = self.np_array(x)
        if is_arr(x):
            return emap(T.sabs, 'float' if x.dtype == 'complex' else x.dtype, x)
        if x is None or isinstance(x, str):
            raise PyExc('TypeError', 'bad operand type for abs()')
        return T.sabs(x)

    @reg('numpy.sign')
    def np_sign(self, x):
        return self._ew1(T.ssign, x, x.dtype if is_arr(x) else None)

    @reg('numpy.sqrt')
    def np_sqrt(self, x):
        return self._ew1(T.ssqrt, x, 'float')

    @reg('numpy.exp')
    def np_exp(self, x):
        return self._ew1(T.sexp, x, 'float')

    @reg('numpy.sin')
    def np_sin(self, x):
        return self._ew1(T.ssin, x, 'float')

    @reg('numpy.cos')
    def np_cos(self, x):
        return self._ew1(T.scos, x, 'float')

    @reg('numpy.log10')
    def np_log10(self, x):
        return self._ew1(lambda v: T.slog(v, 10), x, 'float')

    @reg('numpy.log2')
    def np_log2(self, x):
        return self._ew1(lambda v: T.slog(v, 2), x, 'float')

    @reg('numpy.log')
    def np_log(self, x):
        return self._ew1(lambda v: T.slog(v, 'e'), x, 'float')

    def _is_intlike_input(self, x):
        if isinstance(x, (list, tuple)):
            x = self.np_array(x)
        return (is_arr(x) and x.dtype in ('int', 'bool')) or (not is_arr(x) and T.is_int_like(N(x)) and not isinstance(N(x), bool))

    @reg('numpy.rint')
    def np_rint(self, x):
        """round half to even; always floating point (np.round keeps an integer dtype, np.rint does not)"""
        return self._ew1(lambda v: T.to_real(T.sround(v)), x, 'float')

    @reg('numpy.round', 'numpy.around')
    def np_round(self, x, decimals=0, out=None):
        """round half to even (same rule as the builtin round); floating result for floating input, integers unchanged"""
        if N(decimals) != 0 or out is not None:
            raise EngineError('numpy.round(decimals= / out=) not modelled')
        if self._is_intlike_input(x):
            return self._ew1(lambda v: v, x, 'int') if not (is_arr(x) and x.dtype == 'bool') else x
        return self._ew1(lambda v: T.to_real(T.sround(v)), x, 'float')

    @reg('numpy.ceil')
    def np_ceil(self, x):
        # NumPy >= 2.1 (installed: 2.5): integer input stays integer (identity); floating input gives floating whole numbers
        if self._is_intlike_input(x):
            return self._ew1(lambda v: v, x, 'int') if not (is_arr(x) and x.dtype == 'bool') else x
        return self._ew1(lambda v: T.to_real(T.sceil(v)), x, 'float')

    @reg('numpy.floor')
    def np_floor(self, x):
        if self._is_intlike_input(x):
            return self._ew1(lambda v: v, x, 'int') if not (is_arr(x) and x.dtype == 'bool') else x
        return self._ew1(lambda v: T.to_real(T.sfloor(v)), x, 'float')

    @reg('numpy.radians', 'numpy.deg2rad')
    def np_radians(self, x):
        return self._ew1(lambda v: T.sdiv(T.smul(v, T.pi()), 180), x, 'float')

    @reg('numpy.conj', 'numpy.conjugate')
    def np_conj(self, x):
        f = lambda v: v.conj() if isinstance(v, T.Cx) else v
        return self._ew1(f, x, x.dtype if is_arr(x) else None)

    @reg('numpy.real')
    def np_real(self, x):
        f = lambda v: v.re if isinstance(v, T.Cx) else v
        return self._ew1(f, x, ('float' if x.dtype == 'complex' else x.dtype) if is_arr(x) else None)

    @reg('numpy.imag')
    def np_imag(self, x):
        f = lambda v: v.im if isinstance(v, T.Cx) else 0
        return self._ew1(f, x, 'float' if is_arr(x) else None)

    @reg('numpy.mod')
    def np_mod(self, a, b):
        return self.lib.binop(ast.Mod, a if not isinstance(a, (list, tuple)) else self.np_array(a), b)

    @reg('numpy.clip')
    def np_clip(self, x, lo, hi):
        def f(v, *_):
            if lo is not None:
                v = T.smax2(v, lo) if not is_arr(lo) else v
            if hi is not None:
                v = T.smin2(v, hi)
            return v
        if is_arr(lo) or is_arr(hi):
            raise EngineError('clip with array bounds')
        x = self.asarray(x) if isinstance(x, (list, tuple)) else x
        dt = None
        if is_arr(x):
            dts = [x.dtype] + [T.dtype_of_scalar(b) for b in (lo, hi) if b is not None]
            dt = T.promote(*dts)
            return emap(lambda v: T.cast_scalar(f(v), dt), dt, x)
        return f(x)

    @reg('numpy.maximum')
    def np_maximum(self, a, b):
        return emap(T.smax2, None, a, b) if (is_arr(a) or is_arr(b)) else T.smax2(a, b)

    @reg('numpy.minimum')
    def np_minimum(self, a, b):
        return emap(T.smin2, None, a, b) if (is_arr(a) or is_arr(b)) else T.smin2(a, b)

    @reg('numpy.isclose')
    def np_isclose(self, a, b, rtol=None, atol=None):
        rtol = Q('1/100000') if rtol is None else rtol
        atol = Q('1/100000000') if atol is None else atol
        f = lambda x, y: T.sle(T.sabs(T.ssub(x, y)), T.sadd(atol, T.smul(rtol, T.sabs(y))))
        if is_arr(a) or is_arr(b):
            return emap(f, 'bool', a, b)
        return f(a, b)

    @reg('numpy.where')
    def np_where(self, cond, x=None, y=None):
        if isinstance(cond, (list, tuple)):
            cond = self.np_array(cond)
        if x is None and y is None:
            return self.where1(cond)
        for v in (x, y):
            if isinstance(v, (list, tuple)):
                raise EngineError('where with list branches')
        dts = [A_dtype(v) for v in (x, y)]
        dt = T.promote(*dts)
        if not is_arr(cond) and not is_arr(x) and not is_arr(y):
            # 0-d result
            return T.site(self.itp.truth(cond), T.cast_scalar(x, dt), T.cast_scalar(y, dt))
        return emap(lambda c, a, b: T.site(c, T.cast_scalar(a, dt), T.cast_scalar(b, dt)), dt, cond, x, y)

    def where1(self, cond):
        if not is_arr(cond):
            raise EngineError('where on scalar')
        if len(cond.shape) != 1:
            raise EngineError('np.where(cond) on %d-d array' % len(cond.shape))
        if isinstance(cond, BArr):
            keep = [k for k in range(cond.a.shape[0]) if self.itp.fork(self.itp.truth(N(cond.a[k])), 'where')]
            return (A.barr_from(keep, 'int'),)
        n = cond.shape[0]
        rd = cond.reader()
        key = ('where', A.canon_key(cond))
        c = ctx()
        if key in c.cache:
            return (c.cache[key],)
        w = T.fresh_fn('where', T.I, T.I)
        pos = T.fresh_fn('wpos', T.I, T.I)
        m = T.fresh('wlen', T.I)
        k, a_, b_, i = z3.Ints('wk wa wb wi')
        nz = T.to_int_term(n)
        c.fact(z3.And(m >= 0, m <= nz))
        c.fact(z3.ForAll([k], z3.Implies(z3.And(0 <= k, k < m),
                                         z3.And(0 <= w(k), w(k) < nz, T.to_bool_term(T.truthy(rd(w(k)))))), patterns=[w(k)]))
        c.fact(z3.ForAll([a_, b_], z3.Implies(z3.And(0 <= a_, a_ < b_, b_ < m), w(a_) < w(b_)),
                         patterns=[z3.MultiPattern(w(a_), w(b_))]))
        ci = T.to_bool_term(T.truthy(rd(i)))
        cpat = find_pattern(ci, [i])
        c.fact(z3.ForAll([i], z3.Implies(z3.And(0 <= i, i < nz, ci), z3.And(0 <= pos(i), pos(i) < m, w(pos(i)) == i)),
                         patterns=[pos(i)] + ([cpat] if cpat is not None else [])))
        c.assumed.append('numpy.where')
        r = CArr.from_fn(lambda j: N(w(T.to_int_term(j))), (m,), 'int', meta={'where': (cond, pos, w, m)})
        c.cache[key] = r
        c.cache.setdefault('where-calls', []).append(dict(w=w, pos=pos, m=m, n=n))
        return (r,)

    @reg('numpy.nonzero')
    def np_nonzero(self, x):
        return self.where1(emap(lambda v: T.truthy(v), 'bool', x))

    @reg('numpy.flatnonzero')
    def np_flatnonzero(self, x):
        x = self.asarray(x)
        if len(x.shape) != 1:
            raise EngineError('flatnonzero of an n-d array')
        return self.where1(emap(lambda v: T.truthy(v), 'bool', x))[0]

    # ---- binary ufuncs called by name (np.add(a, b), np.divide(a, b, out=..., where=...))
    def _ufunc2(self, op, a, b, out=None, where=True, **kw):
        import ast as _ast
        if kw:
            raise EngineError('ufunc keyword %s is not modelled' % sorted(kw))
        r = self.lib.binop(op, a, b)
        if where is True and out is None:
            return r
        if where is not True:
            # positions where the mask is False keep the value of `out` (uninitialised memory without out=: not modelled)
            if out is None:
                raise EngineError('ufunc where= without out=: result undefined at masked positions')
            r = self.np_where(where, r, out)
        if out is not None:
            if not is_arr(out):
                raise EngineError('out= with a non-array')
            if self.itp.store_hook:
                self.itp.store_hook(out)
            self.lib.setitem(out, (slice(None),) * len(out.shape), r)
            return out
        return r

    @reg('numpy.divide', 'numpy.true_divide')
    def np_divide(self, a, b, out=None, where=True, **kw):
        import ast as _ast
        if where is not True and is_arr(where):
            # masked division: the quotient is only formed where the mask holds (no division by zero obligation elsewhere)
            safe_b = self.np_where(where, b, 1)
            return self._ufunc2(_ast.Div, a, safe_b, out=out, where=where, **kw)
        return self._ufunc2(_ast.Div, a, b, out=out, where=where, **kw)

    @reg('numpy.multiply')
    def np_multiply(self, a, b, out=None, where=True, **kw):
        import ast as _ast
        return self._ufunc2(_ast.Mult, a, b, out=out, where=where, **kw)

    @reg('numpy.add')
    def np_add(self, a, b, out=None, where=True, **kw):
        import ast as _ast
        return self._ufunc2(_ast.Add, a, b, out=out, where=where, **kw)

    @reg('numpy.subtract')
    def np_subtract(self, a, b, out=None, where=True, **kw):
        import ast as _ast
        return self._ufunc2(_ast.Sub, a, b, out=out, where=where, **kw)

    # ====================================================================================== reductions
    def _prefix(self, x, kind, extra=None):
        """Hash-consed prefix-scan function of a 1-d closure array: returns (c, n) with c(i) = scan up to i (inclusive).

        kind 'sum': c(i) = x(0)+..+x(i);   kind ('trapz', dx): c(0)=0, c(i)=c(i-1)+dx*(x(i)+x(i-1))/2
        kind ('trapzx', xs): c(i)=c(i-1)+(xs(i)-xs(i-1))*(x(i)+x(i-1))/2
        """
        x = A.to_carr(x)
        n = x.shape[0]
        rd = x.reader()
        key = ('scan', str(kind[0] if isinstance(kind, tuple) else kind), A.canon_key(x),
               A.canon_key(extra) if extra is not None else None)
        c = ctx()
        if key in c.cache:
            return c.cache[key], n
        cplx = x.dtype == 'complex'
        sort = T.I if x.dtype in ('int', 'bool') and kind == 'sum' else T.R
        i = z3.Int('si')
        nz = T.to_int_term(n)
        if cplx:
            if kind != 'sum':
                raise EngineError('complex trapezoid')
            fre = T.fresh_fn('cumsum_re', T.I, T.R)
            fim = T.fresh_fn('cumsum_im', T.I, T.R)
            xi = rd(i)
            x0 = rd(0)
            xi, x0 = T.as_cx(xi), T.as_cx(x0)
            c.fact(z3.ForAll([i], z3.Implies(z3.And(0 <= i, i < nz), z3.And(
                fre(i) == z3.If(i == 0, T.to_real(x0.re), fre(i - 1) + T.to_real(xi.re)),
                fim(i) == z3.If(i == 0, T.to_real(x0.im), fim(i - 1) + T.to_real(xi.im)))), patterns=[fre(i)]))
            c.fact(z3.ForAll([i], z3.Implies(z3.And(0 <= i, i < nz),
                                             fim(i) == z3.If(i == 0, T.to_real(x0.im), fim(i - 1) + T.to_real(xi.im))),
                             patterns=[fim(i)]))
            f = lambda j: T.Cx(fre(T.to_int_term(j)), fim(T.to_int_term(j)))
        else:
            g = T.fresh_fn('cumsum' if kind == 'sum' else 'cumtrapz', T.I, sort)
            conv = T.to_int_term if sort == T.I else T.to_real
            if kind == 'sum':
                step = g(i - 1) + conv(rd(i))
                base = conv(rd(0))
            elif kind[0] == 'trapz':
                dx = T.to_real(kind[1])
                step = g(i - 1) + T.to_real(T.sdiv(T.smul(dx, T.sadd(rd(i), rd(i - 1))), 2))
                base = Q(0)
            else:
                xs = A.to_carr(kind[1]).reader()
                step = g(i - 1) + T.to_real(T.sdiv(T.smul(T.ssub(xs(i), xs(i - 1)), T.sadd(rd(i), rd(i - 1))), 2))
                base = Q(0)
            c.fact(z3.ForAll([i], z3.Implies(z3.And(0 <= i, i < nz), g(i) == z3.If(i == 0, base, step)), patterns=[g(i)]))
            f = lambda j: N(g(T.to_int_term(j)))
        c.assumed.append('numpy.cumsum' if kind == 'sum' else 'scipy.integrate.cumulative_trapezoid')
        c.cache[key] = f
        return f, n

    def _rows(self, x, axis):
        """For a 2-d closure array and a reduction axis, return (row_view(j), n_other, n_red)."""
        x = A.to_carr(x)
        if len(x.shape) != 2:
            raise EngineError('reduction over %d-d closure array' % len(x.shape))
        if axis == 1:
            return (lambda r: x[r, :]), x.shape[0], x.shape[1]
        return (lambda r: x[:, r]), x.shape[1], x.shape[0]

    @reg('numpy.cumsum')
    def np_cumsum(self, x, axis=None, dtype=None, out=None):
        from .lib import dtype_name
        x = self.asarray(x)
        nd = len(x.shape)
        ax = _axis(axis, nd)
        rdt = dtype_name(dtype, None) or ('int' if x.dtype == 'bool' else x.dtype)
        if isinstance(x, BArr):
            src = x.a
            if ax is None:
                src = src.reshape(-1)
                ax = 0
            res = np.empty(src.shape, dtype=object)
            it = np.moveaxis(src, ax, -1)
            ot = np.moveaxis(res, ax, -1)
            for ix in np.ndindex(*it.shape[:-1]):
                acc = None
                for k in range(it.shape[-1]):
                    v = T.cast_scalar(it[ix + (k,)], rdt)
                    acc = v if acc is None else T.sadd(acc, v)
                    ot[ix + (k,)] = acc
            r = BArr(res, rdt)
        else:
            if nd == 1:
                f, n = self._prefix(x, 'sum')
                r = CArr.from_fn(lambda i: T.cast_scalar(f(i), rdt), (n,), rdt)
            elif nd == 2 and ax is not None:
                r = self._scan2d(x, ax, 'sum', rdt)
            else:
                raise EngineError('cumsum on %d-d closure array axis=%r' % (nd, axis))
        if out is not None:
            if self.itp.store_hook:
                self.itp.store_hook(out)
            self.lib.setitem(out, (slice(None),) * len(out.shape), r)
            return out
        return r

    def _scan2d(self, x, ax, kind, rdt):
        """cumulative scan along axis of a 2-d closure array: one uninterpreted g(row, i) with the row as parameter."""
        x = A.to_carr(x)
        rd = x.reader()
        n_red = x.shape[ax]
        key = ('scan2', str(kind[0] if isinstance(kind, tuple) else kind), ax, A.canon_key(x),
               A.canon_key(kind[1]) if isinstance(kind, tuple) else None)
        c = ctx()
        if key not in c.cache:
            sort = T.I if rdt == 'int' and kind == 'sum' else T.R
            g = T.fresh_fn('cumsum2' if kind == 'sum' else 'cumtrapz2', T.I, T.I, sort)
            r_, i = z3.Ints('sr si')
            el = (lambda r, j: rd(r, j)) if ax == 1 else (lambda r, j: rd(j, r))
            conv = T.to_int_term if sort == T.I else T.to_real
            if kind == 'sum':
                step = g(r_, i - 1) + conv(el(r_, i))
                base = conv(el(r_, 0))
            else:
                dx = T.to_real(kind[1])
                step = g(r_, i - 1) + T.to_real(T.sdiv(T.smul(dx, T.sadd(el(r_, i), el(r_, i - 1))), 2))
                base = Q(0)
            c.fact(z3.ForAll([r_, i], z3.Implies(z3.And(0 <= i, i < T.to_int_term(n_red)),
                                                 g(r_, i) == z3.If(i == 0, base, step)), patterns=[g(r_, i)]))
            c.assumed.append('numpy.cumsum(axis)')
            c.cache[key] = g
        g = c.cache[key]
        if ax == 1:
            return CArr.from_fn(lambda r, j: N(g(T.to_int_term(r), T.to_int_term(j))), x.shape, rdt if kind == 'sum' else 'float')
        return CArr.from_fn(lambda j, r: N(g(T.to_int_term(r), T.to_int_term(j))), x.shape, rdt if kind == 'sum' else 'float')

    @reg('numpy.sum')
    def np_sum(self, x, axis=None, dtype=None):
        x = self.asarray(x)
        nd = len(x.shape)
        ax = _axis(axis, nd)
        rdt = 'int' if x.dtype == 'bool' else x.dtype
        zero = T.cast_scalar(0, rdt)
        if isinstance(x, BArr):
            if ax is None:
                acc = zero
                for v in x.a.reshape(-1).tolist():
                    acc = T.sadd(acc, T.cast_scalar(v, rdt))
                return acc
            it = np.moveaxis(x.a, ax, -1)
            res = np.empty(it.shape[:-1], dtype=object)
            for ix in np.ndindex(*it.shape[:-1]):
                acc = zero
                for k in range(it.shape[-1]):
                    acc = T.sadd(acc, T.cast_scalar(it[ix + (k,)], rdt))
                res[ix] = acc
            return BArr(res, rdt) if res.ndim else N(res[()])
        if nd == 1:
            f, n = self._prefix(x, 'sum')
            return T.site(T.sgt(n, 0), T.cast_scalar(f(T.ssub(n, 1)), rdt), zero)
        if nd == 2 and ax is not None:
            sc = self._scan2d(x, ax, 'sum', rdt)
            n_red = x.shape[ax]
            rd = sc.reader()
            if ax == 1:
                return CArr.from_fn(lambda r: T.site(T.sgt(n_red, 0), rd(r, T.ssub(n_red, 1)), zero), (x.shape[0],), rdt)
            return CArr.from_fn(lambda r: T.site(T.sgt(n_red, 0), rd(T.ssub(n_red, 1), r), zero), (x.shape[1],), rdt)
        raise EngineError('sum over %d-d closure array axis=%r' % (nd, axis))

    @reg('numpy.mean')
    def np_mean(self, x, axis=None, dtype=None):
        from .lib import dtype_name
        x = self.asarray(x)
        if dtype is not None and dtype_name(dtype, 'float') not in ('float',):
            raise EngineError('numpy.mean(dtype=%s) not modelled' % dtype_name(dtype, None))       # (an integer accumulator truncates)
        s = self.np_sum(x, axis=axis)
        nd = len(x.shape)
        ax = _axis(axis, nd)
        if ax is None:
            cnt = 1
            for d in x.shape:
                cnt = T.smul(cnt, d)
        else:
            cnt = x.shape[ax]
        if isinstance(cnt, int) and cnt == 0:
            raise EngineError('mean of empty array (nan)')
        if T.is_z3(cnt):
            self.itp.oblige('mean-of-nonempty', T.sgt(cnt, 0))
        if is_arr(s):
            return emap(lambda v: T.sdiv(v, cnt), 'complex' if s.dtype == 'complex' else 'float', s)
        return T.sdiv(s, cnt)

    def _reduce_extreme(self, x, axis, is_max):
        x = self.asarray(x)
        nd = len(x.shape)
        ax = _axis(axis, nd)
        if x.dtype == 'complex':
            raise EngineError('max/min of complex array')
        pick = (lambda a, b: T.site(T.sgt(b, a), b, a)) if is_max else (lambda a, b: T.site(T.slt(b, a), b, a))
        if isinstance(x, BArr):
            def red(vals):
                if not vals:
                    raise PyExc('ValueError', 'zero-size array to reduction operation which has no identity')
                acc = vals[0]
                for v in vals[1:]:
                    acc = pick(acc, v)
                return acc
            if ax is None:
                return red(x.a.reshape(-1).tolist())
            it = np.moveaxis(x.a, ax, -1)
            res = np.empty(it.shape[:-1], dtype=object)
            for ix in np.ndindex(*it.shape[:-1]):
                res[ix] = red([it[ix + (k,)] for k in range(it.shape[-1])])
            return BArr(res, x.dtype) if res.ndim else N(res[()])
        if nd == 1:
            return self._extreme1(x, is_max)
        if nd == 2 and ax is not None:
            return self._extreme2(x, ax, is_max)
        if nd == 2 and ax is None:
            raise EngineError('global extreme of 2-d closure array')
        raise EngineError('extreme of %d-d closure array' % nd)

    def _extreme1(self, x, is_max):
        x = A.to_carr(x)
        n = x.shape[0]
        rd = x.reader()
        key = ('ext', is_max, A.canon_key(x))
        c = ctx()
        if key in c.cache:
            return c.cache[key]
        if not self.itp.fork(T.sgt(n, 0), 'nonempty'):
            raise PyExc('ValueError', 'zero-size array to reduction operation which has no identity')
        sort = T.sort_of_dtype(x.dtype if x.dtype != 'bool' else 'int')
        m = T.fresh('amax' if is_max else 'amin', sort)
        w = T.fresh('wit', T.I)
        i = z3.Int('ei')
        xi = zterm(rd(i))
        c.fact(forall([i], z3.Implies(rng(i, 0, n), (xi <= m) if is_max else (xi >= m)), xi))
        c.fact(z3.And(0 <= w, w < T.to_int_term(n), zterm(rd(w)) == m))
        c.assumed.append('numpy.max/min')
        c.cache[key] = N(m)
        return N(m)

    def _extreme2(self, x, ax, is_max):
        x = A.to_carr(x)
        rd = x.reader()
        n_red = x.shape[ax]
        n_oth = x.shape[1 - ax]
        key = ('ext2', is_max, ax, A.canon_key(x))
        c = ctx()
        if key not in c.cache:
            self.itp.oblige('extreme-of-nonempty-axis', T.sgt(n_red, 0))
            sort = T.sort_of_dtype(x.dtype if x.dtype != 'bool' else 'int')
            m = T.fresh_fn('amax2' if is_max else 'amin2', T.I, sort)
            w = T.fresh_fn('wit2', T.I, T.I)
            r_, i = z3.Ints('er ei')
            el = (lambda r, j: zterm(rd(r, j))) if ax == 1 else (lambda r, j: zterm(rd(j, r)))
            e = el(r_, i)
            c.fact(forall([r_, i], z3.Implies(z3.And(rng(i, 0, n_red), rng(r_, 0, n_oth)), (e <= m(r_)) if is_max else (e >= m(r_))), e))
            c.fact(z3.ForAll([r_], z3.Implies(rng(r_, 0, n_oth), z3.And(0 <= w(r_), w(r_) < T.to_int_term(n_red), el(r_, w(r_)) == m(r_))),
                             patterns=[m(r_)]))
            c.assumed.append('numpy.max/min(axis)')
            c.cache[key] = m
            c.cache[('ext2-wit',) + key[1:]] = w
        m = c.cache[key]
        return CArr.from_fn(lambda r: N(m(T.to_int_term(r))), (n_oth,), x.dtype)

    def extreme_witness(self, x, axis, is_max):
        """Index (per row) at which the max/min along `axis` of a 2-d closure array is attained (proof hint for contracts)."""
        self._extreme2(x, axis, is_max)
        w = ctx().cache[('ext2-wit', is_max, axis, A.canon_key(A.to_carr(x)))]
        return lambda r: N(w(T.to_int_term(r)))

    @reg('numpy.max', 'numpy.amax')
    def np_max(self, x, axis=None):
        return self._reduce_extreme(x, axis, True)

    @reg('numpy.min', 'numpy.amin')
    def np_min(self, x, axis=None):
        return self._reduce_extreme(x, axis, False)

    def _argext(self, x, axis, is_max):
        x = self.asarray(x)
        nd = len(x.shape)
        ax = _axis(axis, nd)
        if isinstance(x, BArr):
            if x.dtype == 'complex':
                better = lambda a, b: _cx_lex_gt(a, b) if is_max else _cx_lex_gt(b, a)
            else:
                better = (lambda a, b: T.sgt(a, b)) if is_max else (lambda a, b: T.slt(a, b))

            def red(vals):
                if not vals:
                    raise PyExc('ValueError', 'attempt to get argmax of an empty sequence')
                best = 0
                for k in range(1, len(vals)):
                    if self.itp.fork(better(vals[k], vals[best]), 'argext'):
                        best = k
                return best
            if ax is None:
                return red(x.a.reshape(-1).tolist())
            it = np.moveaxis(x.a, ax, -1)
            res = np.empty(it.shape[:-1], dtype=object)
            for ix in np.ndindex(*it.shape[:-1]):
                res[ix] = red([it[ix + (k,)] for k in range(it.shape[-1])])
            return BArr(res, 'int') if res.ndim else N(res[()])
        if x.dtype == 'complex':
            raise EngineError('argmax of complex closure array')
        if nd == 1:
            n = x.shape[0]
            rd = A.to_carr(x).reader()
            key = ('argext', is_max, A.canon_key(x))
            c = ctx()
            if key in c.cache:
                return c.cache[key]
            if not self.itp.fork(T.sgt(n, 0), 'nonempty'):
                raise PyExc('ValueError', 'attempt to get argmax of an empty sequence')
            w = T.fresh('argmax' if is_max else 'argmin', T.I)
            i = z3.Int('ai')
            xi, xw = zterm(rd(i)), zterm(rd(w))
            c.fact(z3.And(0 <= w, w < T.to_int_term(n)))
            c.fact(forall([i], z3.Implies(rng(i, 0, n), z3.And((xi <= xw) if is_max else (xi >= xw),
                                                               z3.Implies(i < w, (xi < xw) if is_max else (xi > xw)))), xi))
            c.assumed.append('numpy.argmax/argmin')
            c.cache[key] = N(w)
            return N(w)
        if nd == 2 and ax is not None:
            rd = A.to_carr(x).reader()
            n_red, n_oth = x.shape[ax], x.shape[1 - ax]
            key = ('argext2', is_max, ax, A.canon_key(x))
            c = ctx()
            if key not in c.cache:
                self.itp.oblige('argext-of-nonempty-axis', T.sgt(n_red, 0))
                w = T.fresh_fn('argmax2' if is_max else 'argmin2', T.I, T.I)
                r_, i = z3.Ints('ar ai')
                el = (lambda r, j: zterm(rd(r, j))) if ax == 1 else (lambda r, j: zterm(rd(j, r)))
                e, ew = el(r_, i), el(r_, w(r_))
                c.fact(z3.ForAll([r_], z3.Implies(rng(r_, 0, n_oth), z3.And(0 <= w(r_), w(r_) < T.to_int_term(n_red))), patterns=[w(r_)]))
                c.fact(forall([r_, i], z3.Implies(z3.And(rng(r_, 0, n_oth), rng(i, 0, n_red)),
                                                  z3.And((e <= ew) if is_max else (e >= ew),
                                                         z3.Implies(i < w(r_), (e < ew) if is_max else (e > ew)))), e))
                c.assumed.append('numpy.argmax/argmin(axis)')
                c.cache[key] = w
            w = c.cache[key]
            return CArr.from_fn(lambda r: N(w(T.to_int_term(r))), (n_oth,), 'int')
        raise EngineError('argmax/argmin of %d-d closure array' % nd)

    @reg('numpy.argmax')
    def np_argmax(self, x, axis=None):
        return self._argext(x, axis, True)

    @reg('numpy.argmin')
    def np_argmin(self, x, axis=None):
        return self._argext(x, axis, False)

    @reg('numpy.any')
    def np_any(self, x):
        x = self.asarray(x)
        if isinstance(x, BArr):
            return T.sor(*[T.truthy(v) for v in x.a.reshape(-1).tolist()]) if x.a.size else False
        return self._quant_reduce(x, True)

    def _quant_reduce(self, x, is_any):
        """any()/all() of a 1-d closure array: a fresh boolean e with  e <-> exists i. x[i]  (any)  /  e <-> forall i. x[i]  (all);
        the existential direction through a fresh witness index"""
        if len(x.shape) != 1:
            raise EngineError('any()/all() of an n-d closure array')
        cx = A.to_carr(x)
        rd = cx.reader()
        n = T.to_int_term(cx.shape[0])
        e = T.fresh('any' if is_any else 'all', T.B)
        w = T.fresh('anyw', T.I)
        i = z3.Int('any_i')
        tr = lambda t: T.to_bool_term(T.truthy(rd(t)))
        c = ctx()
        if is_any:
            c.fact(z3.Implies(e, z3.And(0 <= w, w < n, tr(w))))
            c.fact(z3.Implies(z3.Not(e), z3.ForAll([i], z3.Implies(z3.And(0 <= i, i < n), z3.Not(tr(i))))))
        else:
            c.fact(z3.Implies(z3.Not(e), z3.And(0 <= w, w < n, z3.Not(tr(w)))))
            c.fact(z3.Implies(e, z3.ForAll([i], z3.Implies(z3.And(0 <= i, i < n), tr(i)))))
        c.assumed.append('numpy.any/all')
        return N(e)

    def _unused_any(self):
        raise EngineError('any() of closure array')

    @reg('numpy.all')
    def np_all(self, x):
        x = self.asarray(x)
        if isinstance(x, BArr):
            return T.sand(*[T.truthy(v) for v in x.a.reshape(-1).tolist()]) if x.a.size else True
        return self._quant_reduce(x, False)


def _cx_lex_gt(a, b):
    a, b = T.as_cx(a), T.as_cx(b)
    return T.sor(T.sgt(a.re, b.re), T.sand(T.seq(a.re, b.re), T.sgt(a.im, b.im)))


def A_dtype(v):
    if is_arr(v):
        return v.dtype
    return T.dtype_of_scalar(v)


def _flatten(x):
    if isinstance(x, (list, tuple)):
        for e in x:
            yield from _flatten(e)
    elif isinstance(x, BArr):
        for e in x.a.reshape(-1).tolist():
            yield e
    else:
        yield x

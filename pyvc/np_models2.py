"""Structural NumPy models, SciPy models and opaque numerical kernels (second half of the library contracts)."""
import ast
from fractions import Fraction

import numpy as np
import z3

from . import terms as T
from . import arrays as A
from .terms import EngineError, PyExc, N, ctx, Q
from .arrays import BArr, CArr, is_arr, emap
from .np_util import reg, fresh_array_fn, find_pattern, forall, rng, zterm, _axis

SL = slice(None)


class Structural:
    # ----------------------------------------------------------------------------------------- helpers
    def _gi(self, x, idx):
        return self.lib.getitem(x, idx)

    def _all_b(self, *xs):
        return all(isinstance(x, BArr) for x in xs)

    def _len1(self, x):
        return x.shape[0]

    # -------------------------------------------------------------------------------------- structure
    @reg('numpy.append')
    def np_append(self, arr, values, axis=None):
        if axis is not None:
            return self.np_concatenate([self.asarray(arr), self.asarray(values)], axis=axis)
        return self.np_concatenate([self.np_ravel(self.asarray(arr)), self.np_ravel(self.asarray(values))], axis=0)

    @reg('numpy.concatenate')
    def np_concatenate(self, seq_, axis=0):
        parts = [self.asarray(p) if not is_arr(p) else p for p in seq_]
        if not parts:
            raise PyExc('ValueError', 'need at least one array to concatenate')
        nd = len(parts[0].shape)
        if any(len(p.shape) != nd for p in parts):
            raise PyExc('ValueError', 'all the input array dimensions must match')
        if nd == 0:
            raise PyExc('ValueError', 'zero-dimensional arrays cannot be concatenated')
        ax = _axis(axis, nd)
        dt = T.promote(*[p.dtype for p in parts])
        if self._all_b(*parts):
            try:
                r = np.concatenate([p.a for p in parts], axis=ax)
            except ValueError as e:
                raise PyExc('ValueError', str(e))
            out = np.empty(r.shape, dtype=object)
            for ix in np.ndindex(*r.shape):
                out[ix] = T.cast_scalar(r[ix], dt)
            return BArr(out, dt)
        if ax != 0:
            raise EngineError('closure concatenate along axis %d' % ax)
        cs = [A.to_carr(p) for p in parts]
        rds = [c.reader() for c in cs]
        lens = [c.shape[0] for c in cs]
        offs = [0]
        for l in lens:
            offs.append(T.sadd(offs[-1], l))
        rest = cs[0].shape[1:]

        def get(i, *more):
            out = None
            for k in range(len(cs) - 1, -1, -1):
                v = T.cast_scalar(rds[k](T.ssub(i, offs[k]), *more), dt)
                out = v if out is None else T.site(T.slt(i, offs[k + 1]), v, out)
            return out
        return CArr.from_fn(get, (offs[-1],) + tuple(rest), dt)

    @reg('numpy.diff')
    def np_diff(self, x, n=1, axis=-1, prepend=None):
        x = self.asarray(x)
        if n != 1:
            raise EngineError('diff n != 1')
        nd = len(x.shape)
        ax = _axis(axis, nd)
        if prepend is not None:
            if nd == 1:
                pre = self.asarray([prepend]) if not is_arr(prepend) else prepend
                x = self.np_concatenate([pre, x])
            elif nd == 2 and ax == 1 and not is_arr(prepend):
                col = self.full((x.shape[0], 1), prepend, x.dtype if x.dtype != 'bool' else 'int')
                x = self._concat_axis1(col, x)
            else:
                raise EngineError('diff prepend on %d-d' % nd)
        hi = tuple([SL] * ax + [slice(1, None)] + [SL] * (nd - ax - 1))
        lo = tuple([SL] * ax + [slice(None, -1)] + [SL] * (nd - ax - 1))
        if x.dtype == 'bool':
            return self.lib.compare(ast.NotEq, self._gi(x, hi), self._gi(x, lo))
        return self.lib.binop(ast.Sub, self._gi(x, hi), self._gi(x, lo))

    def _concat_axis1(self, a, b):
        if self._all_b(a, b):
            return self.np_concatenate([a, b], axis=1)
        ca, cb = A.to_carr(a), A.to_carr(b)
        ra, rb = ca.reader(), cb.reader()
        na = ca.shape[1]
        dt = T.promote(ca.dtype, cb.dtype)
        return CArr.from_fn(lambda r, j: T.site(T.slt(j, na), T.cast_scalar(ra(r, j), dt), T.cast_scalar(rb(r, T.ssub(j, na)), dt)),
                            (ca.shape[0], T.sadd(na, cb.shape[1])), dt)

    @reg('numpy.ediff1d')
    def np_ediff1d(self, x, to_end=None, to_begin=None):
        x = self.asarray(x)
        if len(x.shape) != 1:
            x = self.np_ravel(x)
        d = self.np_diff(x)
        parts = []
        if to_begin is not None:
            tb = self.asarray(to_begin if is_arr(to_begin) or isinstance(to_begin, (list, tuple)) else [to_begin])
            # numpy requires to_begin to be castable to the array dtype (same_kind)
            if _rank(tb.dtype) > _rank(d.dtype):
                raise PyExc('TypeError', 'dtype of `to_begin` must be compatible with input `ary` under the `same_kind` rule.')
            parts.append(self.np_array(tb, dtype=d.dtype))
        parts.append(d)
        if to_end is not None:
            te = self.asarray(to_end if is_arr(to_end) or isinstance(to_end, (list, tuple)) else [to_end])
            parts.append(self.np_array(te, dtype=d.dtype))
        return self.np_concatenate(parts) if len(parts) > 1 else d

    @reg('numpy.insert')
    def np_insert(self, arr, obj, values, axis=None):
        arr = self.asarray(arr)
        nd = len(arr.shape)
        if axis is None and nd != 1:
            arr = self.np_ravel(arr)
            nd = 1
        ax = 0 if axis is None else _axis(axis, nd)
        if ax != 0:
            raise EngineError('insert along axis %d' % ax)
        if is_arr(obj) or isinstance(obj, (list, tuple)):
            raise EngineError('insert with sequence of positions')
        n = arr.shape[0]
        pos = N(obj)
        if T.is_real_like(pos):
            raise PyExc('IndexError', 'insert position must be an integer')
        if isinstance(pos, int) and isinstance(n, int):
            if not -n <= pos <= n:
                raise PyExc('IndexError', 'index %d is out of bounds for axis 0 with size %d' % (pos, n))
            if pos < 0:
                pos += n
        elif isinstance(pos, int) and pos < 0:
            pos = T.sadd(n, pos)
            self.itp.oblige('insert-position-in-range', T.sge(pos, 0))
        else:
            self.itp.oblige('insert-position-in-range', T.sand(T.sle(0, pos), T.sle(pos, n)))
        dt = arr.dtype
        if nd == 1:
            if is_arr(values):
                vals = self.np_array(values, dtype=dt)
                if len(vals.shape) == 0:
                    vals = self.np_reshape(vals, 1)
            else:
                vals = self.np_array([T.cast_scalar(values, dt)], dtype=dt)
            return self.np_concatenate([self._gi(arr, slice(None, pos)), vals, self._gi(arr, slice(pos, None))])
        # 2-d, axis 0: insert one row
        if is_arr(values):
            row = self.np_array(values, dtype=dt)
            if len(row.shape) == 1:
                row = self._gi(row, (None, SL))
        else:
            row = self.full((1,) + tuple(arr.shape[1:]), values, dt)
        return self.np_concatenate([self._gi(arr, slice(None, pos)), row, self._gi(arr, slice(pos, None))], axis=0)

    @reg('numpy.delete')
    def np_delete(self, arr, obj):
        arr = self.asarray(arr)
        if not isinstance(arr, BArr) or arr.a.ndim != 1:
            raise EngineError('delete on closure / nd array')
        idxs = obj if isinstance(obj, (list, tuple)) else (obj.a.tolist() if isinstance(obj, BArr) else [obj])
        idxs = [T.concrete_int(i, 'delete index') for i in idxs]
        n = arr.a.shape[0]
        for i in idxs:
            if not -n <= i < n:
                raise PyExc('IndexError', 'index %d is out of bounds for axis 0 with size %d' % (i, n))
        drop = {i % n for i in idxs} if n else set()
        keep = [k for k in range(n) if k not in drop]
        return BArr(arr.a[keep], arr.dtype)

    @reg('numpy.take')
    def np_take(self, a, indices, axis=None):
        a = self.asarray(a)
        if axis is not None:
            raise EngineError('take with axis')
        if len(a.shape) != 1:
            a = self.np_ravel(a)
        if isinstance(indices, (list, tuple)):
            if not indices:
                return A.bfull((0,), 0, a.dtype)
            indices = self.np_array(list(indices))
        if not is_arr(indices):
            return self.lib.getitem(a, indices)
        return self.lib.getitem(a, indices)

    @reg('numpy.put')
    def np_put(self, a, ind, v):
        if not is_arr(a):
            raise PyExc('TypeError', 'put: argument 1 must be numpy.ndarray')
        if self.itp.store_hook:
            self.itp.store_hook(a)
        ind = self.asarray(ind)
        v = self.asarray(v) if not T.is_scalar(v) else self.np_array([v])
        if len(a.shape) != 1:
            raise EngineError('put into nd array')
        if len(ind.shape) != 1:
            raise EngineError('put with nd index')
        n = a.shape[0]
        if v.dtype == 'complex' and a.dtype != 'complex':
            raise PyExc('TypeError', 'cannot cast complex to %s' % a.dtype)
        if self._all_b(a, ind, v):
            m = ind.a.shape[0]
            lv = v.a.shape[0]
            if m and lv == 0:
                raise PyExc('IndexError', 'cannot replace elements of an empty array')
            for k in range(m):
                j = N(ind.a[k])
                val = T.cast_scalar(v.a[k % lv], a.dtype)
                if isinstance(j, int):
                    if not -n <= j < n:
                        raise PyExc('IndexError', 'index %d is out of bounds for axis 0 with size %d' % (j, n))
                    a.a[j] = val
                else:
                    jj = self.lib.check_index(j, n)
                    for q in range(n):
                        a.a[q] = T.site(T.seq(jj, q), val, a.a[q])
            return None
        if isinstance(a, BArr):
            raise EngineError('put of symbolic-length data into bounded array')
        # closure: requires injective (strictly ascending) index array; inverse index as uninterpreted function
        ci, cv = A.to_carr(ind), A.to_carr(v)
        ri, rv = ci.reader(), cv.reader()
        m = ci.shape[0]
        self.itp.oblige('put-values-length', T.seq(cv.shape[0], m))
        k1, k2 = T.fresh('pk1', T.I), T.fresh('pk2', T.I)
        self.itp.oblige('put-indices-ascending', T.simplies(T.sand(T.sle(0, k1), T.slt(k1, k2), T.slt(k2, m)), T.slt(ri(k1), ri(k2))))
        self.itp.oblige('put-indices-in-range', T.simplies(T.sand(T.sle(0, k1), T.slt(k1, m)), T.sand(T.sle(0, ri(k1)), T.slt(ri(k1), n))))
        inv = T.fresh_fn('putinv', T.I, T.I)
        kk = z3.Int('pk')
        c = ctx()
        ik = zterm(ri(kk))
        c.fact(forall([kk], z3.Implies(rng(kk, 0, m), inv(ik) == kk), ik))
        c.assumed.append('numpy.put')

        def val(b):
            j = N(inv(T.to_int_term(b)))
            return j
        region = lambda b: T.sand(T.sle(0, val(b)), T.slt(val(b), m), T.seq(ri(val(b)), b))
        a.store(region, lambda b: rv(val(b)))
        return None

    @reg('numpy.pad')
    def np_pad(self, x, pad_width, mode='constant', constant_values=0):
        x = self.asarray(x)
        if mode != 'constant' or len(x.shape) != 1:
            raise EngineError('pad mode/rank')
        if isinstance(pad_width, (list, tuple)) and len(pad_width) == 2 and not isinstance(pad_width[0], (list, tuple)):
            before, after = pad_width
        else:
            raise EngineError('pad_width form')
        before, after = N(before), N(after)
        for p in (before, after):
            if T.is_real_like(p):
                raise PyExc('TypeError', '`pad_width` must be of integral type.')
            if isinstance(p, int) and p < 0:
                raise PyExc('ValueError', "index can't contain negative values")
            if T.is_z3(p):
                self.itp.oblige('pad-width-non-negative', T.sge(p, 0))
        dt = x.dtype
        return self.np_concatenate([self.full((before,), constant_values, dt), x, self.full((after,), constant_values, dt)])

    @reg('numpy.flip')
    def np_flip(self, x, axis=None):
        x = self.asarray(x)
        nd = len(x.shape)
        axes = range(nd) if axis is None else [_axis(axis, nd)]
        idx = [SL] * nd
        for a_ in axes:
            idx[a_] = slice(None, None, -1)
        return self._gi(x, tuple(idx))

    @reg('numpy.flipud')
    def np_flipud(self, x):
        return self.np_flip(x, axis=0)

    @reg('numpy.transpose')
    def np_transpose(self, x):
        x = self.asarray(x)
        if isinstance(x, BArr):
            return BArr(x.a.T, x.dtype, x.origin)
        nd = len(x.shape)
        axes = []
        for ax in x.axes:
            if ax[0] == 'fix':
                axes.append(ax)
            else:
                axes.append(('ax', nd - 1 - ax[1], ax[2], ax[3]))
        return CArr(x.buf, tuple(reversed(x.shape)), axes)

    @reg('numpy.ravel')
    def np_ravel(self, x):
        x = self.asarray(x)
        if len(x.shape) == 1:
            return self.np_array(x)
        if isinstance(x, BArr):
            return BArr(x.a.reshape(-1).copy(), x.dtype)
        raise EngineError('ravel of nd closure array')

    @reg('numpy.reshape')
    def np_reshape(self, x, shape):
        x = self.asarray(x)
        shp = self._shape_arg(shape)
        if isinstance(x, BArr) and all(isinstance(s, int) for s in shp):
            try:
                return BArr(x.a.reshape(shp), x.dtype, x.origin)
            except ValueError as e:
                raise PyExc('ValueError', str(e))
        # closure: only dropping / adding singleton dimensions
        cx = A.to_carr(x)
        non1 = [k for k, s in enumerate(cx.shape) if not (isinstance(s, int) and s == 1)]
        tgt_non1 = [k for k, s in enumerate(shp) if not (isinstance(s, int) and s == 1)]
        if len(non1) != len(tgt_non1):
            raise EngineError('general reshape of closure array')
        for a_, b_ in zip(non1, tgt_non1):
            sd = A.same_dim(cx.shape[a_], shp[b_])
            if sd is False:
                raise PyExc('ValueError', 'cannot reshape array')
            if sd is None:
                self.itp.oblige('reshape-size', T.seq(cx.shape[a_], shp[b_]))
        rd = cx.reader()
        nd_old = len(cx.shape)

        def get(*i):
            old = [0] * nd_old
            for a_, b_ in zip(non1, tgt_non1):
                old[a_] = i[b_]
            return rd(*old)
        return CArr.from_fn(get, shp, cx.dtype)

    def _tri(self, x, k, lower):
        x = self.asarray(x)
        k = T.concrete_int(k)
        if len(x.shape) == 1:
            n = x.shape[0]
            x = self._gi(x, (None, SL))           # broadcast rows (numpy: tril of 1-d gives (n, n))
            shape = (n, n)
        else:
            shape = tuple(x.shape)
        rd = A.to_carr(x).reader()
        b1 = len(x.shape) == 2 and isinstance(x.shape[0], int) and x.shape[0] == 1 and not (isinstance(shape[0], int) and shape[0] == 1)
        zero = T.cast_scalar(0, x.dtype)

        def get(i, j):
            keep = T.sle(j, T.sadd(i, k)) if lower else T.sge(j, T.sadd(i, k))
            return T.site(keep, rd(0 if b1 else i, j), zero)
        r = CArr.from_fn(get, shape, x.dtype)
        return A.concretize(r) if all(isinstance(s, int) for s in shape) else r

    @reg('numpy.tril')
    def np_tril(self, x, k=0):
        return self._tri(x, k, True)

    @reg('numpy.triu')
    def np_triu(self, x, k=0):
        return self._tri(x, k, False)

    @reg('numpy.outer')
    def np_outer(self, a, b):
        a, b = self.asarray(a), self.asarray(b)
        if len(a.shape) != 1 or len(b.shape) != 1:
            raise EngineError('outer of nd arrays')
        return self.lib.binop(ast.Mult, self._gi(a, (SL, None)), self._gi(b, (None, SL)))

    @reg('numpy.dot')
    def np_dot(self, a, b):
        a, b = self.asarray(a), self.asarray(b)
        if len(a.shape) == 1 and len(b.shape) == 1:
            return self.np_sum(self.lib.binop(ast.Mult, a, b))
        if len(a.shape) == 1 and len(b.shape) == 2:
            return self.np_sum(self.lib.binop(ast.Mult, self._gi(a, (SL, None)), b), axis=0)
        if len(a.shape) == 2 and len(b.shape) == 1:
            return self.np_sum(self.lib.binop(ast.Mult, a, self._gi(b, (None, SL))), axis=1)
        raise EngineError('matrix-matrix dot')

    @reg('ndarray.sort')
    def nd_sort(self, arr, *a, **k):
        if isinstance(arr, BArr) and arr.a.ndim == 1:
            vals = [N(v) for v in arr.a.tolist()]
            # insertion sort with forking comparisons (bounded mode): result is a concrete permutation
            out = []
            for v in vals:
                pos = len(out)
                while pos > 0 and self.itp.fork(T.slt(v, out[pos - 1]), 'sort'):
                    pos -= 1
                out.insert(pos, v)
            if self.itp.store_hook:
                self.itp.store_hook(arr)
            for q, v in enumerate(out):
                arr.a[q] = v
            return None
        return self._sort_closure(arr)

    @reg('numpy.array_equal')
    def np_array_equal(self, a1, a2, equal_nan=False):
        """True iff same shape and all elements equal.  The SAME array object (same buffer and view) is equal to itself; None or a
        non-array-like is unequal; otherwise a fresh boolean e with  e <-> (shapes equal and forall i. a1[i] = a2[i])  (the
        'not equal' direction through a Skolem witness index)."""
        if a1 is None or a2 is None:
            return False
        if a1 is a2:
            return True
        try:
            x, y = self.asarray(a1), self.asarray(a2)
        except (EngineError, PyExc):
            return False
        if isinstance(x, CArr) and isinstance(y, CArr) and x.buf is y.buf and x.same_view(y):
            return True
        if len(x.shape) != len(y.shape):
            return False
        if isinstance(x, BArr) and isinstance(y, BArr):
            if x.a.shape != y.a.shape:
                return False
            return T.sand(*[T.seq(p, q) for p, q in zip(x.a.reshape(-1).tolist(), y.a.reshape(-1).tolist())]) if x.a.size else True
        if len(x.shape) != 1:
            raise EngineError('array_equal of symbolic n-d arrays')
        cx, cy = A.to_carr(x), A.to_carr(y)
        rx, ry = cx.reader(), cy.reader()
        e = T.fresh('arr_eq', T.B)
        n1, n2 = T.to_int_term(cx.shape[0]), T.to_int_term(cy.shape[0])
        i = z3.Int('aeq_i')
        w = T.fresh('aeq_w', T.I)
        c = ctx()
        body = T.to_bool_term(T.seq(rx(i), ry(i)))
        c.fact(z3.Implies(e, z3.And(n1 == n2, z3.ForAll([i], z3.Implies(z3.And(0 <= i, i < n1), body)))))
        c.fact(z3.Implies(z3.Not(e), z3.Or(n1 != n2, z3.And(0 <= w, w < n1, z3.Not(T.to_bool_term(T.seq(rx(w), ry(w))))))))
        c.assumed.append('numpy.array_equal')
        return N(e)

    @reg('numpy.argsort')
    def np_argsort(self, x, axis=-1, kind=None, stable=None):
        """indices that sort a 1-d array ascending; bounded arrays only (stable insertion sort with forking comparisons, so the
        result is a concrete permutation on every path; NumPy's default sort is not stable: ties are forked BOTH ways unless
        kind='stable'/'mergesort' or stable=True is requested)"""
        x = self.asarray(x)
        if not (isinstance(x, BArr) and x.a.ndim == 1):
            raise EngineError('argsort of a symbolic-length or n-d array')
        want_stable = bool(stable) or kind in ('stable', 'mergesort')
        vals = [N(v) for v in x.a.tolist()]
        order = []
        for idx, v in enumerate(vals):
            pos = len(order)
            while pos > 0:
                w = vals[order[pos - 1]]
                if self.itp.fork(T.slt(v, w), 'argsort'):
                    pos -= 1
                elif not want_stable and self.itp.fork(T.seq(v, w), 'argsort-tie') and self.itp.fork(T.fresh('tie', T.B), 'argsort-tie-order'):
                    pos -= 1
                else:
                    break
            order.insert(pos, idx)
        return A.barr_from(order, 'int')

    @reg('numpy.sort')
    def np_sort(self, x, axis=-1):
        x = self.np_array(x)                     # sorted COPY
        self.nd_sort(x)
        return x

    def _sort_closure(self, arr):
        """In-place ascending sort of a 1-d closure array: fresh content with the sortedness/permutation axioms."""
        if len(arr.shape) != 1:
            raise EngineError('sort of nd closure array')
        n = arr.shape[0]
        old = arr.reader()
        s = T.fresh_fn('sorted', T.I, T.sort_of_dtype(arr.dtype))
        fwd = T.fresh_fn('sperm', T.I, T.I)      # sorted position -> original position
        bwd = T.fresh_fn('sinv', T.I, T.I)       # original position -> sorted position
        a_, b_, k = z3.Ints('sa sb sk')
        c = ctx()
        nz = T.to_int_term(n)
        c.fact(z3.ForAll([a_, b_], z3.Implies(z3.And(0 <= a_, a_ < b_, b_ < nz), s(a_) <= s(b_)), patterns=[z3.MultiPattern(s(a_), s(b_))]))
        c.fact(z3.ForAll([k], z3.Implies(rng(k, 0, n), z3.And(0 <= fwd(k), fwd(k) < nz, bwd(fwd(k)) == k, zterm(old(fwd(k))) == s(k))), patterns=[s(k)]))
        ok = zterm(old(k))
        c.fact(forall([k], z3.Implies(rng(k, 0, n), z3.And(0 <= bwd(k), bwd(k) < nz, fwd(bwd(k)) == k, s(bwd(k)) == ok)), ok, [bwd(k)]))
        c.assumed.append('ndarray.sort')
        if self.itp.store_hook:
            self.itp.store_hook(arr)
        arr.store(None, lambda i: N(s(T.to_int_term(i))))
        arr.meta['sorted'] = (s, fwd, bwd)
        c.cache.setdefault('sort-calls', []).append(dict(s=s, fwd=fwd, bwd=bwd, n=n))
        return None

    # --------------------------------------------------------------------------------- interpolation
    @reg('numpy.interp')
    def np_interp(self, x, xp, fp, left=None, right=None):
        xp, fp = self.asarray(xp), self.asarray(fp)
        if isinstance(x, (list, tuple)):
            x = self.np_array(x)
        if len(xp.shape) != 1 or len(fp.shape) != 1:
            raise PyExc('ValueError', 'Data points must be 1-D sequences')
        m = xp.shape[0]
        sd = A.same_dim(m, fp.shape[0])
        if sd is False:
            raise PyExc('ValueError', 'fp and xp are not of the same length.')
        if sd is None:
            self.itp.oblige('interp-xp-fp-same-length', T.seq(m, fp.shape[0]))
        if fp.dtype == 'complex':
            raise EngineError('complex interp')
        if isinstance(m, int) and m == 0:
            raise PyExc('ValueError', 'array of sample points is empty')
        rxp, rfp = A.reader(xp), A.reader(fp)
        if isinstance(m, int):
            def f(q):
                q = T.to_real(q)
                lastx, lastf = rxp(m - 1), T.to_real(rfp(m - 1))
                out = T.site(T.seq(q, lastx), lastf, T.to_real(right) if right is not None else lastf)   # q >= xp[-1]
                for k in range(m - 2, -1, -1):
                    x0, x1, f0, f1 = rxp(k), rxp(k + 1), T.to_real(rfp(k)), T.to_real(rfp(k + 1))
                    lerp = T.sadd(f0, T.sdiv(T.smul(T.ssub(q, x0), T.ssub(f1, f0)), T.ssub(x1, x0)))
                    out = T.site(T.slt(q, x1), lerp, out)
                out = T.site(T.slt(q, rxp(0)), T.to_real(left) if left is not None else T.to_real(rfp(0)), out)
                return out
        else:
            meta = getattr(xp, 'meta', None) or {}
            if not self.itp.fork(T.sgt(m, 0), 'interp-nonempty'):
                raise PyExc('ValueError', 'array of sample points is empty')
            ar = meta.get('arange')
            if ar is not None and N(ar[0]) == 0 and N(ar[1]) == 1:
                def seg_of(q):
                    return T.sfloor(q)
            else:
                seg = T.fresh_fn('iseg', T.R, T.I)
                qv = z3.Real('iq')
                c = ctx()
                mz = T.to_int_term(m)
                c.fact(z3.ForAll([qv], z3.Implies(z3.And(T.to_real(rxp(0)) <= qv, qv < T.to_real(rxp(T.ssub(m, 1)))),
                                                  z3.And(0 <= seg(qv), seg(qv) < mz - 1, T.to_real(rxp(seg(qv))) <= qv,
                                                         qv < T.to_real(rxp(seg(qv) + 1)))), patterns=[seg(qv)]))
                c.assumed.append('numpy.interp(segment search)')

                def seg_of(q):
                    return N(seg(T.to_real(q)))

            def f(q):
                q = T.to_real(q)
                lastx, lastf = rxp(T.ssub(m, 1)), T.to_real(rfp(T.ssub(m, 1)))
                j = seg_of(q)
                x0, x1, f0, f1 = rxp(j), rxp(T.sadd(j, 1)), T.to_real(rfp(j)), T.to_real(rfp(T.sadd(j, 1)))
                lerp = T.sadd(f0, T.sdiv(T.smul(T.ssub(q, x0), T.ssub(f1, f0)), T.ssub(x1, x0)))
                out = T.site(T.sge(q, lastx), T.site(T.seq(q, lastx), lastf, T.to_real(right) if right is not None else lastf), lerp)
                return T.site(T.slt(q, rxp(0)), T.to_real(left) if left is not None else T.to_real(rfp(0)), out)
        if is_arr(x):
            return emap(f, 'float', x)
        return f(x)

    @reg('numpy.searchsorted')
    def np_searchsorted(self, a, v, side='left'):
        a = self.asarray(a)
        if len(a.shape) != 1:
            raise EngineError('searchsorted on nd array')
        if isinstance(v, (list, tuple)):
            v = self.np_array(list(v))
        n = a.shape[0]
        ra = A.reader(a)
        right = side == 'right'
        if isinstance(n, int):
            def f(q):
                cnt = 0
                for k in range(n):
                    cnt = T.sadd(cnt, T.site(T.sle(ra(k), q) if right else T.slt(ra(k), q), 1, 0))
                return cnt
        else:
            s = T.fresh_fn('ssorted', T.R, T.I)
            qv = z3.Real('sq')
            k = z3.Int('sk')
            c = ctx()
            nz = T.to_int_term(n)
            ak = T.to_real(ra(k))
            c.fact(z3.ForAll([qv], z3.And(0 <= s(qv), s(qv) <= nz), patterns=[s(qv)]))
            c.fact(z3.ForAll([qv, k], z3.Implies(rng(k, 0, n), z3.If(k < s(qv), (ak <= qv) if right else (ak < qv),
                                                                      (ak > qv) if right else (ak >= qv))),
                             patterns=[z3.MultiPattern(s(qv), find_pattern(ak, [k]))] if find_pattern(ak, [k]) is not None else None))
            c.assumed.append('numpy.searchsorted')

            def f(q):
                return N(s(T.to_real(q)))
        if is_arr(v):
            return emap(f, 'int', v)
        return f(v)

    # ----------------------------------------------------------------------------------------- scipy
    @reg('scipy.integrate.cumulative_trapezoid')
    def sp_cumtrapz(self, y, x=None, dx=1.0, axis=-1, initial=None):
        y = self.asarray(y)
        nd = len(y.shape)
        ax = _axis(axis, nd)
        if initial is not None and not (T.is_num(N(initial)) and T.fr(N(initial)) == 0):
            raise PyExc('ValueError', '`initial` must be `None` or `0`.')
        if y.dtype == 'complex':
            raise EngineError('complex cumulative_trapezoid')
        if x is not None:
            x = self.asarray(x)
        if isinstance(y, BArr) and (x is None or isinstance(x, BArr)):
            it = np.moveaxis(y.a, ax, -1)
            n = it.shape[-1]
            if n == 0:
                raise PyExc('ValueError', 'At least one point is required along `axis`.')
            res = np.empty(it.shape, dtype=object)
            for ix in np.ndindex(*it.shape[:-1]):
                acc = Q(0)
                res[ix + (0,)] = acc
                for k in range(1, n):
                    h = T.to_real(dx) if x is None else T.ssub(x.a[k], x.a[k - 1])
                    acc = T.sadd(acc, T.sdiv(T.smul(h, T.sadd(it[ix + (k,)], it[ix + (k - 1,)])), 2))
                    res[ix + (k,)] = acc
            res = np.moveaxis(res, -1, ax)
            out = BArr(np.ascontiguousarray(res), 'float')
            if initial is None:
                sl = tuple([SL] * ax + [slice(1, None)] + [SL] * (nd - ax - 1))
                out = BArr(out.a[sl], 'float')
            return out
        if nd == 1:
            kind = ('trapz', dx) if x is None else ('trapzx', x)
            f, n = self._prefix(y, kind, extra=(dx if x is None else x))
            if not self.itp.fork(T.sgt(n, 0), 'cumtrapz-nonempty'):
                raise PyExc('ValueError', 'At least one point is required along `axis`.')
            if initial is None:
                return CArr.from_fn(lambda i: f(T.sadd(i, 1)), (T.ssub(n, 1),), 'float')
            return CArr.from_fn(lambda i: f(i), (n,), 'float')
        if nd == 2 and x is None:
            r = self._scan2d(y, ax, ('trapz', dx), 'float')
            if initial is None:
                sl = tuple([SL] * ax + [slice(1, None)] + [SL] * (nd - ax - 1))
                return self._gi(r, sl)
            return r
        raise EngineError('cumulative_trapezoid on %d-d closure array' % nd)

    @reg('scipy.integrate.trapezoid')
    def sp_trapz(self, y, x=None, dx=1.0, axis=-1):
        y = self.asarray(y)
        if len(y.shape) != 1:
            raise EngineError('trapezoid on nd array')
        n = y.shape[0]
        if isinstance(n, int) and n == 0:
            return Q(0)
        c = self.sp_cumtrapz(y, x=x, dx=dx, initial=0)
        return T.to_real(self._gi(c, -1)) if isinstance(n, int) else T.site(T.sgt(n, 0), A.reader(c)(T.ssub(n, 1)), Q(0))

    @reg('scipy.linalg.toeplitz')
    def sp_toeplitz(self, c, r=None):
        c = self.asarray(c)
        r = self.np_conj(c) if r is None else self.asarray(r)
        rc, rr = A.reader(c), A.reader(r)
        dt = T.promote(c.dtype, r.dtype)
        shape = (c.shape[0], r.shape[0])

        def get(i, j):
            i, j = N(i), N(j)
            if isinstance(i, int) and isinstance(j, int):
                return T.cast_scalar(rc(i - j) if i >= j else rr(j - i), dt)
            return T.site(T.sge(i, j), T.cast_scalar(rc(T.ssub(i, j)), dt), T.cast_scalar(rr(T.ssub(j, i)), dt))
        out = CArr.from_fn(get, shape, dt)
        return A.concretize(out) if all(isinstance(s, int) for s in shape) else out

    @reg('scipy.interpolate.interp1d')
    def sp_interp1d(self, x, y, kind='linear', axis=-1, **kw):
        if kind != 'previous':
            raise EngineError('interp1d kind %r' % kind)
        x, y = self.asarray(x), self.asarray(y)
        ax = _axis(axis, len(y.shape))
        if ax != 0:
            raise EngineError('interp1d axis')
        M = self

        def f(xnew):
            inds = M.np_searchsorted(x, xnew, side='right')
            n = x.shape[0]
            q = T.fresh('ipq', T.I)
            # bounds_error=True: every query must lie in [x[0], x[-1]]
            rq = A.reader(M.asarray(xnew))
            rx = A.reader(x)
            qn = M.asarray(xnew).shape[0]
            M.itp.oblige('interp1d-query-in-range',
                         T.simplies(T.sand(T.sle(0, q), T.slt(q, qn)), T.sand(T.sle(rx(0), rq(q)), T.sle(rq(q), rx(T.ssub(n, 1))))))
            idx = M.lib.binop(ast.Sub, inds, 1)
            idx = emap(lambda j: T.smin2(T.smax2(j, 0), T.ssub(n, 1)), 'int', idx)
            return M.lib.getitem(y, idx)
        return f

    # -------------------------------------------------------------------------------- opaque kernels
    def opaque_array(self, name, key_args, shape, dtype, assumed=None):
        c = ctx()
        key = ('opaque', name, A.canon_key(list(key_args)))
        if key not in c.cache:
            c.cache[key] = fresh_array_fn(name, len(shape), dtype)
            c.assumed.append(assumed or name)
        get = c.cache[key]
        c.cache.setdefault('opaque-calls', []).append((name, list(key_args), shape))
        if all(isinstance(s, int) for s in shape):
            a = np.empty(shape, dtype=object)
            for ix in np.ndindex(*shape):
                a[ix] = get(*ix)
            return BArr(a, dtype)
        return CArr.from_fn(get, shape, dtype)

    def _dft(self, x, n, inverse, name):
        """DFT of a 1-d array zero-padded / truncated to n points.  Exact for n in {1,2,3,4,6,8,12}, otherwise uninterpreted."""
        x = self.asarray(x)
        if len(x.shape) != 1:
            raise EngineError('nd fft')
        m = x.shape[0]
        n = m if n is None else N(n)
        if T.is_real_like(n):
            raise PyExc('TypeError', 'fft length must be an integer')
        if isinstance(n, int) and n < 1:
            raise PyExc('ValueError', 'Invalid number of FFT data points (%d) specified.' % n)
        rx = A.reader(x)
        if isinstance(n, int) and isinstance(m, int) and n in _TWIDDLE_OK:
            out = np.empty((n,), dtype=object)
            for k in range(n):
                acc = T.Cx(Q(0), Q(0))
                for t in range(min(n, m)):
                    w = _twiddle((k * t) % n, n, inverse)
                    acc = T.sadd(acc, T.smul(T.as_cx(rx(t)), w))
                if inverse:
                    acc = T.Cx(T.sdiv(acc.re, n), T.sdiv(acc.im, n))
                out[k] = acc
            return BArr(out, 'complex')
        # uninterpreted: keyed by the (padded / truncated) input
        if isinstance(m, int) and isinstance(n, int):
            padded = self.np_concatenate([x, self.full((n - m,), 0, x.dtype)]) if n > m else self._gi(x, slice(0, n))
        else:
            padded = CArr.from_fn(lambda t: T.site(T.slt(t, m), rx(t), T.cast_scalar(0, x.dtype)), (n,), x.dtype)
        if T.is_z3(n):
            self.itp.oblige('fft-length-positive', T.sge(n, 1))
        return self.opaque_array(name, [padded], (n,), 'complex', assumed='DFT kernel (%s) uninterpreted' % name)

    @reg('numpy.fft.fft')
    def np_fft(self, x, n=None, axis=-1):
        return self._dft(x, n, False, 'dft')

    @reg('numpy.fft.rfft', 'scipy.fft.rfft')
    def np_rfft(self, x, n=None, axis=-1):
        """rfft(x, n) = fft(x, n)[: n//2 + 1] for a real record (numpy discards an imaginary part: not modelled)"""
        xa = self.asarray(x)
        if xa.dtype == 'complex':
            raise EngineError('rfft of a complex array')
        full = self._dft(x, n, False, 'dft')
        nn = full.shape[0]
        half = (nn // 2 + 1) if isinstance(nn, int) else T.sadd(T.sfloordiv(nn, 2), 1)
        return self._gi(full, slice(0, half))

    @reg('numpy.fft.irfft', 'scipy.fft.irfft')
    def np_irfft(self, x, n=None, axis=-1):
        """inverse of rfft: a real array of n points (default 2*(m-1)); uninterpreted kernel of (half spectrum, n)"""
        xa = self.asarray(x)
        if len(xa.shape) != 1:
            raise EngineError('nd irfft')
        m = xa.shape[0]
        nn = N(n) if n is not None else (2 * (m - 1) if isinstance(m, int) else T.smul(2, T.ssub(m, 1)))
        if T.is_real_like(nn):
            raise PyExc('TypeError', 'irfft length must be an integer')
        return self.opaque_array('irfft', [xa, nn], (nn,), 'float', assumed='inverse real DFT kernel (irfft) uninterpreted')

    @reg('numpy.fft.ifft')
    def np_ifft(self, x, n=None, axis=-1):
        x = self.asarray(x)
        if len(x.shape) == 2:
            return self._ifft_rows(x, axis)
        return self._dft(x, n, True, 'idft')

    def _ifft_rows(self, x, axis):
        ax = _axis(axis, 2)
        if ax != 1:
            raise EngineError('ifft along axis 0')
        if isinstance(x, BArr):
            rows = [self._dft(BArr(x.a[r], x.dtype), None, True, 'idft') for r in range(x.a.shape[0])]
            return BArr(np.array([r.a for r in rows], dtype=object).reshape(x.a.shape), 'complex')
        return self.opaque_array('idft_rows', [x], tuple(x.shape), 'complex', assumed='row-wise inverse DFT kernel uninterpreted')

    @reg('scipy.fftpack.fft')
    def sp_fft(self, x, n=None, axis=-1, overwrite_x=False):
        # effect contract (observed on scipy 1.18.1): overwrite_x may destroy x only when x is a complex ndarray
        xa = self.asarray(x)
        if overwrite_x and is_arr(x) and xa.dtype == 'complex' and self.itp.store_hook:
            self.itp.store_hook(x)
        return self._dft(x, n, False, 'dft')

    @reg('scipy.fftpack.ifft')
    def sp_ifft(self, x, n=None, axis=-1, overwrite_x=False):
        return self.np_ifft(x, n=n, axis=axis)

    @reg('numpy.polyfit')
    def np_polyfit(self, x, y, deg):
        x, y = self.asarray(x), self.asarray(y)
        deg = T.concrete_int(deg, 'polyfit degree')
        if deg < 0:
            raise PyExc('ValueError', 'expected deg >= 0')
        n = x.shape[0]
        if isinstance(n, int) and isinstance(x, BArr) and isinstance(y, BArr) and all(T.is_num(N(v)) for v in x.a.tolist()):
            if len(y.shape) != 1 or y.shape[0] != n:
                raise PyExc('TypeError', 'expected x and y to have same length')
            if n < deg + 1:
                raise EngineError('rank-deficient polyfit')
            return self._polyfit_exact([T.fr(N(v)) for v in x.a.tolist()], y, deg)
        cofs = self.opaque_array('polyfit%d' % deg, [x, y], (deg + 1,), 'float', assumed='numpy.polyfit uninterpreted (least-squares normal equations only)')
        # normal equations:  sum_i x_i^j (y_i - p(x_i)) = 0  for j = 0..deg
        rx = A.reader(x)
        ry = A.reader(y)

        def p_at(i):
            acc = Q(0)
            for c_ in range(deg + 1):
                acc = T.sadd(acc, T.smul(cofs.at(c_), T.spow(rx(i), deg - c_)))
            return acc
        for j in range(deg + 1):
            resid = CArr.from_fn(lambda i, j=j: T.smul(T.spow(rx(i), j), T.ssub(ry(i), p_at(i))), (n,), 'float')
            ctx().fact(T.to_bool_term(T.seq(self.np_sum(resid), 0)))
        return cofs

    def _polyfit_exact(self, xs, y, deg):
        """Closed-form least squares over exact rationals: cofs = (X^T X)^-1 X^T y (symbolic y, concrete x)."""
        n = len(xs)
        cols = deg + 1
        X = [[xs[i] ** (deg - c) for c in range(cols)] for i in range(n)]
        G = [[sum(X[i][a] * X[i][b] for i in range(n)) for b in range(cols)] for a in range(cols)]
        # invert G by Gauss-Jordan over Fractions
        aug = [row[:] + [Fraction(int(r == c_)) for c_ in range(cols)] for r, row in enumerate(G)]
        for col in range(cols):
            piv = next((r for r in range(col, cols) if aug[r][col] != 0), None)
            if piv is None:
                raise EngineError('singular normal matrix in polyfit (repeated x)')
            aug[col], aug[piv] = aug[piv], aug[col]
            pv = aug[col][col]
            aug[col] = [v / pv for v in aug[col]]
            for r in range(cols):
                if r != col and aug[r][col] != 0:
                    f = aug[r][col]
                    aug[r] = [v - f * w for v, w in zip(aug[r], aug[col])]
        Ginv = [row[cols:] for row in aug]
        P = [[sum(Ginv[a][b] * X[i][b] for b in range(cols)) for i in range(n)] for a in range(cols)]
        out = []
        for a in range(cols):
            acc = Q(0)
            for i in range(n):
                if P[a][i] != 0:
                    acc = T.sadd(acc, T.smul(Q(P[a][i]), y.a[i]))
            out.append(acc)
        return A.barr_from(out, 'float')

    @reg('scipy.signal.butter')
    def sp_butter(self, order, wn, btype='low', **kw):
        order = T.concrete_int(order, 'filter order')
        if btype not in ('band', 'low', 'high', 'bandpass', 'lowpass', 'highpass'):
            raise PyExc('ValueError', "'%s' is an invalid bandtype for filter." % btype)
        band = btype in ('band', 'bandpass')
        if band:
            if not is_arr(wn) or len(wn.shape) != 1 or wn.shape[0] != 2:
                raise PyExc('ValueError', 'Wn must specify start and stop frequencies for bandpass filter')
        elif is_arr(wn) and not (len(wn.shape) == 0 or wn.shape == (1,)):
            raise PyExc('ValueError', 'Must specify a single critical frequency Wn for lowpass or highpass filter')
        ncoef = (2 * order if band else order) + 1
        # coefficients: ONE uninterpreted function per filter type of (order, cut-off(s), index): equal requests give equal coefficients
        # (congruence), so a design handed over from an earlier identical request is recognised as the design of this request
        if band:
            w0, w1 = T.to_real(self._gi(wn, 0)), T.to_real(self._gi(wn, 1))
        else:
            w0 = T.to_real(self.scalar_of(wn) if is_arr(wn) else N(wn))
            w1 = Q(0)
        kind = {'bandpass': 'band', 'lowpass': 'low', 'highpass': 'high'}.get(btype, btype)
        c = ctx()
        c.assumed.append('scipy.signal.butter uninterpreted')
        c.cache.setdefault('opaque-calls', []).append(('butter_b_%s' % btype, [order, wn], (ncoef,)))
        out = []
        for which in ('b', 'a'):
            F = butter_fn(which, kind)
            arr = np.empty((ncoef,), dtype=object)
            for k in range(ncoef):
                arr[k] = N(F(z3.IntVal(order), T.to_z3(w0), T.to_z3(w1), z3.IntVal(k)))
            out.append(BArr(arr, 'float'))
        return out[0], out[1]

    @reg('scipy.signal.filtfilt')
    def sp_filtfilt(self, b, a, x, **kw):
        x = self.asarray(x)
        if len(x.shape) != 1:
            raise EngineError('filtfilt on nd array')
        # scipy requires len(x) > padlen = 3*max(len(a), len(b))
        padlen = 3 * max(A.alen(a), A.alen(b))
        n = x.shape[0]
        if isinstance(n, int):
            if n <= padlen:
                raise PyExc('ValueError', 'The length of the input vector x must be greater than padlen, which is %d.' % padlen)
        else:
            self.itp.oblige('filtfilt-input-longer-than-padlen', T.sgt(n, padlen))
        return self.opaque_array('filtfilt', [b, a, x], (n,), 'float', assumed='scipy.signal.filtfilt uninterpreted')

    @reg('scipy.signal.resample')
    def sp_resample(self, x, num, **kw):
        x = self.asarray(x)
        num = N(num)
        if T.is_real_like(num):
            raise PyExc('TypeError', "'float' object cannot be interpreted as an integer (scipy.signal.resample num)")
        return self.opaque_array('resample', [x, num], (num,), 'float', assumed='scipy.signal.resample uninterpreted')

    @reg('scipy.signal.detrend')
    def sp_detrend(self, x, **kw):
        x = self.asarray(x)
        return self.opaque_array('detrend', [x], tuple(x.shape), 'float', assumed='scipy.signal.detrend uninterpreted')


def butter_fn(which, kind):
    """uninterpreted Butterworth design: coefficient k of the numerator ('b') / denominator ('a') for (order, w0, w1)"""
    return z3.Function('butter_%s_%s' % (which, kind), T.I, T.R, T.R, T.I, T.R)


def _rank(dt):
    return {'bool': 0, 'int': 1, 'float': 2, 'complex': 3}[dt]


_TWIDDLE_OK = (1, 2, 3, 4, 6, 8, 12)


def _cs(j, n):
    """(cos, sin) of 2*pi*j/n for the angles with elementary closed forms."""
    from math import gcd
    j %= n
    g = gcd(j, n) if j else n
    j, n = (j // g, n // g) if j else (0, 1)
    r2 = lambda: T.ssqrt(Q(1, 2))
    r3h = lambda: T.smul(Q(1, 2), T.ssqrt(Q(3)))
    tab = {
        (0, 1): (Q(1), Q(0)), (1, 2): (Q(-1), Q(0)), (1, 4): (Q(0), Q(1)), (3, 4): (Q(0), Q(-1)),
        (1, 3): (Q(-1, 2), 'r3h'), (2, 3): (Q(-1, 2), '-r3h'),
        (1, 6): (Q(1, 2), 'r3h'), (5, 6): (Q(1, 2), '-r3h'),
        (1, 8): ('r2', 'r2'), (3, 8): ('-r2', 'r2'), (5, 8): ('-r2', '-r2'), (7, 8): ('r2', '-r2'),
        (1, 12): ('r3h', Q(1, 2)), (5, 12): ('-r3h', Q(1, 2)), (7, 12): ('-r3h', Q(-1, 2)), (11, 12): ('r3h', Q(-1, 2)),
    }
    c, s = tab[(j, n)]

    def res(v):
        if isinstance(v, str):
            neg = v.startswith('-')
            val = r2() if v.endswith('r2') else r3h()
            return T.sneg(val) if neg else val
        return v
    return res(c), res(s)


def _twiddle(j, n, inverse):
    c, s = _cs(j, n)
    return T.Cx(c, s if inverse else T.sneg(s))

"""Shared helpers of the library models."""
import z3

from . import terms as T
from . import arrays as A
from .terms import EngineError, PyExc, N, ctx, Q
from .arrays import BArr, CArr, is_arr, emap


def reg(*names):
    def deco(f):
        f._reg = names
        return f
    return deco


def fresh_array_fn(base, nd, dtype):
    """Fresh uninterpreted content for an array of the given rank/dtype: returns a getter idx -> scalar."""
    if dtype == 'complex':
        fr_ = T.fresh_fn(base + '_re', *([T.I] * nd + [T.R]))
        fi_ = T.fresh_fn(base + '_im', *([T.I] * nd + [T.R]))
        return lambda *i: T.Cx(fr_(*[T.to_int_term(x) for x in i]), fi_(*[T.to_int_term(x) for x in i]))
    f = T.fresh_fn(base, *([T.I] * nd + [T.sort_of_dtype(dtype)]))
    return lambda *i: N(f(*[T.to_int_term(x) for x in i]))


def find_pattern(e, vs):
    """Smallest uninterpreted-function application inside e that mentions all bound constants vs (or None)."""
    ids = {v.get_id() for v in vs}
    best = [None, None]
    memo = {}

    def vars_in(t):
        k = t.get_id()
        if k in memo:
            return memo[k]
        if k in ids:
            r = frozenset([k])
        else:
            r = frozenset()
            for ch in t.children():
                r = r | vars_in(ch)
        memo[k] = r
        return r

    def size(t):
        return 1 + sum(size(c) for c in t.children())

    BAD = (z3.Z3_OP_ITE, z3.Z3_OP_AND, z3.Z3_OP_OR, z3.Z3_OP_NOT, z3.Z3_OP_EQ, z3.Z3_OP_LE, z3.Z3_OP_GE, z3.Z3_OP_LT, z3.Z3_OP_GT,
           z3.Z3_OP_IMPLIES, z3.Z3_OP_DISTINCT)
    clean = {}

    def is_clean(t):
        """no boolean structure / if-then-else below t (z3 rejects such patterns)"""
        k = t.get_id()
        if k not in clean:
            clean[k] = not (z3.is_app(t) and t.decl().kind() in BAD) and not z3.is_quantifier(t) and all(is_clean(c) for c in t.children())
        return clean[k]

    def ok_pattern(t):
        return z3.is_app(t) and t.decl().kind() == z3.Z3_OP_UNINTERPRETED and t.num_args() > 0 and is_clean(t)

    def walk(t):
        if not vars_in(t) >= ids:
            return
        if ok_pattern(t):
            sz = size(t)
            if best[0] is None or sz < best[1]:
                best[0], best[1] = t, sz
        for ch in t.children():
            walk(ch)
    walk(e)
    return best[0]


def forall(vs, body, pat_src=None, extra_patterns=()):
    pats = []
    if pat_src is not None:
        p = find_pattern(pat_src, vs) if z3.is_expr(pat_src) else None
        if p is not None:
            pats.append(p)
    pats += list(extra_patterns)
    if pats:
        return z3.ForAll(vs, body, patterns=pats)
    return z3.ForAll(vs, body)


def rng(k, lo, hi):
    return z3.And(T.to_int_term(lo) <= k, k < T.to_int_term(hi))


def zterm(x):
    """scalar -> z3 term (ints to Int, reals to Real)."""
    return T.to_z3(x)


def _axis(axis, nd):
    if axis is None:
        return None
    axis = T.concrete_int(axis, 'axis')
    if axis < 0:
        axis += nd
    if not 0 <= axis < nd:
        raise PyExc('AxisError', 'axis out of bounds')
    return axis



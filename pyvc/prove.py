"""Back ends: discharge one obligation (hypotheses |- goal) with z3 in two sound encodings, optionally cvc5.

structural : products / quotients of non-constant terms become uninterpreted mul/div (UF + linear arithmetic +
             quantifiers: E-matching is reliable).  Anything valid for every interpretation of mul/div is valid for
             the real operations, so `unsat` is sound; `sat` is NOT a refutation.
algebraic  : genuine non-linear real arithmetic.  `unsat` sound; `sat` yields a counter-model (to be replayed).
"""
import os
import subprocess
import tempfile
import time

import z3

MUL_R = z3.Function('mul_R', z3.RealSort(), z3.RealSort(), z3.RealSort())
MUL_I = z3.Function('mul_I', z3.IntSort(), z3.IntSort(), z3.IntSort())
DIV_R = z3.Function('div_R', z3.RealSort(), z3.RealSort(), z3.RealSort())


def _is_numeral(t):
    return z3.is_rational_value(t) or z3.is_int_value(t) or z3.is_algebraic_value(t)


class Abstractor:
    def __init__(self):
        self.memo = {}
        self.used = False
        self.depth = 0                 # quantifier nesting
        self.products = {}             # ground abstracted binary products: id -> (m, a, b)

    def run(self, e):
        k = e.get_id()
        if k in self.memo:
            return self.memo[k][1]
        r = self._run(e)
        self.memo[k] = (e, r)          # keep e alive: z3 reuses ast ids after garbage collection
        return r

    def _run(self, e):
        if z3.is_quantifier(e):
            return self._quant(e)
        if not z3.is_app(e) or e.num_args() == 0:
            return e
        args = [self.run(c) for c in e.children()]
        kind = e.decl().kind()
        if kind == z3.Z3_OP_MUL:
            nums = [a for a in args if _is_numeral(a)]
            others = [a for a in args if not _is_numeral(a)]
            if len(others) >= 2:
                self.used = True
                others.sort(key=lambda t: t.get_id())
                f = MUL_R if others[0].sort() == z3.RealSort() else MUL_I
                acc = others[0]
                for o in others[1:]:
                    prev = acc
                    acc = f(acc, o)
                    if self.depth == 0 and len(self.products) < 400:
                        self.products[acc.get_id()] = (acc, prev, o)
                for n_ in nums:
                    acc = n_ * acc
                return acc
            return e.update(*args)
        if kind == z3.Z3_OP_DIV and not _is_numeral(args[1]):
            self.used = True
            return DIV_R(args[0], args[1])
        if kind == z3.Z3_OP_POWER:
            self.used = True
            return z3.Function('pow_abs', args[0].sort(), args[1].sort(), args[0].sort())(args[0], args[1])
        return e.update(*args)

    def _quant(self, q):
        n = q.num_vars()
        consts = [z3.Const('qv!%s!%d' % (q.var_name(i), q.get_id()), q.var_sort(i)) for i in range(n)]
        # de Bruijn: var index 0 is the innermost = last declared
        subst = list(reversed(consts))
        self.depth += 1
        try:
            body = self.run(z3.substitute_vars(q.body(), *subst))
        finally:
            self.depth -= 1
        pats = []
        for i in range(q.num_patterns()):
            p = q.pattern(i)
            terms = [self.run(z3.substitute_vars(t, *subst)) for t in p.children()]
            pats.append(z3.MultiPattern(*terms) if len(terms) > 1 else terms[0])
        kw = {'patterns': pats} if pats else {}
        if q.is_forall():
            return z3.ForAll(consts, body, **kw)
        return z3.Exists(consts, body, **kw)


def _nary(kind, args):
    if kind == z3.Z3_OP_MUL:
        acc = args[0]
        for a in args[1:]:
            acc = acc * a
        return acc
    if kind == z3.Z3_OP_ADD:
        return z3.Sum(args)
    if kind == z3.Z3_OP_AND:
        return z3.And(*args)
    if kind == z3.Z3_OP_OR:
        return z3.Or(*args)
    if kind == z3.Z3_OP_DISTINCT:
        return z3.Distinct(*args)
    raise RuntimeError('cannot rebuild n-ary application of kind %d' % kind)


def has_quantifier(fs):
    seen = set()

    def walk(e):
        if e.get_id() in seen:
            return False
        seen.add(e.get_id())
        if z3.is_quantifier(e):
            return True
        return any(walk(c) for c in e.children())
    return any(walk(f) for f in fs)


def _solve(formulas, timeout_ms, seed=0):
    s = z3.Solver()
    s.set('timeout', int(timeout_ms))
    s.set('random_seed', seed)
    for f in formulas:
        s.add(f)
    t0 = time.time()
    try:
        r = s.check()
    except z3.Z3Exception as e:
        return 'unknown', time.time() - t0, None, 'z3 exception: %s' % e
    dt = time.time() - t0
    if r == z3.unsat:
        return 'unsat', dt, None, ''
    if r == z3.sat:
        return 'sat', dt, s.model(), ''
    return 'unknown', dt, None, s.reason_unknown()


def discharge(hyps, goal, timeout_ms=20000, use_cvc5=False, seed=0, want_model=True):
    """Returns dict(verdict in {'proved','refuted','unknown'}, backend, time_s, model, reason)."""
    hyps = [h for h in hyps if not (isinstance(h, bool) and h)]
    if isinstance(goal, bool):
        if goal:
            return dict(verdict='proved', backend='trivial', time_s=0.0, model=None, reason='')
        goal = z3.BoolVal(False)
    for h in hyps:
        if isinstance(h, bool) and not h:
            return dict(verdict='proved', backend='trivial(false hypothesis)', time_s=0.0, model=None, reason='')
    fs = list(hyps) + [z3.Not(goal)]
    total = 0.0
    # 1. structural encoding
    ab = Abstractor()
    fs_struct = [ab.run(f) for f in fs]
    quant = has_quantifier(fs)
    if ab.used:
        # z3's simplifier orders the arguments of `*` by ast id, which is not stable under quantifier instantiation:
        # commutativity of the abstracted product is supplied as an axiom (sound: real multiplication commutes)
        xr, yr = z3.Reals('cm_x cm_y')
        xi, yi = z3.Ints('cm_i cm_j')
        fs_struct = fs_struct + [z3.ForAll([xr, yr], MUL_R(xr, yr) == MUL_R(yr, xr), patterns=[MUL_R(xr, yr)]),
                                 z3.ForAll([xi, yi], MUL_I(xi, yi) == MUL_I(yi, xi), patterns=[MUL_I(xi, yi)])]
        # sign lemmas of the ground products (valid for real / integer multiplication; the usual first step of incremental
        # linearisation): m = 0 <-> a = 0 or b = 0;  m > 0 <-> a, b have the same strict sign
        for m_, a_, b_ in ab.products.values():
            fs_struct.append((m_ == 0) == z3.Or(a_ == 0, b_ == 0))
            fs_struct.append((m_ > 0) == z3.Or(z3.And(a_ > 0, b_ > 0), z3.And(a_ < 0, b_ < 0)))
    # interleaved portfolio (encodings x seeds x growing budgets): either encoding may be the lucky one, and E-matching
    # luck varies a lot with the seed, so cheap early attempts remove most of the run-to-run variance
    plan = [('alg', 0.03, 0)]
    if ab.used:
        plan += [('str', 0.03, 0), ('alg', 0.1, 3), ('str', 0.1, 5), ('str', 0.3, 7), ('alg', 0.35, 11), ('str', 0.6, 14), ('alg', 1.0, 22)]
    else:
        plan += [('alg', 0.1, 3), ('alg', 0.35, 11), ('alg', 1.0, 22)]
    v, model, why = 'unknown', None, ''
    struct_sat = False
    for enc, frac, ds in plan:
        if enc == 'str':
            if struct_sat:
                continue
            v_, dt, _, why_ = _solve(fs_struct, max(300, timeout_ms * frac), seed + ds)
            total += dt
            if v_ == 'unsat':
                return dict(verdict='proved', backend='z3/structural', time_s=total, model=None, reason='')
            if v_ == 'sat':
                struct_sat = True
        else:
            v, dt, model, why = _solve(fs, max(300, timeout_ms * frac), seed + ds)
            total += dt
            if v != 'unknown':
                break
    if v == 'unsat':
        return dict(verdict='proved', backend='z3/algebraic' if ab.used else 'z3', time_s=total, model=None, reason='')
    if v == 'sat':
        return dict(verdict='refuted', backend='z3/algebraic' if ab.used else 'z3', time_s=total, model=model, reason='')
    reason = why
    if use_cvc5:
        v2, dt2 = cvc5_check(fs_struct if ab.used else fs, timeout_ms)
        total += dt2
        if v2 == 'unsat':
            return dict(verdict='proved', backend='cvc5/structural' if ab.used else 'cvc5', time_s=total, model=None, reason='')
        reason += '; cvc5: %s' % v2
    if z3.is_false(goal):
        # constant-false goal (e.g. an aliasing / type fact decided by the executor): the obligation fails iff the path is
        # feasible.  Decide feasibility on the quantifier-free part of the hypotheses (a model of that part is reported).
        qf = [f for f in fs[:-1] if not has_quantifier([f])]
        v3, dt3, model3, _ = _solve(qf, min(timeout_ms, 5000), seed)
        total += dt3
        if v3 == 'sat':
            return dict(verdict='refuted', backend='z3/qf-feasibility', time_s=total, model=model3,
                        reason='constant-false goal on a path whose quantifier-free hypotheses are satisfiable')
    if not z3.is_false(goal) and quant:
        # candidate counter-model from the quantifier-free part of the hypotheses (NOT a sound refutation by itself:
        # it only counts if the replay on the real code confirms it; otherwise the obligation stays undecided)
        qf = [f for f in fs if not has_quantifier([f])]
        v4, dt4, model4, _ = _solve(qf, min(timeout_ms, 3000), seed)
        total += dt4
        if v4 == 'sat':
            return dict(verdict='refuted', backend='z3/qf-candidate', time_s=total, model=model4, candidate=True,
                        reason='candidate model of the quantifier-free hypotheses; full query: %s' % reason)
    return dict(verdict='unknown', backend='z3', time_s=total, model=None, reason=reason)


def cvc5_check(formulas, timeout_ms):
    s = z3.Solver()
    for f in formulas:
        s.add(f)
    text = '(set-logic ALL)\n' + s.to_smt2()
    fd, path = tempfile.mkstemp(suffix='.smt2', prefix='pyvc_')
    t0 = time.time()
    try:
        with os.fdopen(fd, 'w') as fh:
            fh.write(text)
        try:
            r = subprocess.run(['/usr/bin/cvc5', '--enum-inst', '--tlimit=%d' % int(timeout_ms), path],
                               capture_output=True, text=True, timeout=timeout_ms / 1000.0 + 5)
            out = r.stdout.strip().splitlines()
            v = out[0] if out else 'unknown'
        except (subprocess.TimeoutExpired, OSError):
            v = 'unknown'
    finally:
        try:
            os.unlink(path)
        except OSError:
            pass
    return (v if v in ('sat', 'unsat') else 'unknown'), time.time() - t0

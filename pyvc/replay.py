"""Replay of solver counter-models on the real eqsig code (CPython + NumPy, the installed editable package)."""
import importlib
import json
import math
import os
import sys
import traceback

import numpy as np


def rebuild(x):
    if isinstance(x, dict):
        if 'ndarray' in x:
            data = rebuild(x['ndarray'])
            dt = {'float': float, 'int': int, 'bool': bool, 'complex': complex}.get(x.get('dtype', 'float'), float)
            return np.array(data, dtype=dt)
        if 'tuple' in x:
            return tuple(rebuild(e) for e in x['tuple'])
        if 'q' in x and 'f' in x:
            return float(x['f'])
        if 're' in x and 'im' in x:
            return complex(rebuild(x['re']), rebuild(x['im']))
        if 'object' in x:
            return rebuild_object(x)
        return {k: rebuild(v) for k, v in x.items()}
    if isinstance(x, list):
        return [rebuild(e) for e in x]
    return x


def rebuild_object(x):
    import eqsig
    qn = x['object']
    attrs = {k: rebuild(v) for k, v in x.get('attrs', {}).items()}
    cls = resolve(qn)
    vals = attrs.get('_values', np.zeros(2))
    dt = attrs.get('_dt', 0.01)
    kw = {}
    if qn.endswith('AccSignal') and attrs.get('response_times') is not None:
        kw['response_times'] = attrs['response_times']
    o = cls(vals, dt, **kw)
    if '_smooth_fa_freqs' in attrs and attrs['_smooth_fa_freqs'] is not None:
        o.smooth_fa_freqs = attrs['_smooth_fa_freqs']
    if 'label' in attrs:
        o.label = attrs['label']
    return o


def resolve(qualname):
    parts = qualname.split('.')
    for k in range(len(parts), 0, -1):
        try:
            obj = importlib.import_module('.'.join(parts[:k]))
        except ImportError:
            continue
        for p in parts[k:]:
            obj = getattr(obj, p)
        return obj
    raise ImportError(qualname)


def build_args(args):
    pos = []
    kw = {}
    for k in sorted(args, key=lambda s: (not s.startswith('arg'), s)):
        v = rebuild(args[k])
        if k.startswith('arg') and k[3:].isdigit():
            pos.append((int(k[3:]), v))
        else:
            kw[k] = v
    return [v for _, v in sorted(pos)], kw


def purge_eqsig():
    """forget every imported eqsig module, so that the next import starts from a fresh module state (no memo tables, no caches)"""
    for m in [m for m in sys.modules if m == 'eqsig' or m.startswith('eqsig.')]:
        del sys.modules[m]


def _outcome(f, pos, kw, keep=None):
    try:
        with np.errstate(all='ignore'):
            r = f(*pos, **kw)
        if keep is not None:
            keep.append(r)
        return {'result': jsonable(r), 'arguments_after': jsonable([pos, kw])}
    except Exception as e:
        return {'raises': type(e).__name__, 'message': str(e)[:300]}


def history_replay(qualname, ce):
    """Two-call histories: the call under test is run (a) in a fresh module state and (b) after the earlier call of the history;
    the function's contract makes its outcome a function of its arguments, so a difference is a failing history on the real code.
    Also: what the earlier call returned must still be what it returned once the later call has been made."""
    h = ce['history']
    purge_eqsig()
    f = resolve(qualname)
    pos, kw = build_args(ce['args'])
    fresh = _outcome(f, pos, kw)
    purge_eqsig()
    f = resolve(qualname)
    pos, kw = build_args(ce['args'])
    kept = []
    if h['variant'] == 'again':
        first = _outcome(f, pos, kw, kept)
        hist = _outcome(f, pos, kw)
        # the second call starts from arguments the first call may have legitimately updated (caches): compare the RESULTS only
        same = close(fresh.get('result'), hist.get('result')) and fresh.get('raises') == hist.get('raises')
    else:
        ppos, pkw = build_args(h['earlier_call_args'])
        first = _outcome(f, ppos, pkw, kept)
        hist = _outcome(f, pos, kw)
        same = close(fresh, hist)
    first_after = jsonable(kept[0]) if kept else None
    purge_eqsig()
    if 'raises' in first:
        return dict(status='not-reproduced', detail='the earlier call of the history raised %s on the real code' % first['raises'])
    if kept and not close(first['result'], first_after, rtol=0, atol=0):
        return dict(status='confirmed', observed={'earlier_result_when_returned': first['result'], 'earlier_result_after_the_later_call': first_after},
                    detail='real code: the value returned by the earlier call was overwritten by the later call (the two results share memory)')
    if same:
        return dict(status='not-reproduced', detail='real code: the call gives the same outcome after the earlier call (%s) as on a fresh state' % h['variant'])
    return dict(status='confirmed', observed={'fresh_state': fresh, 'after_earlier_call': hist},
                detail='real code: the outcome of the call depends on an earlier call (%s): it differs from the outcome of the same call on a fresh '
                       'module state' % ('the same call made before' if h['variant'] == 'again' else 'same function, other arguments'))


def call_real(qualname, args):
    f = resolve(qualname)
    pos = []
    kw = {}
    for k in sorted(args, key=lambda s: (not s.startswith('arg'), s)):
        v = rebuild(args[k])
        if k.startswith('arg') and k[3:].isdigit():
            pos.append((int(k[3:]), v))
        else:
            kw[k] = v
    pos = [v for _, v in sorted(pos)]
    return f(*pos, **kw)


def jsonable(x):
    if isinstance(x, np.ndarray):
        if np.iscomplexobj(x):
            return {'ndarray': [jsonable(v) for v in x.tolist()], 'dtype': 'complex'}
        return {'ndarray': x.tolist(), 'dtype': 'float' if x.dtype.kind == 'f' else ('int' if x.dtype.kind in 'iu' else str(x.dtype))}
    if isinstance(x, complex):
        return {'re': x.real, 'im': x.imag}
    if isinstance(x, (np.floating, np.integer, np.bool_)):
        return x.item()
    if isinstance(x, tuple):
        return {'tuple': [jsonable(e) for e in x]}
    if isinstance(x, list):
        return [jsonable(e) for e in x]
    if isinstance(x, dict):
        return {str(k): jsonable(v) for k, v in x.items()}
    if isinstance(x, (int, float, str, bool)) or x is None:
        return x
    if hasattr(x, 'values') and hasattr(x, 'dt'):
        return {'object': type(x).__module__ + '.' + type(x).__name__, 'attrs': {'_values': jsonable(np.asarray(x.values)), '_dt': jsonable(x.dt)}}
    return repr(x)


def close(a, b, rtol=1e-7, atol=1e-13):
    """Structural comparison of a predicted value (json form) with an observed value (json form)."""
    if isinstance(a, dict) and 'q' in a and 'f' in a:
        a = a['f']
    if isinstance(b, dict) and 'q' in b and 'f' in b:
        b = b['f']
    if isinstance(a, dict) and isinstance(b, dict):
        if 'ndarray' in a and 'ndarray' in b:
            return close(a['ndarray'], b['ndarray'], rtol, atol)
        if 'tuple' in a and 'tuple' in b:
            return close(a['tuple'], b['tuple'], rtol, atol)
        if 're' in a and 're' in b:
            return close(a['re'], b['re'], rtol, atol) and close(a['im'], b['im'], rtol, atol)
        if 'object' in a and 'object' in b:
            return a['object'] == b['object'] and close(a.get('attrs', {}).get('_values'), b.get('attrs', {}).get('_values'), rtol, atol)
        return set(a) == set(b) and all(close(a[k], b[k], rtol, atol) for k in a)
    if isinstance(a, dict) and 're' in a and isinstance(b, (int, float)):
        return close(a['re'], b, rtol, atol) and close(a['im'], 0.0, rtol, atol)
    if isinstance(b, dict) and 're' in b and isinstance(a, (int, float)):
        return close(b, a, rtol, atol)
    if isinstance(a, (list, tuple)) and isinstance(b, (list, tuple)):
        return len(a) == len(b) and all(close(x, y, rtol, atol) for x, y in zip(a, b))
    if isinstance(a, bool) or isinstance(b, bool):
        return bool(a) == bool(b)
    if isinstance(a, (int, float)) and isinstance(b, (int, float)):
        if math.isnan(a) or math.isnan(b):
            return False
        return abs(a - b) <= atol + rtol * max(abs(a), abs(b))
    return a == b


def custom_replay(info, ce, clause=None):
    """Property-specific replay (e.g. object histories): contracts/replay_<module>.py : replay(info, counterexample)."""
    import importlib.util
    here = os.path.dirname(os.path.dirname(os.path.abspath(__file__)))
    path = os.path.join(here, 'contracts', 'replay_%s.py' % info['module'])
    spec = importlib.util.spec_from_file_location('replay_' + info['module'], path)
    m = importlib.util.module_from_spec(spec)
    spec.loader.exec_module(m)
    info = dict(info, clause=clause or info.get('clause', ''))
    try:
        return m.replay(info, ce)
    except Exception as e:
        return dict(status='not-replayable', detail='custom replay crashed: %s: %s' % (type(e).__name__, e))


def replay_record(qualname, ce, info=None, clause=None):
    """Run the real function on the counter-model's arguments; compare with the engine's prediction.

    Returns dict(status in {'confirmed','not-reproduced','not-replayable'}, observed=..., detail=...).
    """
    if qualname and ce and ce.get('history') and 'args' in ce and not ce.get('render_error') and \
            not any(isinstance(v, str) and v.startswith('<') for v in _leaves([ce['args'], ce['history']])):
        try:
            r = history_replay(qualname, ce)
        except Exception as e:
            r = dict(status='not-replayable', detail='history replay crashed: %s: %s' % (type(e).__name__, e))
        if r['status'] == 'confirmed' or not info:
            return r
    if info:
        return custom_replay(info, ce, clause)
    if not qualname or ce is None or 'args' not in ce or ce.get('render_error'):
        return dict(status='not-replayable', detail=ce.get('render_error', 'no concrete arguments') if ce else 'no model')
    args = ce['args']
    if any(isinstance(v, str) and v.startswith('<') for v in _leaves(args)):
        return dict(status='not-replayable', detail='argument without a concrete counterpart (callable / opaque object)')
    pred = ce.get('predicted')
    try:
        with np.errstate(all='ignore'):
            obs = call_real(qualname, args)
        observed = {'result': jsonable(obs)}
    except Exception as e:
        observed = {'raises': type(e).__name__, 'message': str(e)[:300]}
    if pred is None:
        return dict(status='not-replayable', observed=observed, detail='no predicted outcome recorded')
    if 'raises' in pred:
        ok = observed.get('raises') == pred['raises'] or (observed.get('raises') is not None and pred['raises'] in ('UFuncTypeError',) and 'Type' in observed['raises'])
        return dict(status='confirmed' if ok else 'not-reproduced', observed=observed,
                    detail='engine predicted uncaught %s; real code: %s' % (pred['raises'], observed.get('raises', 'returned normally')))
    if 'raises' in observed:
        return dict(status='not-reproduced', observed=observed, detail='real code raised %s where the engine predicted a result' % observed['raises'])
    ok = close(pred['result'], observed['result'])
    return dict(status='confirmed' if ok else 'not-reproduced', observed=observed,
                detail='real output %s the engine-predicted output that violates the clause' % ('equals' if ok else 'differs from'))


def _leaves(x):
    if isinstance(x, dict):
        for v in x.values():
            yield from _leaves(v)
    elif isinstance(x, list):
        for v in x:
            yield from _leaves(v)
    else:
        yield x


def main_replay(prop, path):
    d = json.load(open(path))
    print('replay of %s (%s)' % (d.get('obligation'), d.get('function')))
    if d.get('kind') == 'script':
        ns = {}
        exec(d['script'], ns)
        bad = ns['witness']()
        print('witness still fails' if bad else 'witness no longer fails')
        return 1 if bad else 0
    r = replay_record(d.get('function'), d.get('counterexample'), d.get('replay_info'), d.get('clause'))
    print(json.dumps(r, indent=1)[:4000])
    return 1 if r['status'] == 'confirmed' else 0

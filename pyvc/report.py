"""Verdicts, known findings, replay files and evidence for one property run."""
import json
import os
import re
import time

HERE = os.path.dirname(os.path.dirname(os.path.abspath(__file__)))

GLOBAL_ASSUMPTIONS = [
    'A1 Python semantics of the supported subset as implemented by the pyvc interpreter (pyvc/interp.py, lib.py); cross-checked by replaying counter-models on CPython, not proved',
    'A2 NumPy 2.5.3 / SciPy 1.18.1 behave as the assumed library contracts in pyvc/np_models*.py say',
    'A3 machine arithmetic treated as mathematical: float64 -> real, int64 -> integer, no NaN/inf/overflow; tolerance clauses of the properties are not decided',
    'A4 identities of exp/sin/cos/sqrt/pow/log and bounds on pi used as axioms (pyvc/terms.py)',
    'A6 z3 (and cvc5 in the thorough tier) are sound',
    'A7 Skolemisation / loop-invariant (Hoare) schema of pyvc is correct',
    'termination, timing, memory use are not verified',
]


def load_known():
    p = os.path.join(HERE, 'known_findings.json')
    if not os.path.exists(p):
        return {'findings': [], 'fixed': []}
    return json.load(open(p))


def safe_name(s):
    return re.sub(r'[^A-Za-z0-9_.=-]+', '_', s)[:180]


def clause_key(rec):
    """Path independent identity of an obligation: (unit, case without the bound, clause without '#k')."""
    return '%s|%s|%s' % (rec['_task']['unit'], rec['_task']['case'].split('|')[0], re.sub(r'#\d+$', '', rec['clause']))


_TIER = ['quick']


def _bpath(prop):
    """baseline of the tier being run: the thorough tier (larger bounded sizes, other budgets) has its own file; without one it falls
    back to the quick baseline, whose clause rule then only covers the tasks (unit|case|sizes|mode) the quick tier has as well"""
    if _TIER[0] == 'thorough':
        p = os.path.join(HERE, 'baseline', prop + '.thorough.json')
        if os.path.exists(p):
            return p
    return os.path.join(HERE, 'baseline', prop + '.json')


def load_baseline(prop):
    p = _bpath(prop)
    if not os.path.exists(p):
        return set()
    return set(json.load(open(p))['discharged_clause_keys'])


def task_counts(recs):
    out = {}
    for r in recs:
        k = '%s|%s|%s' % (r['_task']['unit'], r['_task']['case'], r['_task']['mode'])
        out[k] = out.get(k, 0) + 1
    return out


def load_baseline_task_counts(prop):
    p = _bpath(prop)
    if not os.path.exists(p):
        return {}
    return json.load(open(p)).get('task_obligations', {})


def load_baseline_vcs(prop):
    """hashes of the verification conditions (hypotheses + goal) that were discharged on the unchanged tree"""
    p = _bpath(prop)
    if not os.path.exists(p):
        return set()
    return set(json.load(open(p)).get('discharged_vc_hashes', []))


def write_baseline(prop, all_recs):
    bad = {clause_key(r) for r in all_recs if r['verdict'] != 'proved'}
    keys = sorted({clause_key(r) for r in all_recs if r['verdict'] == 'proved'} - bad)
    os.makedirs(os.path.join(HERE, 'baseline'), exist_ok=True)
    json.dump({'property': prop, 'comment': 'clauses (unit|case|clause, path independent) whose every obligation is discharged on the unchanged tree; '
               'an obligation of such a clause that later cannot be discharged is reported as a violation (no-failing-input-found) rather than as undecided',
               'discharged_clause_keys': keys,
               'comment_vc_hashes': 'sha1 of (hypotheses, goal) of every non-trivial obligation discharged on the unchanged tree: when the IDENTICAL formula gets no '
               'solver verdict in a later run (load, seed) that is reported as UNDECIDED (exit 2) after one retry with a larger budget, never as a violation',
               'discharged_vc_hashes': sorted({r['vc_hash'] for r in all_recs if r['verdict'] == 'proved' and r.get('vc_hash')}),
               'comment_task_obligations': 'number of obligations each task (unit|case|mode) generated on the unchanged tree: a clean run that generates fewer than half '
               'of them for some task has silently lost coverage and is a checker error (exit 3)',
               'task_obligations': task_counts(all_recs)},
              open(os.path.join(HERE, 'baseline', prop + ('.thorough' if _TIER[0] == 'thorough' else '') + '.json'), 'w'), indent=0)
    print('baseline/%s%s.json: %d clause keys' % (prop, '.thorough' if _TIER[0] == 'thorough' else '', len(keys)))


def finish(prop, tier, seed, units, results, wall, verbose=False, partial=False, baseline_out=False):
    tier_of_run = tier
    from . import replay as RP
    known = load_known()
    findings = [f for f in known.get('findings', []) if f['property'] == prop]
    errors = [r for r in results if r['error']]
    all_recs = []
    for r in results:
        for rec in r['records']:
            rec['_task'] = r
            all_recs.append(rec)
    proof_recs = [r for r in all_recs if r['mode'] == 'unbounded']
    bounded_recs = [r for r in all_recs if r['mode'] == 'bounded']
    violations = []
    undecided = []
    known_seen = []
    # The automatic clause of two-call histories ("same outcome as on a fresh state") is decided by the REAL code: the engine keys
    # kernel summaries by argument term, so it cannot always prove the equality for a harmless (correctly keyed) memo.  A failing
    # instance is a violation only if the history, replayed on the real code, shows the dependence; otherwise it is dropped (listed
    # in the evidence), never an alarm.
    history_oracle_dropped = []
    for rec in all_recs:
        if rec['verdict'] == 'proved' or not rec['clause'].startswith(('history/outcome-equals', 'history/no-exception-where')):
            continue
        ok = False
        for ce in (rec.get('counterexample'), rec.get('history_candidate')):
            if ce and ce.get('history'):
                rp = RP.replay_record(rec.get('function'), ce, None, rec.get('clause'))
                if rp['status'] == 'confirmed':
                    rec['counterexample'] = ce
                    rec['verdict'] = 'refuted'
                    rec.pop('candidate', None)
                    rec['replay_info'] = None
                    ok = True
                    break
        if not ok:
            history_oracle_dropped.append(rec['name'])
            rec['verdict'] = 'dropped'
    all_recs = [r for r in all_recs if r['verdict'] != 'dropped']
    proof_recs = [r for r in all_recs if r['mode'] == 'unbounded']
    bounded_recs = [r for r in all_recs if r['mode'] == 'bounded']
    if history_oracle_dropped:
        print('note: %d automatic history clauses without a verdict were run on the real code and showed no dependence on the earlier call (not counted)'
              % len(history_oracle_dropped))
    # refuted obligations
    for rec in all_recs:
        if rec['verdict'] != 'refuted':
            continue
        kf = next((f for f in findings if re.search(f['obligation_regex'], rec['name'])), None)
        if kf is not None:
            known_seen.append((kf, rec))
            continue
        violations.append(rec)
    refuted_keys = {(r['_task']['unit'], r['clause']) for r in all_recs if r['verdict'] == 'refuted'}
    for rec in all_recs:
        if rec['verdict'] == 'unknown':
            kf = next((f for f in findings if re.search(f['obligation_regex'], rec['name'])), None)
            if kf is not None:
                known_seen.append((kf, rec))
                continue
            if (rec['_task']['unit'], rec['clause']) in refuted_keys:
                continue           # the bounded refuter already produced a counterexample for this clause
            undecided.append(rec)
    lines = []
    exit_code = 0
    # known findings: replay the recorded native witness; print once per finding
    printed = set()
    for kf in findings:
        still = witness_fails(kf)
        hit = any(k is kf for k, _ in known_seen)
        if still and (hit or kf.get('native_only')):
            if kf['id'] not in printed:
                lines.append('KNOWN-FINDING: property=%s %s [%s]' % (prop, kf['what'], kf['id']))
                printed.add(kf['id'])
        elif hit and not still:
            # the obligation fails but the recorded witness no longer does: a different violation -> report it
            for k, rec in known_seen:
                if k is kf and rec['verdict'] == 'refuted':
                    violations.append(rec)
    os.makedirs(os.path.join(HERE, 'replays', prop), exist_ok=True)
    reported = set()
    reported_ck = set()
    sound_refuted = {(r['_task']['unit'], r['clause']) for r in violations if not r.get('candidate')}
    for rec in violations:
        key = (rec['_task']['unit'], rec['_task']['case'].split('|')[0], rec['clause'])
        if key in reported and not verbose:
            continue
        if rec.get('candidate') and not rec.get('replay_info'):
            # a candidate model is not a model of the full hypotheses: the engine-predicted output under it means nothing,
            # so only a property-specific replay (history / oracle on the real code) may confirm it
            rp = dict(status='not-replayable', detail='candidate model only (quantifier-free part of the hypotheses)')
        else:
            rp = RP.replay_record(rec.get('function'), rec.get('counterexample'), rec.get('replay_info'), rec.get('clause'))
        if rp['status'] != 'confirmed' and rec.get('history_candidate'):
            # two-call history: the solver's model may be degenerate (all-zero record); a model of the path condition in general
            # position is a second candidate history for the real code
            rp2 = RP.replay_record(rec.get('function'), rec['history_candidate'], None, rec.get('clause'))
            if rp2['status'] == 'confirmed':
                rp = rp2
                rec['counterexample'] = rec['history_candidate']
        if rec.get('candidate') and rp['status'] != 'confirmed':
            # a candidate model (quantifier-free part only) that does not replay is not a refutation: undecided
            # (unless a sound refutation of the same clause exists, e.g. from the bounded mode)
            if (rec['_task']['unit'], rec['clause']) not in sound_refuted:
                undecided.append(rec)
            continue
        reported.add(key)
        path = os.path.join('replays', prop, safe_name(rec['name']) + '.json')
        json.dump({'property': prop, 'obligation': rec['name'], 'function': rec.get('function'), 'mode': rec['mode'],
                   'clause': rec['clause'], 'counterexample': rec.get('counterexample'), 'replay': rp, 'replay_info': rec.get('replay_info'),
                   'solver': {'backend': rec['backend'], 'time_s': rec['time_s']}},
                  open(os.path.join(HERE, path), 'w'), indent=1, default=str)
        suffix = '' if rp['status'] == 'confirmed' else ' no-failing-input-found'
        lines.append('VIOLATION property=%s replay=%s%s' % (prop, path, suffix))
        lines.append('  obligation %s refuted by %s; replay: %s' % (rec['name'], rec['backend'], rp.get('detail', rp['status'])))
        exit_code = 1
    baseline = load_baseline(prop)
    baseline_tasks = set(load_baseline_task_counts(prop))
    still_undecided = []
    for rec in undecided:
        ck = clause_key(rec)
        hc = rec.get('history_candidate')
        if hc and hc.get('history') and (ck not in reported_ck):
            # a two-call history the solver could not decide: run the candidate history on the real code
            rp = RP.replay_record(rec.get('function'), hc, None, rec.get('clause'))
            if rp['status'] == 'confirmed':
                reported_ck.add(ck)
                path = os.path.join('replays', prop, safe_name(rec['name']) + '.json')
                json.dump({'property': prop, 'obligation': rec['name'], 'function': rec.get('function'), 'mode': rec['mode'], 'clause': rec['clause'],
                           'kind': 'failed-obligation', 'counterexample': hc, 'replay': rp,
                           'solver_output': {'verdict': rec['verdict'], 'backend': rec['backend'], 'reason': rec['reason'], 'time_s': rec['time_s']},
                           'note': 'no solver verdict on this obligation of a two-call history; the candidate history (a model of the hypotheses) '
                                   'was run on the real code, where the outcome of the call depends on the earlier call'},
                          open(os.path.join(HERE, path), 'w'), indent=1, default=str)
                lines.append('VIOLATION property=%s replay=%s' % (prop, path))
                lines.append('  obligation %s not dischargeable (%s); replay of the candidate history on the real code: %s'
                             % (rec['name'], rec['reason'] or rec['verdict'], rp.get('detail', rp['status'])))
                violations.append(rec)
                exit_code = 1
                continue
        if ck in reported_ck and hc:
            continue
        if ck in baseline and rec.get('same_vc_as_baseline'):
            # the IDENTICAL formula was discharged on the unchanged tree: the code did not change this obligation, the solver just
            # gave no verdict this time (load / seed) -- undecided, never a violation
            rec['reason'] = 'identical verification condition was discharged on the unchanged tree; no solver verdict this time (%s)' % (rec['reason'] or 'unknown')
            still_undecided.append(rec)
        elif ck in baseline and '%s|%s|%s' % (rec['_task']['unit'], rec['_task']['case'], rec['_task']['mode']) in baseline_tasks:
            # this clause was discharged on the unchanged tree (in this very task: same unit, case, sizes, mode) and now fails: reported
            # as a violation with the solver's reason.  A task the baseline has never seen (e.g. a larger size of the thorough tier
            # without a thorough baseline) stays undecided: no verdict on a NEW formula says nothing about a change of the code.
            if ck in reported_ck:
                continue
            reported_ck.add(ck)
            rp = RP.replay_record(None, None, rec.get('replay_info'), rec.get('clause')) if rec.get('replay_info') else \
                dict(status='not-replayable', detail='no counter-model (solver verdict: %s)' % (rec['reason'] or 'unknown'))
            path = os.path.join('replays', prop, safe_name(rec['name']) + '.json')
            json.dump({'property': prop, 'obligation': rec['name'], 'function': rec.get('function'), 'mode': rec['mode'], 'clause': rec['clause'],
                       'kind': 'failed-obligation', 'solver_output': {'verdict': rec['verdict'], 'backend': rec['backend'], 'reason': rec['reason'], 'time_s': rec['time_s']},
                       'note': 'discharged on the unchanged tree (baseline/%s.json), not dischargeable now' % prop, 'replay': rp, 'replay_info': rec.get('replay_info')},
                      open(os.path.join(HERE, path), 'w'), indent=1, default=str)
            suffix = '' if rp['status'] == 'confirmed' else ' no-failing-input-found'
            lines.append('VIOLATION property=%s replay=%s%s' % (prop, path, suffix))
            lines.append('  obligation %s was discharged on the unchanged tree and is not dischargeable now (%s); replay: %s'
                         % (rec['name'], rec['reason'] or rec['verdict'], rp.get('detail', rp['status'])))
            violations.append(rec)
            exit_code = 1
        else:
            still_undecided.append(rec)
    undecided = still_undecided
    for rec in undecided:
        lines.append('UNDECIDED property=%s obligation=%s reason=%s' % (prop, rec['name'], rec['reason'] or 'unknown'))
        if exit_code == 0:
            exit_code = 2
    for r in errors:
        lines.append('CHECKER-ERROR property=%s unit=%s case=%s mode=%s: %s' % (prop, r['unit'], r['case'], r['mode'], r['error']))
        if exit_code in (0, 2):
            exit_code = 3
    n_obl = len(proof_recs)
    n_dis = sum(1 for r in proof_recs if r['verdict'] == 'proved')
    if n_obl == 0 and not partial:
        lines.append('CHECKER-ERROR property=%s zero unbounded obligations generated' % prop)
        exit_code = 3
    # units that produced no record at all are a vacuity error
    for r in results:
        if not r['records'] and not r['error'] and r['paths'] == 0 and not r.get('skipped'):
            lines.append('CHECKER-ERROR property=%s unit=%s case=%s mode=%s explored no feasible path (vacuous precondition?)'
                         % (prop, r['unit'], r['case'], r['mode']))
            exit_code = 3
    if exit_code == 0 and not partial:
        # coverage guard: on a run that would otherwise be clean, every task must have generated at least half of the obligations it
        # generated when the baseline was written (a silent loss of paths must not look like success)
        now = task_counts(all_recs)
        for k, n0 in sorted(load_baseline_task_counts(prop).items()):
            if n0 >= 10 and now.get(k, 0) * 2 < n0 and tier_of_run == 'quick':
                lines.append('CHECKER-ERROR property=%s task %s generated %d obligations, %d on the unchanged tree when the baseline was written: coverage lost' % (prop, k, now.get(k, 0), n0))
                exit_code = 3
    kf_ids = {id(rec) for _, rec in known_seen}
    proof_recs = [r for r in proof_recs if id(r) not in kf_ids]          # obligations of recorded findings are listed separately
    if baseline_out and not partial:
        write_baseline(prop, [r for r in all_recs if id(r) not in kf_ids])
    if not partial:
        write_evidence(prop, tier, seed, units, results, proof_recs, bounded_recs, violations, undecided, known_seen, wall, exit_code)
    for ln in lines:
        print(ln)
    by_backend = {}
    for r in proof_recs:
        by_backend[r['backend']] = by_backend.get(r['backend'], 0) + 1
    print('%s %s: %d/%d unbounded obligations discharged %s; bounded stand-in %d/%d; %d paths; %.1fs wall; exit %d'
          % (prop, tier, n_dis, n_obl, by_backend, sum(1 for r in bounded_recs if r['verdict'] == 'proved'), len(bounded_recs),
             sum(r['paths'] for r in results), wall, exit_code))
    slow = sorted(results, key=lambda r: -r['wall'])[:3]
    print('  slowest tasks: ' + '; '.join('%s[%s|%s] %.1fs' % (r['unit'], r['case'], r['mode'], r['wall']) for r in slow))
    if verbose:
        for rec in all_recs:
            print('  %-9s %-8s %-16s %6.2fs %s' % (rec['mode'], rec['verdict'], rec['backend'], rec['time_s'], rec['name']))
    return exit_code


def witness_fails(kf):
    """Run the finding's native witness (python source defining witness() -> True while the defect is present)."""
    src = kf.get('witness_py')
    if not src:
        return True
    ns = {}
    try:
        exec(src, ns)
        return bool(ns['witness']())
    except Exception:
        return True


def write_evidence(prop, tier, seed, units, results, proof_recs, bounded_recs, violations, undecided, known_seen, wall, exit_code):
    functions = sorted({q for r in results for q in r['qualnames']})
    executed = sorted({f for r in results for f in r['functions']})
    sources = {}
    for r in results:
        sources.update(r['sources'])
    assumed = sorted({a for r in results for a in r['assumed']})
    by_backend = {}
    for r in proof_recs:
        if r['verdict'] == 'proved':
            by_backend[r['backend']] = by_backend.get(r['backend'], 0) + 1
    bounded = {}
    for r in bounded_recs:
        k = (r['_task']['unit'], r['_task']['case'])
        b = bounded.setdefault(k, {'unit': k[0], 'case_and_bound': k[1], 'obligations': 0, 'decided_holding': 0})
        b['obligations'] += 1
        b['decided_holding'] += r['verdict'] == 'proved'
    samples = []
    for r in (proof_recs[:6] + [x for x in proof_recs if x['time_s'] > 1][:4] + bounded_recs[:3]):
        samples.append({'obligation': r['name'], 'kind': r['kind'], 'mode': r['mode'], 'verdict': r['verdict'], 'backend': r['backend'],
                        'time_s': r['time_s'], 'hypotheses': r['n_hyps']})
    ev = {
        'property_id': prop, 'tier': tier, 'seed': seed, 'level': 'proof',
        'coverage': {
            'library_contract_conformance': os.environ.get('PYVC_CONFORMANCE', 'not run'),
            'obligations': len(proof_recs),
            'discharged': sum(1 for r in proof_recs if r['verdict'] == 'proved'),
            'checker_cmd': './check %s --tier %s' % (prop, tier),
            'trusted_base': ['pyvc interpreter + library contracts (this repository, /verif/pyvc)', 'z3 5.1.0'] + (['cvc5 1.0.3'] if tier == 'thorough' else []),
            'functions_under_contract': functions,
            'functions_symbolically_executed': executed,
            'source_sha256': sources,
            'by_backend': by_backend,
            'solver_time_s': round(sum(r['time_s'] for r in proof_recs + bounded_recs), 2),
            'paths_explored': sum(r['paths'] for r in results),
            'bounded': sorted(bounded.values(), key=lambda b: (b['unit'], b['case_and_bound'])),
            'bounded_note': 'bounded entries are a stand-in over ALL real-valued inputs of the stated concrete sizes; they are not counted in obligations/discharged',
            'assumed_library_contracts_used': assumed,
            'undecided': [r['name'] for r in undecided],
            'known_findings_seen': sorted({k['id'] for k, _ in known_seen}),
            'known_finding_obligations_not_counted': sorted({rec['name'] for _, rec in known_seen})[:40],
            'samples': samples,
            'explanation': 'verification conditions generated from the AST of the real /repo sources on this run; see DESIGN.md',
        },
        'assumptions': GLOBAL_ASSUMPTIONS + ['assumed library contract used: ' + a for a in assumed],
        'wall_s': round(wall, 2),
        'violations': len(violations),
    }
    os.makedirs(os.path.join(HERE, 'evidence'), exist_ok=True)
    json.dump(ev, open(os.path.join(HERE, 'evidence', prop + '.json'), 'w'), indent=1)

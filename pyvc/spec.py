"""Specification vocabulary shared by the contract files (spec functions, definite descriptions, induction schema)."""
import z3

from . import terms as T
from . import arrays as A
from .terms import N, Q, ctx
from .arrays import BArr, CArr


def hint(*terms):
    """Trigger hints: ground terms made visible to E-matching (t == t is kept by z3 as an occurrence of t)."""
    out = []
    for t in terms:
        t = N(t)
        if T.is_z3(t):
            out.append(t == t)
    return out


def first_index(q, n, name='first'):
    """Definite description: the least index in [0, n) satisfying q (the caller must know one exists).

    Fact added (guarded): forall i in [0,n). q(i) -> (0 <= F < n /\\ q(F) /\\ F <= i).  Bounded mode: an ite-chain term.
    """
    n = N(n)
    if isinstance(n, int):
        out = n - 1 if n > 0 else 0
        for k in range(n - 2, -1, -1):
            out = T.site(q(k), k, out)
        return out
    from .np_util import forall
    F = T.fresh(name, T.I)
    i = z3.Int('fi_' + name)
    c = ctx()
    nz = T.to_int_term(n)
    qi = T.to_bool_term(q(i))
    # guarded form: if any index satisfies q then F is the least one (conservative: always satisfiable)
    c.fact(forall([i], z3.Implies(z3.And(0 <= i, i < nz, qi),
                                  z3.And(0 <= F, F < nz, T.to_bool_term(q(F)), F <= i)), qi))
    return F


def last_index(q, n, name='last'):
    n = N(n)
    if isinstance(n, int):
        out = 0
        for k in range(1, n):
            out = T.site(q(k), k, out)
        return out
    from .np_util import forall
    L = T.fresh(name, T.I)
    i = z3.Int('li_' + name)
    c = ctx()
    nz = T.to_int_term(n)
    qi = T.to_bool_term(q(i))
    c.fact(forall([i], z3.Implies(z3.And(0 <= i, i < nz, qi),
                                  z3.And(0 <= L, L < nz, T.to_bool_term(q(L)), i <= L)), qi))
    return L


def exists_index(V, q, n, name='ex'):
    """Precondition 'some index in [0,n) satisfies q': a Skolem witness (unbounded) or a disjunction (bounded)."""
    n = N(n)
    if isinstance(n, int):
        V.assume(T.sor(*[q(k) for k in range(n)]) if n else False)
        return None
    e = T.fresh(name, T.I)
    V.assume(T.sand(T.sle(0, e), T.slt(e, n), q(e)))
    return e


def induct(V, out, name, P, lo, hi, hints=None, budget_ms=None):
    """Prove  forall k in [lo, hi): P(k)  by induction (base P(lo) when lo < hi; step P(k-1) -> P(k) for lo < k < hi).

    Afterwards the caller may use P at any index as an assumption (out.assume) -- A7 of DESIGN.md.
    In bounded mode every instance is proved directly.
    """
    lo, hi = N(lo), N(hi)
    if isinstance(lo, int) and isinstance(hi, int):
        for k in range(lo, hi):
            out.prove('%s[%d]' % (name, k), P(k), budget_ms=budget_ms)
        return
    out.prove(name + '/base', T.simplies(T.slt(lo, hi), P(lo)), budget_ms=budget_ms)
    k = T.fresh('k_ind', T.I)
    rngc = T.sand(T.slt(lo, k), T.slt(k, hi))
    extra = [T.to_bool_term(rngc), T.to_bool_term(P(T.ssub(k, 1)))]
    if hints:
        extra += hint(*hints(k))
    out.prove(name + '/step', P(k), extra_hyps=extra, budget_ms=budget_ms)


def forall_fact(vars_, body, patterns=None):
    if patterns:
        return z3.ForAll(vars_, body, patterns=patterns)
    return z3.ForAll(vars_, body)


def assume_forall(out, P, lo, hi, pattern_of=None, name='ih'):
    """After an induction: make forall k in [lo,hi): P(k) available as a (quantified) hypothesis on this path."""
    lo, hi = N(lo), N(hi)
    if isinstance(lo, int) and isinstance(hi, int):
        for k in range(lo, hi):
            out.assume(P(k))
        return
    k = z3.Int('k_' + name)
    body = z3.Implies(z3.And(T.to_int_term(lo) <= k, k < T.to_int_term(hi)), T.to_bool_term(P(k)))
    pats = None
    if pattern_of is not None:
        pats = [pattern_of(k)]
    out.cx.facts.append(forall_fact([k], body, pats))


def arr_eq_at(a, b, idx):
    return T.seq(a[idx], b[idx])


def make_signal(V, cls, values, dt, **kw):
    """Construct an eqsig Signal/AccSignal by running the *real* constructor symbolically."""
    c = V.itp.get_function('eqsig.single.' + cls)
    return V.itp.call(c, [values, dt], kw)

"""Scalar term layer of pyvc.

Scalars are: python int / bool / str / None (concrete, usable for control flow and indexing), z3 rational
numerals (concrete reals: python float literals are read as the *decimal* they denote, arithmetic is exact),
and symbolic z3 terms of sort Int / Real / Bool.  Complex numbers are pairs (class Cx).  All arithmetic is
mathematical (ideal reals / integers): this is assumption A3 of DESIGN.md.

Transcendental functions are uninterpreted z3 functions; each application emits ground instances of the
standard identities (assumption A4) into the current context's fact list.
"""
import itertools
import math
import os as _os
from fractions import Fraction

import z3

I, R, B = z3.IntSort(), z3.RealSort(), z3.BoolSort()


class EngineError(Exception):
    """Unsupported construct / internal limitation: exit code 3, never a verdict."""


class PyExc(Exception):
    """A Python exception raised by the interpreted program (an *outcome*, not an engine failure)."""

    def __init__(self, kind, msg=''):
        Exception.__init__(self, '%s: %s' % (kind, msg))
        self.kind = kind
        self.msg = msg


class Ctx:
    """Per-path symbolic context: facts (library axioms, ground identity instances), path condition, decisions."""

    def __init__(self, decisions=(), mode='unbounded', opts=None):
        self.facts = []          # z3 Bool: axioms that hold on this path (assumed contracts / identities)
        self.pc = []             # z3 Bool: path condition (branch decisions, requires)
        self.decisions = list(decisions)
        self.pos = 0
        self.pending = []        # decision prefixes still to explore
        self.mode = mode
        self.opts = opts or {}
        self.cache = {}          # hash-consing of reductions / opaque library results
        self.safety = []         # (name, goal) side obligations raised while executing
        self.trace = []          # human readable decision trace
        self.fact_keys = set()
        self.assumed = []        # names of assumed library contracts used on this path
        self.solver = None
        self.known = {}          # id(cond) -> (cond, bool): conditions decided on this path (used to resolve ite eagerly)

    def fact(self, f, key=None):
        if f is True:
            return
        if key is None:
            key = f.get_id() if isinstance(f, z3.ExprRef) else None
        if key is not None:
            if key in self.fact_keys:
                return
            self.fact_keys.add(key)
        self.facts.append(f)

    def hyps(self):
        return list(self.facts) + list(self.pc)


CUR = None
_counter = itertools.count()


def set_ctx(c):
    global CUR
    CUR = c
    return c


def ctx():
    if CUR is None:
        raise EngineError('no active context')
    return CUR


def fresh_name(base):
    return '%s!%d' % (base, next(_counter))


def fresh(base, sort):
    return z3.Const(fresh_name(base), sort)


def fresh_fn(base, *sorts):
    return z3.Function(fresh_name(base), *sorts)


# ----------------------------------------------------------------------------------------------- numerals
def is_z3(x):
    return isinstance(x, z3.ExprRef)


def is_ratnum(x):
    return isinstance(x, z3.RatNumRef)


def is_num(x):
    return (isinstance(x, int) and not isinstance(x, bool)) or isinstance(x, bool) or isinstance(x, z3.RatNumRef) \
        or isinstance(x, z3.IntNumRef)


def fr(x):
    """Concrete number -> Fraction."""
    if isinstance(x, bool):
        return Fraction(int(x))
    if isinstance(x, int):
        return Fraction(x)
    if isinstance(x, z3.IntNumRef):
        return Fraction(x.as_long())
    if isinstance(x, z3.RatNumRef):
        return Fraction(x.numerator_as_long(), x.denominator_as_long())
    if isinstance(x, Fraction):
        return x
    raise EngineError('not a concrete number: %r' % (x,))


def Q(a, b=1):
    """Exact rational constant of Real sort."""
    f = Fraction(a) / Fraction(b) if not isinstance(a, str) else Fraction(a) / Fraction(b)
    return z3.RealVal('%d/%d' % (f.numerator, f.denominator))


def from_float(x):
    """A python float stands for the decimal literal that denotes it (repr round-trips)."""
    if x != x or x in (float('inf'), float('-inf')):
        raise EngineError('non-finite float constant')
    return Q(Fraction(repr(float(x))))


def N(x):
    """Normalise a scalar."""
    if x is None or isinstance(x, (bool, str)):
        return x
    if isinstance(x, int):
        return x
    if isinstance(x, float):
        return from_float(x)
    if isinstance(x, Fraction):
        return Q(x)
    if isinstance(x, z3.IntNumRef):
        return x.as_long()
    if isinstance(x, z3.BoolRef):
        if z3.is_true(x):
            return True
        if z3.is_false(x):
            return False
        return x
    if isinstance(x, z3.ExprRef):
        return x
    try:
        import numpy as np
        if isinstance(x, np.bool_):
            return bool(x)
        if isinstance(x, np.integer):
            return int(x)
        if isinstance(x, np.floating):
            return from_float(float(x))
    except ImportError:
        pass
    return x


def is_int_like(x):
    if isinstance(x, bool):
        return True
    if isinstance(x, int):
        return True
    return is_z3(x) and x.sort() == I


def is_real_like(x):
    return is_z3(x) and x.sort() == R


def is_bool_like(x):
    return isinstance(x, bool) or (is_z3(x) and x.sort() == B)


def is_scalar(x):
    return x is None or isinstance(x, (bool, int, str, float, Fraction)) or is_z3(x) or isinstance(x, Cx)


def to_z3(x):
    x = N(x)
    if isinstance(x, bool):
        return z3.BoolVal(x)
    if isinstance(x, int):
        return z3.IntVal(x)
    if is_z3(x):
        return x
    raise EngineError('cannot convert %r to a z3 term' % (x,))


def to_real(x):
    x = N(x)
    if isinstance(x, Cx):
        raise EngineError('complex used where real expected')
    if isinstance(x, bool):
        return Q(int(x))
    if isinstance(x, int):
        return Q(x)
    if is_z3(x):
        if x.sort() == R:
            return x
        if x.sort() == I:
            if isinstance(x, z3.IntNumRef):
                return Q(x.as_long())
            return z3.ToReal(x)
        if x.sort() == B:
            return z3.If(x, Q(1), Q(0))
    raise EngineError('cannot convert %r to Real' % (x,))


def to_int_term(x):
    x = N(x)
    if isinstance(x, bool):
        return z3.IntVal(int(x))
    if isinstance(x, int):
        return z3.IntVal(x)
    if is_z3(x) and x.sort() == I:
        return x
    if is_z3(x) and x.sort() == B:
        return z3.If(x, z3.IntVal(1), z3.IntVal(0))
    raise EngineError('not an integer term: %r' % (x,))


def to_bool_term(x):
    x = N(x)
    if isinstance(x, bool):
        return z3.BoolVal(x)
    if is_z3(x) and x.sort() == B:
        return x
    if isinstance(x, int):
        return z3.BoolVal(x != 0)
    if is_z3(x):
        return x != 0
    raise EngineError('not a bool term: %r' % (x,))


def _simp(t):
    return N(z3.simplify(t, som=False)) if is_z3(t) else t


# ------------------------------------------------------------------------------------------------ complex
class Cx:
    """Complex scalar as a pair of real scalars."""
    __slots__ = ('re', 'im')

    def __init__(self, re, im=0):
        self.re, self.im = N(re), N(im)

    def __repr__(self):
        return 'Cx(%s, %s)' % (self.re, self.im)

    def conj(self):
        return Cx(self.re, sneg(self.im))


def as_cx(x):
    return x if isinstance(x, Cx) else Cx(x, 0)


# -------------------------------------------------------------------------------------------- arithmetic
def _both_num(a, b):
    return is_num(a) and is_num(b)


def _coerce(a, b):
    """Return two z3 terms of the same arithmetic sort."""
    a, b = N(a), N(b)
    ra = is_real_like(a)
    rb = is_real_like(b)
    if ra or rb:
        return to_real(a), to_real(b)
    return to_int_term(a), to_int_term(b)


def _result_real(a, b):
    return is_real_like(N(a)) or is_real_like(N(b))


def sadd(a, b):
    a, b = N(a), N(b)
    if isinstance(a, Cx) or isinstance(b, Cx):
        a, b = as_cx(a), as_cx(b)
        return Cx(sadd(a.re, b.re), sadd(a.im, b.im))
    if _both_num(a, b):
        v = fr(a) + fr(b)
        return Q(v) if _result_real(a, b) else int(v)
    if is_num(a) and fr(a) == 0 and (is_real_like(b) or not is_real_like(a)):
        return b
    if is_num(b) and fr(b) == 0 and (is_real_like(a) or not is_real_like(b)):
        return a
    x, y = _coerce(a, b)
    return _simp(x + y)


def sneg(a):
    a = N(a)
    if isinstance(a, Cx):
        return Cx(sneg(a.re), sneg(a.im))
    if is_num(a):
        v = -fr(a)
        return Q(v) if is_real_like(a) else int(v)
    if is_bool_like(a):
        a = to_int_term(a)
    return _simp(-a)


def ssub(a, b):
    a, b = N(a), N(b)
    if isinstance(a, Cx) or isinstance(b, Cx):
        a, b = as_cx(a), as_cx(b)
        return Cx(ssub(a.re, b.re), ssub(a.im, b.im))
    if _both_num(a, b):
        v = fr(a) - fr(b)
        return Q(v) if _result_real(a, b) else int(v)
    if is_num(b) and fr(b) == 0 and (is_real_like(a) or not is_real_like(b)):
        return a
    x, y = _coerce(a, b)
    return _simp(x - y)


def smul(a, b):
    a, b = N(a), N(b)
    if isinstance(a, Cx) or isinstance(b, Cx):
        a, b = as_cx(a), as_cx(b)
        return Cx(ssub(smul(a.re, b.re), smul(a.im, b.im)), sadd(smul(a.re, b.im), smul(a.im, b.re)))
    if _both_num(a, b):
        v = fr(a) * fr(b)
        return Q(v) if _result_real(a, b) else int(v)
    real = _result_real(a, b)
    for p, q in ((a, b), (b, a)):
        if is_num(p):
            if fr(p) == 0:
                return Q(0) if real else 0
            if fr(p) == 1:
                return to_real(q) if real else q
    x, y = _coerce(a, b)
    if x.get_id() == y.get_id():
        sq = _simp(x * y)
        if is_z3(sq):
            ctx().fact(sq >= 0)            # ground instance of t*t >= 0 (needed by the structural encoding)
        return sq
    return _simp(x * y)


def sdiv(a, b):
    """True division (python `/`): always Real."""
    a, b = N(a), N(b)
    if isinstance(a, Cx) or isinstance(b, Cx):
        a, b = as_cx(a), as_cx(b)
        den = sadd(smul(b.re, b.re), smul(b.im, b.im))
        num = smul(a, b.conj())
        return Cx(sdiv(num.re, den), sdiv(num.im, den))
    if is_num(b):
        if fr(b) == 0:
            raise PyExc('ZeroDivisionError', 'division by zero')
        if is_num(a):
            return Q(fr(a) / fr(b))
        return _simp(to_real(a) * Q(1 / fr(b)))
    x, y = to_real(a), to_real(b)
    note_div(y)
    return _simp(x / y)


def note_div(den):
    """Record that `den` is used as a divisor (collected as a side condition: den != 0)."""
    c = ctx()
    c.safety.append(('nonzero-divisor', den != 0))


def sfloordiv(a, b):
    a, b = N(a), N(b)
    if _both_num(a, b):
        if fr(b) == 0:
            raise PyExc('ZeroDivisionError', 'division by zero')
        v = fr(a) // fr(b)
        return Q(v) if _result_real(a, b) else int(v)
    if is_int_like(a) and is_int_like(b):
        x, y = to_int_term(a), to_int_term(b)
        if is_num(b) and fr(b) > 0:
            return _simp(x / y)            # z3 int div = floor for positive divisor
        raise EngineError('floor division by symbolic / negative divisor not modelled')
    return to_real(sfloor(sdiv(a, b)))


def smod(a, b):
    a, b = N(a), N(b)
    if _both_num(a, b):
        if fr(b) == 0:
            raise PyExc('ZeroDivisionError', 'modulo by zero')
        v = fr(a) % fr(b)
        return Q(v) if _result_real(a, b) else int(v)
    if is_int_like(a) and is_int_like(b) and is_num(b) and fr(b) > 0:
        return _simp(to_int_term(a) % to_int_term(b))
    if is_num(b) and fr(b) > 0:
        # real modulo with positive constant modulus: a - b*floor(a/b)
        return ssub(a, smul(b, to_real(sfloor(sdiv(a, b)))))
    raise EngineError('modulo with symbolic modulus not modelled')


def sabs(a):
    a = N(a)
    if isinstance(a, Cx):
        return ssqrt(sadd(smul(a.re, a.re), smul(a.im, a.im)))
    if is_num(a):
        v = abs(fr(a))
        return Q(v) if is_real_like(a) else int(v)
    if is_bool_like(a):
        return to_int_term(a)
    return _simp(z3.If(a >= 0, a, -a))


def ssign(a):
    a = N(a)
    if is_num(a):
        v = fr(a)
        s = (v > 0) - (v < 0)
        return Q(s) if is_real_like(a) else int(s)
    one, zero = (Q(1), Q(0)) if is_real_like(a) else (z3.IntVal(1), z3.IntVal(0))
    return _simp(z3.If(a > 0, one, z3.If(a < 0, -one, zero)))


def _exact_log_bounds(a):
    """(floor, ceil) of log_b(c) for an application log2(c) / log10(c) with a concrete rational c > 0, else None"""
    if z3.is_app(a) and a.num_args() == 1 and a.decl().name() in ('log2', 'log10') and z3.is_rational_value(a.arg(0)):
        base = 2 if a.decl().name() == 'log2' else 10
        c = fr(a.arg(0))
        if c <= 0:
            return None
        k = 0
        while Fraction(base) ** k < c:
            k += 1
        while Fraction(base) ** k > c:
            k -= 1
        return (k, k) if Fraction(base) ** k == c else (k, k + 1)          # base^k < c < base^(k+1)
    return None


def sfloor(a):
    a = N(a)
    if is_int_like(a):
        return a
    if is_num(a):
        return math.floor(fr(a))
    b = _exact_log_bounds(a)
    if b is not None:
        return b[0]
    return _simp(z3.ToInt(a))


def sceil(a):
    a = N(a)
    if is_int_like(a):
        return a
    if is_num(a):
        return math.ceil(fr(a))
    b = _exact_log_bounds(a)
    if b is not None:
        return b[1]
    c = _simp(-z3.ToInt(-a))
    if z3.is_app(a) and a.decl().name() == 'log2' and a.num_args() == 1 and is_z3(c):
        # ceil(log2 t) is the unique c with 2^(c-1) < t <= 2^c  (t >= 1): ties the uninterpreted log2 to pow2
        t = a.arg(0)
        pow2(c)
        pow2(c - 1)
        ctx().fact(z3.Implies(t >= 1, z3.And(c >= 0, t <= z3.ToReal(F_POW2(c)),
                                             z3.Implies(c >= 1, z3.ToReal(F_POW2(c - 1)) < t))), key=('ceil-log2', a.get_id()))
    return c


def strunc(a):
    """python int(x): truncation toward zero."""
    a = N(a)
    if isinstance(a, str):
        raise EngineError('int(str) not modelled')
    if is_int_like(a):
        return a if not isinstance(a, bool) else int(a)
    if is_num(a):
        return math.trunc(fr(a))
    return _simp(z3.If(a >= 0, z3.ToInt(a), -z3.ToInt(-a)))


def sround(a):
    a = N(a)
    if is_int_like(a):
        return a
    if is_num(a):
        return round(fr(a))
    # symbolic real: round half to even.  f = floor(a + 1/2) is the nearest integer (ties go up); a tie (a + 1/2 integral) with f odd
    # goes down to the even neighbour instead
    half = to_real(a) + Q(1, 2)
    f = z3.ToInt(half)
    tie = z3.ToReal(f) == half
    return _simp(z3.If(z3.And(tie, f % 2 != 0), f - 1, f))


# ------------------------------------------------------------------------------------------- comparisons
def _cmp(a, b, pyop, z3op):
    a, b = N(a), N(b)
    if isinstance(a, str) or isinstance(b, str) or a is None or b is None:
        raise PyExc('TypeError', 'ordering comparison on %r, %r' % (type(a).__name__, type(b).__name__))
    if isinstance(a, Cx) or isinstance(b, Cx):
        raise PyExc('TypeError', 'ordering comparison on complex')
    if _both_num(a, b):
        return pyop(fr(a), fr(b))
    x, y = _coerce(a, b)
    return _simp(z3op(x, y))


def slt(a, b):
    return _cmp(a, b, lambda x, y: x < y, lambda x, y: x < y)


def sle(a, b):
    return _cmp(a, b, lambda x, y: x <= y, lambda x, y: x <= y)


def sgt(a, b):
    return _cmp(a, b, lambda x, y: x > y, lambda x, y: x > y)


def sge(a, b):
    return _cmp(a, b, lambda x, y: x >= y, lambda x, y: x >= y)


def seq(a, b):
    a, b = N(a), N(b)
    if a is None or b is None:
        return a is None and b is None
    if isinstance(a, str) or isinstance(b, str):
        return isinstance(a, str) and isinstance(b, str) and a == b
    if isinstance(a, Cx) or isinstance(b, Cx):
        a, b = as_cx(a), as_cx(b)
        return sand(seq(a.re, b.re), seq(a.im, b.im))
    if _both_num(a, b):
        return fr(a) == fr(b)
    if is_bool_like(a) and is_bool_like(b):
        return _simp(to_bool_term(a) == to_bool_term(b))
    x, y = _coerce(a, b)
    return _simp(x == y)


def sne(a, b):
    return snot(seq(a, b))


def snot(a):
    a = N(a)
    if isinstance(a, bool):
        return not a
    if a is None:
        return True
    if isinstance(a, int):
        return a == 0
    if is_z3(a) and a.sort() != B:
        return _simp(a == 0)
    return _simp(z3.Not(a))


def truthy(a):
    """Python truthiness of a scalar as bool / z3 Bool."""
    a = N(a)
    if a is None:
        return False
    if isinstance(a, bool):
        return a
    if isinstance(a, int):
        return a != 0
    if isinstance(a, str):
        return len(a) > 0
    if is_ratnum(a):
        return fr(a) != 0
    if is_z3(a):
        if a.sort() == B:
            return a
        return _simp(a != 0)
    raise EngineError('truthiness of %r' % (a,))


def sand(*xs):
    out = []
    for x in xs:
        x = truthy(x)
        if x is False:
            return False
        if x is True:
            continue
        out.append(x)
    if not out:
        return True
    if len(out) == 1:
        return out[0]
    return _simp(z3.And(*out))


def sor(*xs):
    out = []
    for x in xs:
        x = truthy(x)
        if x is True:
            return True
        if x is False:
            continue
        out.append(x)
    if not out:
        return False
    if len(out) == 1:
        return out[0]
    return _simp(z3.Or(*out))


def simplies(a, b):
    return sor(snot(a), b)


def known_truth(c):
    """Truth value of condition c if the current path has already decided it (fork / assume), else None."""
    if CUR is None or not is_z3(c):
        return None
    k = CUR.known.get(c.get_id())
    if k is not None:
        return k[1]
    if z3.is_not(c):
        k = CUR.known.get(c.arg(0).get_id())
        if k is not None:
            return not k[1]
    return None


DECIDER = None        # set by the interpreter: callable(cond) -> True / False / None using the current path's hypotheses


def resolve_dim(t):
    """Simplify an integer (shape) term that contains if-then-else by deciding its conditions with the path solver.
    Keeps array shapes syntactically canonical (e.g. the clamped slice length max(min(n,n)-min(1,n),0) becomes n-1)."""
    t = N(t)
    if not is_z3(t) or DECIDER is None or CUR is None or _os.environ.get('PYVC_NO_RESOLVE') or CUR.opts.get('no_resolve'):
        return t
    memo = CUR.cache.setdefault('dim-memo', {})
    hit = memo.get(t.get_id())
    if hit is not None:
        return hit[1]
    orig = t
    for _ in range(8):
        conds = []
        seen = set()

        def walk(e):
            if e.get_id() in seen or len(conds) >= 6:
                return
            seen.add(e.get_id())
            if z3.is_app(e) and e.decl().kind() == z3.Z3_OP_ITE:
                conds.append(e.arg(0))
            for c in e.children():
                walk(c)
        walk(t)
        if not conds:
            break
        subs = []
        for c in conds:
            d = DECIDER(c)
            if d is not None:
                subs.append((c, z3.BoolVal(d)))
        if not subs:
            break
        t = N(z3.simplify(z3.substitute(t, *subs)))
        if not is_z3(t):
            break
    memo[orig.get_id()] = (orig, t)
    return t


def resolve(t):
    """Rewrite term t with the propositional flags already decided on the current path (then simplify)."""
    if CUR is None or not is_z3(t) or not CUR.known:
        return t
    subs = [(c, z3.BoolVal(v)) for c, v in CUR.known.values() if z3.is_const(c) and c.decl().kind() == z3.Z3_OP_UNINTERPRETED]
    if not subs:
        return t
    return N(z3.simplify(z3.substitute(t, *subs)))


def site(c, a, b):
    """if-then-else on scalars."""
    c = truthy(c)
    if is_z3(c):
        kt = known_truth(c)
        if kt is not None:
            c = kt
    if c is True:
        return N(a)
    if c is False:
        return N(b)
    a, b = N(a), N(b)
    if isinstance(a, Cx) or isinstance(b, Cx):
        a, b = as_cx(a), as_cx(b)
        return Cx(site(c, a.re, b.re), site(c, a.im, b.im))
    if is_bool_like(a) and is_bool_like(b):
        return _simp(z3.If(c, to_bool_term(a), to_bool_term(b)))
    if a is None or b is None or isinstance(a, str) or isinstance(b, str):
        if a is b or (isinstance(a, str) and a == b):
            return a
        raise EngineError('ite over non-numeric values')
    x, y = _coerce(a, b)
    if x.get_id() == y.get_id():
        return N(x)
    return _simp(z3.If(c, x, y))


def smax2(a, b):
    return site(sge(a, b), a, b)


def smin2(a, b):
    return site(sle(a, b), a, b)


# ----------------------------------------------------------------------------------------- transcendental
PI = z3.Real('pi')
_PI_FACTS = [PI > Q('3.14159265358979'), PI < Q('3.14159265358980')]
F_EXP = z3.Function('exp', R, R)
F_SIN = z3.Function('sin', R, R)
F_COS = z3.Function('cos', R, R)
F_SQRT = z3.Function('sqrt', R, R)
F_LOG10 = z3.Function('log10', R, R)
F_LOG2 = z3.Function('log2', R, R)
F_LN = z3.Function('ln', R, R)
F_POW = z3.Function('pow', R, R, R)
F_POW2 = z3.Function('pow2', I, I)


def pi():
    c = ctx()
    for k, f in enumerate(_PI_FACTS):
        c.fact(f, key=('pi', k))
    return PI


def _isqrt_exact(v):
    if v < 0:
        return None
    n, d = v.numerator, v.denominator
    rn, rd = math.isqrt(n), math.isqrt(d)
    if rn * rn == n and rd * rd == d:
        return Fraction(rn, rd)
    return None


def ssqrt(x):
    x = N(x)
    if isinstance(x, Cx):
        raise EngineError('complex sqrt not modelled')
    if is_num(x):
        r = _isqrt_exact(fr(x))
        if r is not None:
            return Q(r)
        if fr(x) < 0:
            raise EngineError('sqrt of negative constant')
    t = to_real(x)
    s = F_SQRT(t)
    ctx().fact(z3.Implies(t >= 0, z3.And(s >= 0, s * s == t)), key=('sqrt', t.get_id()))
    return s


def sexp(x):
    x = N(x)
    if is_num(x) and fr(x) == 0:
        return Q(1)
    t = to_real(x)
    e = F_EXP(t)
    ctx().fact(e > 0, key=('exp', t.get_id()))
    return e


def ssin(x):
    x = N(x)
    if is_num(x) and fr(x) == 0:
        return Q(0)
    t = to_real(x)
    s, c = F_SIN(t), F_COS(t)
    ctx().fact(z3.And(s * s + c * c == 1, s <= 1, s >= -1, c <= 1, c >= -1), key=('trig', t.get_id()))
    return s


def scos(x):
    x = N(x)
    if is_num(x) and fr(x) == 0:
        return Q(1)
    t = to_real(x)
    s, c = F_SIN(t), F_COS(t)
    ctx().fact(z3.And(s * s + c * c == 1, s <= 1, s >= -1, c <= 1, c >= -1), key=('trig', t.get_id()))
    return c


def _exact_log(v, base):
    if v <= 0:
        return None
    k = 0
    w = v
    while w > 1 and k < 400:
        w /= base
        k += 1
    while w < 1 and k > -400:
        w *= base
        k -= 1
    return k if w == 1 else None


def slog(x, base):
    x = N(x)
    f = {10: F_LOG10, 2: F_LOG2, 'e': F_LN}[base]
    if is_num(x):
        if fr(x) <= 0:
            raise EngineError('log of non-positive constant')
        if base != 'e':
            k = _exact_log(fr(x), base)
            if k is not None:
                return Q(k)
        elif fr(x) == 1:
            return Q(0)
    t = to_real(x)
    l = f(t)
    ctx().fact(z3.And(z3.Implies(t > 1, l > 0), z3.Implies(t == 1, l == 0), z3.Implies(z3.And(t > 0, t < 1), l < 0)),
               key=('log', base, t.get_id()))
    return l


def pow2(k):
    """2 ** k for integer k (symbolic allowed)."""
    k = N(k)
    if isinstance(k, int):
        return 2 ** k if k >= 0 else Q(Fraction(1, 2 ** (-k)))
    p = F_POW2(k)
    c = ctx()
    c.fact(z3.And(z3.Implies(k >= 0, p >= 1), z3.Implies(k >= 1, p == 2 * F_POW2(k - 1))), key=('pow2', k.get_id()))
    j = z3.Int('pw2j')
    c.fact(z3.And(F_POW2(0) == 1, z3.ForAll([j], z3.Implies(j >= 0, F_POW2(j + 1) == 2 * F_POW2(j)), patterns=[F_POW2(j + 1)])),
           key=('pow2-def',))
    return p


def spow(a, b):
    a, b = N(a), N(b)
    if isinstance(b, bool):
        b = int(b)
    if is_ratnum(b) and fr(b).denominator == 1:
        # float exponent with integral value: same real value as the integer power
        r = spow(a, int(fr(b)))
        return to_real(r) if not isinstance(r, Cx) else r
    if isinstance(b, int):
        if b == 0:
            return Q(1) if is_real_like(a) else 1
        if b < 0:
            return sdiv(1, spow(a, -b))
        if is_num(a):
            v = fr(a) ** b
            return Q(v) if is_real_like(a) else int(v)
        r = a
        for _ in range(b - 1):
            r = smul(r, a)
        if b % 2 == 0 and is_z3(r) and not isinstance(r, Cx):
            ctx().fact(r >= 0, key=('evenpow', r.get_id()))
        return r
    if isinstance(a, Cx):
        raise EngineError('complex ** non-integer not modelled')
    if is_num(a) and fr(a) == 2 and is_int_like(b):
        return pow2(b)
    if is_num(a) and fr(a) == 2 and is_z3(b) and z3.is_app(b) and b.decl().kind() == z3.Z3_OP_DIV:
        # 2 ** (ln(x) / ln(2)) = x  (A4; written this way in eqsig to recover a length)
        num, den = b.arg(0), b.arg(1)
        if z3.is_app(num) and num.decl().name() == 'ln' and z3.is_app(den) and den.decl().name() == 'ln' and \
                z3.is_rational_value(den.arg(0)) and fr(den.arg(0)) == 2:
            if z3.is_rational_value(num.arg(0)):
                # CONCRETE x: the identity is not assumed -- the float64 evaluation is what runs, and it lands just below x for many x
                # (x = 14, 18, 28, ...: eqsig defect F13); the exact rational value of that float64 result is returned, so a truncation
                # downstream sees what CPython sees.  Only the symbolic case below rests on A4.
                import numpy as _np
                xv = float(fr(num.arg(0)))
                return Q(Fraction(float(2 ** (_np.log(xv) / _np.log(2)))))
            return num.arg(0)
    if is_num(b):
        e = fr(b)
        if e == Fraction(1, 2):
            return ssqrt(a)
        if is_num(a):
            base = fr(a)
            if base == 0:
                return Q(0)
            if base == 1:
                return Q(1)
            if base > 0 and e.denominator <= 8:
                # exact rational root if it exists
                p, q = e.numerator, e.denominator
                num, den = base.numerator, base.denominator
                rn, rd = round(num ** (1.0 / q)), round(den ** (1.0 / q))
                for cn in (rn - 1, rn, rn + 1):
                    for cd in (rd - 1, rd, rd + 1):
                        if cn > 0 and cd > 0 and cn ** q == num and cd ** q == den:
                            return Q(Fraction(cn, cd) ** p)
        t = to_real(a)
        y = F_POW(t, Q(e))
        c = ctx()
        p, q = e.numerator, e.denominator
        facts = [z3.Implies(t > 0, y > 0)]
        if e > 0:
            facts.append(z3.Implies(t == 0, y == 0))
        if 0 < q <= 4 and 0 < abs(p) <= 8:
            def ipow(z, k):
                r = z
                for _ in range(k - 1):
                    r = r * z
                return r
            if p > 0:
                facts.append(z3.Implies(t >= 0, z3.And(y >= 0, ipow(y, q) == ipow(t, p))))
            else:
                facts.append(z3.Implies(t > 0, ipow(y, q) * ipow(t, -p) == 1))
        c.fact(z3.And(*facts), key=('pow', t.get_id(), str(e)))
        return y
    # symbolic exponent
    t, e = to_real(a), to_real(b)
    y = F_POW(t, e)
    ctx().fact(z3.And(z3.Implies(t > 0, y > 0), z3.Implies(z3.And(t == 0, e > 0), y == 0), z3.Implies(e == 1, y == t),
                      z3.Implies(t == 1, y == 1)), key=('pow', t.get_id(), e.get_id()))
    return y


# --------------------------------------------------------------------------------------------- utilities
def concrete_int(x, what='value'):
    x = N(x)
    if isinstance(x, bool):
        return int(x)
    if isinstance(x, int):
        return x
    if is_ratnum(x) and fr(x).denominator == 1:
        return int(fr(x))
    raise EngineError('%s must be a concrete integer here, got %r' % (what, x))


def is_concrete(x):
    x = N(x)
    return x is None or isinstance(x, (bool, int, str)) or is_ratnum(x) or \
        (isinstance(x, Cx) and is_concrete(x.re) and is_concrete(x.im))


def sort_of_dtype(dtype):
    return {'float': R, 'int': I, 'bool': B}[dtype]


def cast_scalar(x, dtype):
    """Store-conversion of scalar x into an array of dtype (NumPy same-kind casting rules, ideal arithmetic)."""
    x = N(x)
    if dtype == 'object':
        return x
    if dtype == 'complex':
        return as_cx(x) if not isinstance(x, Cx) else x
    if isinstance(x, Cx):
        raise PyExc('TypeError', 'cannot store complex into %s array' % dtype)
    if dtype == 'float':
        return to_real(x)
    if dtype == 'int':
        if is_int_like(x):
            return x if not isinstance(x, bool) else int(x)
        return strunc(x)
    if dtype == 'bool':
        return truthy(x)
    raise EngineError('unknown dtype %r' % dtype)


def dtype_of_scalar(x):
    x = N(x)
    if isinstance(x, Cx):
        return 'complex'
    if is_bool_like(x):
        return 'bool'
    if is_int_like(x):
        return 'int'
    if is_real_like(x):
        return 'float'
    raise EngineError('no dtype for %r' % (x,))


_RANK = {'bool': 0, 'int': 1, 'float': 2, 'complex': 3, 'object': 4}


def promote(*dts):
    return max(dts, key=lambda d: _RANK[d])


def trig_special_values():
    """sin/cos at pi/2 and pi (A4)."""
    c = ctx()
    p = pi()
    h = p * Q(1, 2)
    c.fact(z3.And(F_SIN(h) == 1, F_COS(h) == 0, F_SIN(p) == 0, F_COS(p) == -1), key=('trig-special',))
    for t in (h, p):
        c.fact(F_SIN(t) * F_SIN(t) + F_COS(t) * F_COS(t) == 1, key=('trig', t.get_id()))


def trig_shift_pi(x):
    """sin(x + pi) = -sin x, cos(x + pi) = -cos x at the given argument (A4)."""
    x = to_real(x)
    y = _simp(x + pi())
    ctx().fact(z3.And(F_SIN(y) == -F_SIN(x), F_COS(y) == -F_COS(x)), key=('trig-shift', x.get_id()))
    return y

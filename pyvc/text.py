"""Decimal-text domain for the eqsig loader (C16): strings whose numeric fields are symbolic.

A SymStr is a sequence of pieces:  concrete python str  |  Num(D, k, dot, neg, drop)
  Num: the decimal rendering of the integer D >= 0 scaled by 10^-k ("%.kf" of |x|), i.e. digits(D div 10^k) [ '.' ] pad_k(D mod 10^k);
       dot=False after the '.' has been deleted (numpy's name sanitiser); `drop` = number of leading characters removed;
       the sign is a separate piece Sign(cond) rendering '-' when cond holds and '' otherwise.
"%.kf" % x is modelled as D = any integer with |x*10^k - D| <= 1/2 (either choice at exact ties: the property only asks for
agreement to k decimals).  Assumed I/O contracts (A2): open/write/read/close on an in-memory file map and np.genfromtxt(
skip_header, names=True, delimiter, usecols=0) including numpy's NameValidator (spaces -> '_', '.' and other punctuation deleted).
"""
import z3

from . import terms as T
from .terms import EngineError, PyExc, N, Q

DELETE_CHARS = set("~!@#$%^&*()-=+~\\|]}[{';: /?.>,<")


class Num:
    def __init__(self, D, k, dot=True, drop=0, ndig=None):
        self.D, self.k, self.dot, self.drop, self.ndig = D, k, dot, drop, ndig     # ndig: number of integer-part digits once decided


class Sign:
    def __init__(self, cond):
        self.cond = cond


class Txt:
    """an ARBITRARY piece of text without line-boundary characters (possibly empty, possibly with blanks at its edges);
    stripped=True: the same text with leading and trailing whitespace removed"""
    def __init__(self, name, stripped=False):
        self.name, self.stripped = name, stripped

    def __repr__(self):
        return 'Txt(%s%s)' % (self.name, ', stripped' if self.stripped else '')


def _piece_eq(a, b):
    if isinstance(a, str) or isinstance(b, str):
        return isinstance(a, str) and isinstance(b, str) and a == b
    if isinstance(a, Txt) and isinstance(b, Txt):
        return a.name == b.name and a.stripped == b.stripped
    return a is b


class SymStr:
    def __eq__(self, other):
        """syntactic equality (sound for 'equal', never claims equality of different numeric fields)"""
        if isinstance(other, str):
            other = SymStr([other])
        if not isinstance(other, SymStr):
            return False
        return len(self.pieces) == len(other.pieces) and all(_piece_eq(a, b) for a, b in zip(self.pieces, other.pieces))

    def __ne__(self, other):
        return not self.__eq__(other)

    __hash__ = object.__hash__

    def __init__(self, pieces):
        out = []
        for p in pieces:
            if isinstance(p, SymStr):
                out.extend(p.pieces)
            elif isinstance(p, str):
                if p == '':
                    continue
                if out and isinstance(out[-1], str):
                    out[-1] += p
                else:
                    out.append(p)
            else:
                out.append(p)
        self.pieces = out

    def is_concrete(self):
        return all(isinstance(p, str) for p in self.pieces)

    def concrete(self):
        return ''.join(self.pieces)

    def __repr__(self):
        return 'SymStr(%r)' % (self.pieces,)


def as_symstr(x):
    if isinstance(x, SymStr):
        return x
    if isinstance(x, str):
        return SymStr([x])
    raise PyExc('TypeError', 'expected str')


def norm(s):
    return s.concrete() if isinstance(s, SymStr) and s.is_concrete() else s


def fmt_fixed(itp, x, k):
    """'%.kf' % x for a symbolic real x"""
    x = T.to_real(N(x))
    D = T.fresh('dec', T.I)
    mag = z3.If(x >= 0, x, -x)
    scaled = mag * (10 ** k)
    itp.assume(z3.And(D >= 0, scaled - z3.ToReal(D) <= Q(1, 2), z3.ToReal(D) - scaled <= Q(1, 2)))
    return SymStr([Sign(x < 0), Num(D, k)])


def concat(a, b):
    return norm(SymStr([as_symstr(a), as_symstr(b)]))


def join(sep, items):
    out = []
    for i, it in enumerate(items):
        if i:
            out.append(sep)
        out.append(as_symstr(it))
    return norm(SymStr(out))


def split_on(s, sep):
    """split at every occurrence of sep inside the CONCRETE pieces (numeric fields never contain separators)"""
    s = as_symstr(s)
    parts, cur = [], []
    for p in s.pieces:
        if isinstance(p, str):
            chunks = p.split(sep) if sep is not None else _ws_split(p)
            if sep is None:
                # whitespace split: chunks is a list of (text, boundary_before) markers
                for kind, txt in chunks:
                    if kind == 'sep':
                        if cur:
                            parts.append(cur)
                        cur = []
                    else:
                        cur.append(txt)
                continue
            for j, ch in enumerate(chunks):
                if j:
                    parts.append(cur)
                    cur = []
                if ch:
                    cur.append(ch)
        else:
            cur.append(p)
    if sep is None:
        if cur:
            parts.append(cur)
    else:
        parts.append(cur)
    return [norm(SymStr(c)) if c else '' for c in parts]


def _ws_split(p):
    out, buf = [], ''
    for ch in p:
        if ch.isspace():
            if buf:
                out.append(('txt', buf))
                buf = ''
            out.append(('sep', ch))
        else:
            buf += ch
    if buf:
        out.append(('txt', buf))
    return out


def splitlines(s):
    return split_on(s, '\n')


def strip(s):
    """str.strip(): whitespace at the two ends goes; numeric fields and signs carry none, an arbitrary text piece may"""
    s = as_symstr(s)
    pieces = list(s.pieces)
    while pieces and isinstance(pieces[0], str):
        q = pieces[0].lstrip()
        if q:
            pieces[0] = q
            break
        pieces.pop(0)
    while pieces and isinstance(pieces[-1], str):
        q = pieces[-1].rstrip()
        if q:
            pieces[-1] = q
            break
        pieces.pop()
    if len(pieces) == 1 and isinstance(pieces[0], Txt):
        pieces[0] = Txt(pieces[0].name, stripped=True)
    elif pieces and any(isinstance(p, Txt) and not p.stripped for p in (pieces[0], pieces[-1])):
        raise EngineError('strip() of an arbitrary text piece next to more text')
    return norm(SymStr(pieces))


def strip_chars(s, chars, left=True, right=True):
    """str.strip / lstrip / rstrip with an explicit character set.  Numeric fields and signs contain digits, '.', '-' only; an arbitrary
    one-line text piece contains no line terminator, so it stops the stripping of line terminators (for any other character set an
    arbitrary text piece at the end being stripped is not modelled)."""
    s = as_symstr(s)
    pieces = list(s.pieces)
    eol_only = all(ch in '\r\n' for ch in chars)

    def stops(p):
        if isinstance(p, Txt):
            if eol_only:
                return True
            raise EngineError('strip(%r) of an arbitrary text piece' % chars)
        if any(ch in '0123456789.-' for ch in chars):
            raise EngineError('strip(%r) next to a numeric field' % chars)
        return True
    if left:
        while pieces:
            if isinstance(pieces[0], str):
                q = pieces[0].lstrip(chars)
                if q:
                    pieces[0] = q
                    break
                pieces.pop(0)
            elif stops(pieces[0]):
                break
    if right:
        while pieces:
            if isinstance(pieces[-1], str):
                q = pieces[-1].rstrip(chars)
                if q:
                    pieces[-1] = q
                    break
                pieces.pop()
            elif stops(pieces[-1]):
                break
    return norm(SymStr(pieces)) if pieces else ''


def sanitise_name(s):
    """numpy.lib._iotools.NameValidator (default): strip, spaces -> '_', delete punctuation"""
    s = as_symstr(s)
    out = []
    for p in s.pieces:
        if isinstance(p, str):
            out.append(''.join(ch for ch in p.replace(' ', '_') if ch not in DELETE_CHARS))
        elif isinstance(p, Num):
            out.append(Num(p.D, p.k, dot=False, drop=p.drop, ndig=p.ndig))
        elif isinstance(p, Sign):
            continue                                  # '-' is deleted
    return norm(SymStr(out))


def decide_ndig(itp, num, max_digits=4):
    """fork on the number of digits of the integer part D div 10^k"""
    if num.ndig is not None:
        return num.ndig
    ip = num.D / (10 ** num.k)                        # z3 integer division
    for d in range(1, max_digits):
        if itp.fork(ip < 10 ** d, 'int-part-digits<=%d' % d):
            num.ndig = d
            return d
    num.ndig = max_digits
    itp.assume(ip < 10 ** max_digits)
    return max_digits


def drop_first(itp, s, count=1):
    """s[count:] where the first piece may be numeric (needs the digit count of its integer part)"""
    s = as_symstr(s)
    pieces = list(s.pieces)
    while count > 0 and pieces:
        p = pieces[0]
        if isinstance(p, str):
            take = min(count, len(p))
            pieces[0] = p[take:]
            count -= take
            if pieces[0] == '':
                pieces.pop(0)
        elif isinstance(p, Num):
            decide_ndig(itp, p)
            total = p.ndig + (1 if p.dot else 0) + p.k - p.drop
            take = min(count, total)
            pieces[0] = Num(p.D, p.k, p.dot, p.drop + take, p.ndig)
            count -= take
            if take == total:
                pieces.pop(0)
        else:
            raise EngineError('slicing through a sign piece')
    return norm(SymStr(pieces))


def parse_float(itp, s):
    """float(s) for the shapes that occur: [Sign] Num | '.' Num(dot deleted, partly dropped) | concrete"""
    if isinstance(s, str):
        from .lib import parse_float as pf
        return pf(s)
    pieces = list(s.pieces)
    sign = None
    if pieces and isinstance(pieces[0], Sign):
        sign = pieces.pop(0).cond
    if pieces and pieces[0] == '-':
        pieces.pop(0)
        sign = True if sign is None else z3.Not(sign)
    lead_dot = False
    if pieces and pieces[0] == '.':
        lead_dot = True
        pieces.pop(0)
    if len(pieces) != 1 or not isinstance(pieces[0], Num):
        raise PyExc('ValueError', 'could not convert string to float: %r' % (s,))
    p = pieces[0]
    if p.drop == 0 and p.dot and not lead_dot:
        val = z3.ToReal(p.D) / (10 ** p.k)
    else:
        # remaining digit string: the last (ndig + k - dropped_digits) digits of D (a dot inside the dropped part is gone too)
        nd = decide_ndig(itp, p)
        dropped_digits = p.drop if not p.dot else (p.drop if p.drop <= nd else p.drop - 1)
        if p.dot and p.drop <= nd and not lead_dot:
            # dot still inside the remaining text: digits before it = nd - drop
            rem = p.D % (10 ** (nd + p.k - p.drop)) if p.drop else p.D
            val = z3.ToReal(rem) / (10 ** p.k)
        else:
            width = nd + p.k - dropped_digits
            if width <= 0:
                raise PyExc('ValueError', 'could not convert string to float: empty')
            rem = p.D % (10 ** width)
            val = z3.ToReal(rem) / (10 ** width) if lead_dot else z3.ToReal(rem)
    val = T.N(z3.simplify(val))
    if sign is None:
        return val
    return T.site(sign, T.sneg(val), val)


# ---------------------------------------------------------------------------------------------------- file map
class FileObj:
    def __init__(self, vfs, path, mode):
        self.vfs, self.path, self.mode = vfs, path, mode
        self.line = 0                                  # read position, in whole lines (read()/readlines() return the rest)
        if 'w' in mode:
            vfs[path] = ''

    def _rest(self):
        lines = splitlines(self.vfs[self.path])
        if lines and lines[-1] == '' :
            lines = lines[:-1]                         # text ending in a newline has no further (empty) line
            ends = [True] * len(lines)
        else:
            ends = [True] * (len(lines) - 1) + [False]
        return lines, ends

    def readline(self):
        lines, ends = self._rest()
        if self.line >= len(lines):
            return ''
        l, e = lines[self.line], ends[self.line]
        self.line += 1
        return concat(l, '\n') if e else l

    def write(self, s):
        if 'w' not in self.mode:
            raise PyExc('UnsupportedOperation', 'not writable')
        self.vfs[self.path] = concat(self.vfs[self.path], s)
        return None

    def read(self):
        if self.line:
            lines, ends = self._rest()
            out = []
            for l, e in list(zip(lines, ends))[self.line:]:
                out.append(l)
                if e:
                    out.append('\n')
            self.line = len(lines)
            return norm(SymStr(out)) if out else ''
        self.line = 1 << 30
        return self.vfs[self.path]

    def readlines(self):
        lines, ends = self._rest()
        out = [concat(l, '\n') if e else l for l, e in list(zip(lines, ends))[self.line:]]
        self.line = len(lines)
        return out

    def close(self):
        return None

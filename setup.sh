#!/bin/sh
# Builds the offline overlay venv used by every check: /venv's interpreter + numpy/scipy/eqsig (through a .pth)
# + z3-solver / cvc5 / jsonschema wheels from the local wheelhouse.  Idempotent.
set -e
HERE="$(cd "$(dirname "$0")" && pwd)"
V="$HERE/.venv"
if [ -x "$V/bin/python" ] && "$V/bin/python" -c "import z3, numpy, scipy, jsonschema" 2>/dev/null; then
    exit 0
fi
rm -rf "$V"
/venv/bin/python -m venv "$V"
PIP_NO_INDEX=1 "$V/bin/pip" install -q --no-index --find-links /opt/veriftools/wheels z3-solver cvc5 jsonschema
SP="$("$V/bin/python" -c 'import sysconfig; print(sysconfig.get_paths()["purelib"])')"
echo "import site; site.addsitedir('/venv/lib/python3.12/site-packages')" > "$SP/overlay.pth"
"$V/bin/python" -c "import z3, numpy, scipy, jsonschema; print('overlay venv ok: z3', z3.get_version_string(), 'numpy', numpy.__version__, 'scipy', scipy.__version__)"

#!/bin/sh
# usage: tools/confirm_mutant.sh <pid> [worktree]  -- confirms a sub-agent's change in its scratch worktree, then runs our check against it in /repo
pid="$1"; wt="${2:-/tmp/wt_$pid}"
cd "$wt" || exit 2
echo "== tests with change:"; /venv/bin/python -m pytest -q -p no:cacheprovider 2>&1 | tail -1
echo "== demo with change:"; /venv/bin/python demo_$pid.py >/tmp/demo_with_$pid.txt 2>&1; echo "exit $?"; head -3 /tmp/demo_with_$pid.txt | cut -c1-200
git apply -R patch_$pid.diff || echo "!! patch does not reverse-apply"
git diff --quiet -- eqsig || echo "!! worktree differs from HEAD after reversing the patch"
echo "== demo without change:"; /venv/bin/python demo_$pid.py >/tmp/demo_without_$pid.txt 2>&1; echo "exit $?"
git apply patch_$pid.diff
cd /repo && git apply --check "$wt/patch_$pid.diff" 2>&1 | head -2
git apply "$wt/patch_$pid.diff" && echo "== applied to /repo" 
cd /verif && ./check "$pid" > /tmp/check_mut_$pid.txt 2>&1; echo "check exit $?"
grep -E "^VIOLATION|^UNDECIDED|^CHECKER|^KNOWN" /tmp/check_mut_$pid.txt | cut -c1-260 | head -${3:-5}
tail -2 /tmp/check_mut_$pid.txt | cut -c1-250
cd /repo && git checkout -- . && git status --short | head -3

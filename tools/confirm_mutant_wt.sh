#!/bin/sh
# usage: tools/confirm_mutant_wt.sh <pid> [worktree] [n-lines] [extra check args]
# Confirms a sub-agent's change in its scratch worktree (tests pass; demo fails with / passes without the change) and runs our check
# against THAT worktree (PYVC_REPO + PYTHONPATH) -- /repo itself is never touched.
pid="$1"; wt="${2:-/tmp/wt_$pid}"; n="${3:-6}"; shift; shift; shift
cd "$wt" || exit 2
echo "== tests with change:"; /venv/bin/python -m pytest -q -p no:cacheprovider 2>&1 | tail -1
echo "== demo with change:"; /venv/bin/python demo_$pid.py >/tmp/demo_with_$pid.txt 2>&1; echo "exit $?"
git apply -R patch_$pid.diff || echo "!! patch does not reverse-apply"
git diff --quiet -- eqsig || echo "!! worktree differs from HEAD after reversing the patch"
echo "== demo without change:"; /venv/bin/python demo_$pid.py >/tmp/demo_without_$pid.txt 2>&1; echo "exit $?"
git apply patch_$pid.diff
cd /verif && PYVC_REPO="$wt" PYTHONPATH="$wt" ./check "$pid" --jobs 8 "$@" > /tmp/check_mut_$pid.txt 2>&1; echo "check exit $?"
grep -E "^VIOLATION|^UNDECIDED|^CHECKER|^KNOWN" /tmp/check_mut_$pid.txt | grep -v "coverage lost" | cut -c1-260 | head -$n
tail -2 /tmp/check_mut_$pid.txt | cut -c1-250

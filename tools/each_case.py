"""Developer aid: run every case of one unit in parallel and print time / non-proved obligations per case."""
import sys, time; sys.path.insert(0, '/verif')
from pyvc import driver, api
import multiprocessing as mp
prop = sys.argv[1]; unit_name = sys.argv[2]
units = driver.load_contracts(prop)
u = [x for x in units if x['name'] == unit_name][0]


def run(case):
    V = api.Verifier(u, case, 'unbounded', {}, 5000)
    t = time.time(); err = None
    try:
        u['fn'](V, **case)
    except Exception as e:
        err = '%s: %s' % (type(e).__name__, str(e)[:200])
    bad = [(r['verdict'], r['clause'], r['time_s']) for r in V.records if r['verdict'] != 'proved']
    slow = [(r['clause'], r['time_s']) for r in V.records if r['time_s'] > 2]
    return (case, round(time.time() - t, 1), V.paths_seen, len(V.records), err, bad[:6], slow[:4])


if __name__ == '__main__':
    with mp.get_context('fork').Pool(16) as pool:
        for res in pool.imap_unordered(run, u['cases']):
            print(res, flush=True)

#!/usr/bin/env python3
"""Regenerates /verif/MANIFEST.json from the table below (kept in one place so it stays valid and current)."""
import json
import os

HERE = os.path.dirname(os.path.dirname(os.path.abspath(__file__)))

TECH = ('contract-based deductive verification: sidecar contracts on the real functions, VCs generated from the AST of '
        "/repo's current source by the pyvc symbolic executor and discharged by z3 (cvc5 second opinion in the thorough tier); "
        'bounded symbolic stand-in (all real inputs of stated sizes) where no unbounded contract is in reach')

COMMON_NOTE = ('Trusted base: pyvc interpreter of the Python subset (A1; co-executed against CPython on 38 eqsig function variants on every run), assumed NumPy/SciPy library contracts (A2; 137 models/variants cross-checked against the installed libraries on every run), float64 treated as '
               'real arithmetic (A3: tolerance/rounding clauses are not decided), identities of exp/sin/cos/sqrt/pow/log (A4), z3/cvc5 (A6), '
               'Skolemisation/induction/Hoare schema of pyvc (A7). Bounded entries in the evidence are a stand-in and are not counted as proved. ')

CLAIMED = {
    'C01': dict(
        text='(1) compute_a_and_b: the eight propagator coefficients produced by the REAL code equal, as rational functions of (xi, w, dt, sqrt(1-xi^2), exp, sin, cos), the coefficients of the exact solution of u\'\'+2 xi w u\'+w^2 u = f0+(f1-f0)t/dt '
             '(closed form taken from the statement; polynomial identities discharged by z3 NRA with the transcendental applications generalised to atoms). (2) nigam_and_jennings_response, verified MODULARLY against that contract with a loop invariant, '
             'for symbolic record length and symbolic number of periods: shapes, zero initial conditions, u/v advance by the exact one-step solution at every sample, third series = -(2 xi w v + w^2 u), leading T=0 row (zero u, v; sign-flipped record), '
             'w*T = 6.2831853 with |6.2831853-2pi| <= 1.2e-9*2pi, inputs not written. (3) both public entry points (response_series, AccSignal.response_series) satisfy the same postconditions, the object-level one also when the object has already answered an earlier request with any other damping. (4, thorough) Lean 4/Mathlib: the closed form satisfies the ODE and the initial conditions.',
        note='The floating-point tolerance clause (1e-6 + 5e-8*duration/T + eps/(w dt)^3) is not decided (A3). Uniqueness of ODE solutions / concatenation of the per-step solutions (Picard-Lindelof) is cited, not mechanised (A5).',
        ref='DESIGN.md 7 C01'),
    'C02': dict(
        text='Lemmas over the C01 contract, proved by induction on the sample index (base + step obligations, quantifier-free steps): linearity, causality, delay by k prepended zeros, a row depends on its own period only; the flow (semigroup) identity '
             'of the exact step that refinement invariance rests on; spectral corollaries (|alpha| scaling, sign, never decrease under refinement) from absmax\'s contract. Plus bounded symbolic relational checks between executions of the REAL code (n = 3, 4; two periods): linearity of u, v, a; causality at every split; shift by 1 and 2; period order / batching / leading zero; three periods in any order with both cyclic rotations of the list.',
        note='The induction over the m sub-steps that turns the flow identity into refinement invariance is stated, not mechanised. The "checkable to 1e-10" clause is about floating point (A3).',
        ref='DESIGN.md 7 C02'),
    'C03': dict(
        text='Modular (over the C01 contract) unbounded proofs: absmax = max|.| (bound + attained, 1-D and per row); pseudo_response_spectra / true_response_spectra for array, list and tuple period containers of float AND integer elements, with and without a leading 0: '
             'S_d = max|u|, S_v = w S_d / max|v|, S_a = w^2 S_d / max|a_total| above 6 dt and PGA below, T=0 entries, non-negativity, one entry per period, response computed for exactly this record/step/periods/damping; undamped true S_a equals pseudo S_a to 3e-9; '
             'AccSignal.gen_response_spectrum (from a fresh object and from an object that has already produced a spectrum for other periods, damping and min_dt_ratio): integration step <= max(T_min/20, dt/min_dt_ratio), dt an integer multiple of it, every original sample retained in the integrated record, periods/damping passed, s_a/s_v/s_d are that computation; energy spectra equal their defining sums.',
        note='Input energy non-negative at record end: false for the rectangle sum (known finding K1, printed as KNOWN-FINDING). Finiteness is outside exact arithmetic (A3). calc_asi / calc_vsi wiring not under contract.',
        ref='DESIGN.md 7 C03'),
    'C04': dict(
        text='Representation invariant (flag -> cached == F(values, dt, settings), F defined by running the real generator from a cold cache) proved preserved by EVERY public operation of Signal and '
             'AccSignal from an ARBITRARY state satisfying it (symbolic cache flags, symbolic record/settings of symbolic length): 55 mutator / settings / generator operations incl. the attribute write '
             'response_times=x and the aliasing forms response_times*=c / edit-in-place-then-reassign, 19 readers (idempotent, return the fresh-object value, leave values/dt/settings untouched), and the constructors. By induction over histories this covers all finite interleavings with no bound. '
             'Each obligation is observational: every reader of the post-state equals the reader of a cold clone.',
        note='The numerical kernels (FFT, Konno-Ohmachi smoothing, response spectra, filters, polyfit) are summarised as deterministic functions of their arguments (only determinism matters for staleness). '
             'Explicit generator calls with non-default, non-persistent arguments (gen_fa_spectrum(p2_plus/n), gen_response_spectrum(xi=, min_dt_ratio=), ...(trap=False), band=) are outside the property\'s operation list. Pre-state fixes response_times[0] > 0.',
        ref='DESIGN.md 7 C04'),
    'C05': dict(
        text='(a) Unbounded: the constructors (array/list/tuple, float/int) and every public mutator, run from an arbitrary state, leave values a numeric ndarray on a buffer no caller array shares, len == npts, '
             'time == dt*[0..npts-1], and write no array argument (alias tracking of the executor: buffers, views, in-place operators). (b) Frame: 77 public array-level functions of sdof, im, displacements, fns.*, stockwell, '
             'surface, multiple (plus 12 option variants: no / sub-step delays and scalar / per-row reductions of the surface functions, rectangle rule, kept adjacent zeros, tolerance, ...) leave every array/signal argument unchanged and leave a signal argument reporting the velocity/displacement of a fresh object - bounded symbolic (n=4, P=2, all real inputs) with the executor\'s store tracking.',
        note='Part (b) is bounded, not proved (the alias rule itself is size independent, but the run is at concrete sizes). scipy.fftpack.fft(overwrite_x=True) effect contract: may write x only if x is a complex ndarray (observed on scipy 1.18.1). '
             'Integer-dtype AccSignal in-place baseline corrections raise UFuncTypeError before modifying anything (recorded in DESIGN.md, not a listed clause).',
        ref='DESIGN.md 7 C05'),
    'C06': dict(
        text='Unbounded (symbolic record length, dt, p2_plus, n): Signal/AccSignal.gen_fa_spectrum / fa_spectrum / fa_frequencies (default, p2_plus in 0..3, explicit even and odd n, lazy read; from a fresh object AND from an object that already holds the spectrum of an earlier request with any other length) and the array-level generate_fa_spectrum / calc_fa_spectrum (padded, unpadded, p2_plus, n) make exactly one DFT call of length N on the record zero-padded to N, N as stated in the property, return dt*DFT[k] for k < floor(N/2) on the grid k/(N*dt), inputs not written; the DFT kernel itself is an uninterpreted function (assumed library contract). '
             'The inverse helpers leave the spectrum they are given (the object\'s own cached spectrum) unchanged (bounded, exact DFT). '
             'Bounded with an EXACT symbolic DFT (N = 4, 8; n = 3, 5, 6): fas2values / fas2signal reconstruct the padded record except its mean and Nyquist component, Parseval (N = 4), linearity, trailing zeros that do not change N; max_fa_period reports 1/f of a bin of largest |F| for any complex half spectrum with up to 4 bins.',
        note='The consequences (linearity, Parseval, inverse) are bounded with an exact DFT, not proved for all N; Parseval at N = 8 was dropped for solver budget. Fourier moments / Boore bandwidth are not under contract.',
        ref='DESIGN.md 7 C06'),
    'C07': dict(
        text='Unbounded (symbolic numbers of Fourier and target frequencies): calc_smoothing_matrix_konno_1998, with given and with default targets, with and without a zero-frequency bin: shape (non-zero bins x targets), every entry = raw Konno-Ohmachi weight [sin(b log10(f/fc))/(b log10(f/fc))]^4 (1 on the diagonal f = fc) divided by its column sum, raw weights non-negative, inputs not written. '
             'Bounded symbolic (n = 3 Fourier frequencies, 1-2 targets; n up to 4, P up to 3 thorough; all real inputs): the direct form calc_smooth_fa_spectrum / generate_smooth_fa_spectrum (explicit targets on and off the grid, default targets, zero bin dropped) equals sum_i |F_i| W_ij / S_j, is the normalised weighted mean, lies within [min, max] of the amplitudes, reproduces a constant, scales linearly; matrix form == direct form with columns summing to 1; bandwidth limits (first/last smoothing frequency whose amplitude reaches ratio*max). '
             'Unbounded, modular over the function-level contract: Signal/AccSignal.smooth_fa_spectrum (lazy read, gen_/generate_smooth_fa_spectrum with a band, with new targets; from a fresh object and from one already smoothed with another band) is calc_smooth_fa_spectrum(frequencies, spectrum, targets, band) of THIS request.',
        note='Derived precondition (from the code, the column normalisation divides by it): for every target the raw weights do not all vanish. The direct form and the bandwidth functions are bounded, not proved. sin/log10 are uninterpreted with ground identities (A4).',
        ref='DESIGN.md 7 C07'),
    'C15': dict(
        text='Unbounded: generate_gaussian (shape n_d2 x 2 n_d2, rows/columns are the stated Gaussian window of the wrapped frequency offsets) and the dominant-frequency axis of get_max_stockwell_freq / plot helpers (row k of the flipped transform corresponds to frequency index, reported frequency = index/(n dt) of the arg-max row, per column). '
             'Bounded with an EXACT symbolic DFT (records of length 4, 5, 8; odd lengths truncated to even): transform and transform_w_scipy_fft return the (n/2) x n array whose row for frequency index k is the conjugate discrete S-transform of the record (frequency-domain definition with the Gaussian exp(-2 pi^2 m^2/k^2) wrapped), the two implementations agree, each row sums to the conjugate Fourier coefficient, linear in the record, itransform(transform(x)) = x minus mean and Nyquist component, inputs not written.',
        note='All statements about the transform values are bounded (exact DFT sizes only), not proved for all n. exp() of the window is an uninterpreted function applied to exact rational arguments (A4).',
        ref='DESIGN.md 7 C15'),
    'C16': dict(
        text='Text is handled in a decimal-text domain (numeric fields symbolic, structure concrete; assumed contracts of open/read/readline/write and np.genfromtxt). Unbounded in (npts, dt): the header line built by the REAL save_values_and_dt expression parses back, through the REAL load_values_and_dt, to a time step within 0.5e-4 of dt for every dt in [1e-4, 100]. '
             'Bounded (records of 1-3 samples, every |x| <= 1e6, every dt in [1e-4, 100], every scale m): save_values_and_dt / save_signal followed by load_values_and_dt, load_signal (both astypes), load_sig, load_asig (with m, with load_label) returns the requested object type, the same number of points, dt to 4 decimals, values*m to 6 decimals, and the same label for labels with inner blanks, blank edges, the empty label and an ARBITRARY one-line label (symbolic text piece).',
        note='File system and np.genfromtxt (incl. its header-name sanitiser) are assumed contracts (A2); "%.6f"/"%.4f" are modelled as any integer within 1/2 of x*10^k (ties either way). Records longer than 3 samples are covered only through the per-line structure (bounded). Labels containing line-boundary characters are outside the format.',
        ref='DESIGN.md 7 C16'),
    'C08': dict(
        text='Unbounded proof (symbolic length, symbolic dt) from the real AST that calc_velo_and_disp_from_accel_arr (both trap branches, float and '
             'int records) returns series of the record length starting at 0 with exactly the trapezoid / rectangle increments, that the '
             'wrapper returns the same, that calc_peak is max|m| (upper bound + attained + non-negative), and that inputs are not written.',
        note='Linearity/exactness-for-linear-acceleration are consequences of the proved increment recurrences (not separately mechanised).',
        ref='DESIGN.md 7 C08'),
    'C09': dict(
        text='Unbounded proof that every cumulative measure (Arias, CAV, ISV, integral |a|, integral |v|, cumulative abs displacement, unit kinetic energy) has the '
             'record length, starts at the defined first value, has exactly the defining quadrature panel as increment (with the constant pi/(2*9.81) for Arias) '
             'and is non-decreasing; each is executed from the real constructor of AccSignal through the real property getters, and leaves the signal reporting the record, velocity and displacement of a fresh object (a measure is a pure reader).',
        note='Scaling / sign / zero-padding laws follow from the proved recurrences (induction not mechanised per law). calc_cav_dp: see evidence (bounded or not yet covered).',
        ref='DESIGN.md 7 C09'),
    'C10': dict(
        text='Unbounded proof that calc_sig_dur_vals / calc_sig_dur (Arias and an arbitrary user measure; also on a signal that has already been asked with ANOTHER measure) return dt*first and dt*last index whose cumulative measure lies '
             'STRICTLY between the fractions (definite-description spec independent of np.where), tuple vs difference by se, 0<=start<=end<=duration; calc_brac_dur returns '
             'first/last |a|>thr exceedance, 0 / (None, None) exactly when nothing exceeds.',
        note='Precondition (from the property): some sample lies strictly between the fractions. Scale/shift/widening lemmas are consequences of the index-set characterisation (not separately mechanised).',
        ref='DESIGN.md 7 C10'),
    'C11': dict(
        text='Unbounded proofs of the two building blocks (clean_out_non_changing: kept indices are exactly 0 plus the change points, ascending, values constant in between; '
             'determine_indices_of_peaks_for_cleaned_array: 0, every direction switch, last) plus a bounded symbolic check of the whole get_peak_array_indices / max / min / get_n_cyc_array '
             'pipeline over ALL real-valued (and integer) series of length <= 5 (<= 7 thorough): strictly ascending, begins at 0, ends at the first sample of the final run, monotone '
             'segments with strictly alternating direction, first-of-plateau, max/min selection, cycle counter values.',
        note='The max/min selection and the cycle counter of the whole function are bounded, not proved. The induction schema (base + step => forall) and the generalisation of Skolem constants are applied by the contract (A7).',
        ref='DESIGN.md 7 C11'),
    'C12': dict(
        text='Zero crossings: unbounded proof of soundness (every reported index is 0, a first-of-run exact zero or the first sample after a strict sign change), range, strict ascent and COMPLETENESS '
             '(every such sample is reported; witness position from the where() position functions, the inverse sort permutation and the front insertion); '
             'tol>0 subsequence and the switched-peak clauses (exactly one per excursion at the largest magnitude, no shared strict sign, global |max| included) by bounded symbolic '
             'check over all real/int series of length <= 4 (<= 6 thorough).',
        note='The tolerance clauses and all switched-peak clauses are bounded, not proved.',
        ref='DESIGN.md 7 C12'),
    'C13': dict(
        text='Unbounded proofs for the cleaned-data helpers (entries at peaks equal the change since the previous peak / the signed peak magnitude, zero between peaks, input not written); '
             'bounded symbolic check over all series of length <= 4 (<= 5 thorough), float/int/list inputs, of: zero away from peaks, sum|delta| = total variation, |sum delta| = |end-start|, '
             'pseudo-cyclic sum = TV/2 + (end-start)/2*sign(last move), shift independence, input untouched.',
        note='All whole-function clauses are bounded, not proved.',
        ref='DESIGN.md 7 C13'),
    'C14': dict(
        text='Unbounded proof for interp_array_to_approx_dt in the three regimes (refine / equal / decimate) x even in {T,F}: returned step positive and <= target, dt/new_dt an integer '
             '(refine) or reciprocal integer (decimate), original samples retained at k*f, output a subsequence when decimating, length formula incl. even rule, every output within the input range, input not written.',
        note='Float-only quotient corner (K4) is outside the exact-arithmetic idealisation. resample_to_approx_dt: structure of the SciPy call proved; its label/count inconsistency is known finding K2 (printed as KNOWN-FINDING).',
        ref='DESIGN.md 7 C14'),
    'C17': dict(
        text='butter_pass (tuple/list/ndarray cut-offs, band/low/high, every remove_gibbs option): unbounded proof that exactly one filtfilt() call (and at most one butter() design) is made with the filter type from the None pattern, the cut-off normalised by 0.5/dt, the requested order, the caller\'s cut-off container left unmodified, '
             'the filtered series = the record or start-mean|record|end-mean padded to 2^(ceil(log2 n)+extra), and that the new values are the filter output at the record positions (length and dt preserved); bad cut-offs raise ValueError. '
             'add_constant/add_series/add_signal: element-wise sum, mismatches rejected with the state untouched (unbounded). remove_poly (object and array level, degree 0..4): residual = record minus the degree-k least-squares polynomial (unbounded); '
             'residual has zero best fit, idempotent, unaffected by adding a polynomial first (bounded, exact rational least squares). running_average: mean of the ORIGINAL samples within floor(w/2) positions (bounded).',
        note='Zero phase / |H(f)|^2 gain away from the ends is a property of scipy.signal.butter/filtfilt in an asymptotic regime: not decidable by contracts on eqsig (N). Linearity of the filter rests on SciPy (A2).',
        ref='DESIGN.md 7 C17'),
    'C18': dict(
        text='combine_at_angle: ns*cos(theta)+we*sin(theta) in degrees, theta=0, 90, theta+180, new signal has ns.dt (unbounded, trig identities A4). compute_rotated: angles span the half circle from the offset and each value is the measure of that combination, '
             'for the three ways of naming the measure; ValueError when none is given (unbounded in the record length, 3 angles). Cluster.same_start (2-4 signals, every master index; section windows default, 0..0, 0..1, 0.5..1.5, 1..1, 0..2 s) and Cluster.time_match (two and three signals, every lag combination in {-1, 0, 1} within a window of 2, every master position; values stay arrays, lengths unchanged, compared samples coincide): bounded symbolic.',
        note='Cluster clauses are bounded, not proved.',
        ref='DESIGN.md 7 C18'),
    'C19': dict(
        text='put_array_in_2d_array and join_values_w_shifts / join_sig_w_time_shift: unbounded in the record length for representative shift vectors (positive, mixed, negative, zero) and all clip options: values at exactly the requested offsets, zeros elsewhere, shapes. '
             'get_time_shift_motions, calc_surface_energy, calc_cum_abs_surface_energy: bounded symbolic (n = 3, 4; zero / fractional / integer delays; scalar and per-row reductions; nodal x trim x start x stt): every cell equals the shifted-wave definition (linear interpolation of fractional delays, trapezoid velocity, v|v|/2), output lengths, monotone cumulative measure, zero for tau = 0 at a nodal surface, batch rows equal single results on the common length.',
        note='alpha^2 scaling is a consequence of the proved formula and is not mechanised. Surface functions are bounded, not proved.',
        ref='DESIGN.md 7 C19'),
    'C20': dict(
        text='Complete (loop-free, full-domain symbolic) proofs for the NZS 1170.5 helpers: sd_nzs == c_h_factor*T^2*Z*N*R on every branch of C/D/E, array form == scalar form for array / list / tuple containers of float and integer periods, continuity within 0.5% at every breakpoint, '
             't_eff inverts the corner displacement relation, domain errors raise; bounded symbolic checks (all real inputs, stated sizes) for interp2d, interp_left, calc_roll_av_vals, calc_step_fn_vals_error, calc_step_fn_steps_vals.',
        note='interp2d precondition derived from the code: node spacing >= 1e-10 (the divide-by-zero guard). The array helpers are bounded, not proved.',
        ref='DESIGN.md 7 C20'),
}

HIST = ('Two-call histories: when (and only when) the call under test is seen to leave state behind that outlives it (module-level containers / globals, '
        'memoising decorators such as functools.lru_cache, attributes set on an argument object), the same obligations are generated again for the call '
        'made AFTER an earlier call of the same function with independent symbolic arguments (same kind case and sibling kind cases) and, for module-level '
        'functions, after the SAME call; plus "the earlier result is not overwritten" and "same outcome as on a fresh state" (the latter decided by replay on the real code). ')

# third-round additions (kept apart from the long texts above)
EXTRA_TEXT = {
    'C02': 'Refinement invariance also rests on the response being a function of its arguments only: two-call histories (earlier call with another time step) are part of the check.',
    'C03': 'History unit: read s_a/s_v/s_d, change the record or the response periods through a public operation (11 operations), read again: fresh-object values. Energy spectra are replayed against their defining sums at the requested damping (xi = 0 included).',
    'C04': 'The smoothing settings mean what they say (unbounded, from an arbitrary state incl. stale bookkeeping): smooth_freq_points = k gives k log-spaced points over the range currently in force, smooth_freq_range = (a, b) the current number of points over (a, b), set_smooth_fa_frequecies_by_range and smooth_fa_freqs = f likewise; the smoothed spectrum is dropped.',
    'C05': 'Bounded: Cluster.time_match / same_start on two-signal clusters whose second record may be LONGER than the first (lags -1/0/1, either master, float and int): every signal stays a numeric array with len == npts and time == dt*[0..npts-1]; caller arrays unchanged.',
    'C06': 'Inverse helpers: unbounded, a half spectrum of ANY length m gives back 2m samples and is left untouched; bounded, a spectrum requested with an explicit n that is not a power of two (6, 14; thorough 6..18) comes back with all n samples, exactly reconstructed for n = 6 (reports fixed defect F13 if it returns; the identity 2**(ln x/ln 2) = x is applied to symbolic x only, concrete x is evaluated in float64). calc_fa_spectrum with every p2_plus in 0..3 as its own case (0 is falsy). History unit: read the spectrum, change the record through a public operation (8-11 operations, Signal and AccSignal), read again: fresh-object spectrum.',
    'C07': 'History unit: read the smoothed spectrum, change the record or the smoothing frequencies through a public operation (12 operations incl. set_smooth_fa_frequecies_by_range), read again: fresh-object values.',
    'C08': 'History unit (unbounded): read velocity, displacement, PGA, PGV, PGD, change the record through one of 13 public operations, read again: the values of a freshly constructed object with the new record.',
    'C09': 'Every measure is run on float AND integer-dtype records.',
    'C11': 'Unbounded and modular (any length, float and int): get_peak_array_indices executed with clean_out_non_changing and determine_indices_of_peaks_for_cleaned_array used through their proved contracts: '
           'reported indices = kept indices of the cleaned peaks, begin at 0, strictly ascending, end at the first sample of the final constant run, each later index is the first sample of its plateau, '
           'the series is monotone with a strict net movement between consecutive reported indices and the direction alternates from segment to segment (three inductions over the contracts, linear arithmetic, hand-picked instances).',
    'C13': 'Bounded (n = 2, 3; thorough up to 5; float and int records; b in (0.05, 1], n_cyc > 0, a_ref > 0 symbolic): calc_cyc_amp_array_w_power_law = (sum over the half-cycle peaks of p**(1/b) / (2 n_cyc))**b at every sample and non-decreasing; '
           'calc_n_cyc_array_w_power_law (cut_off = 0, records without exact zeros) = running sum of 0.5/(a_ref/p)**(1/b), non-decreasing; inverse law amplitude(N = cycles(a_ref)) = a_ref (up to two half cycles); '
           'two identical components give 2**b times (combined) / exactly (geometric mean) the single-component amplitude. Power laws used: (x y)**e = x**e y**e, (x**(1/b))**b = x, monotonicity (A4, instantiated in the contract).',
    'C12': 'The tolerance-subsequence clause of the switched peaks is split: for tolerances that do not exceed the peak of any zero-tolerance half cycle it holds on the unchanged code and is checked (bounded); above that it is known finding K5.',
    'C14': 'resample_to_approx_dt: the record itself (same length, same values) is what scipy.signal.resample is called on and the returned values are exactly its result.',
    'C15': 'Two-call histories: a transform returned earlier is not overwritten by a later transform. Unbounded (any length, even and odd): transform and transform_w_scipy_fft return cell-wise equal arrays of shape (n//2, 2(n//2)) (one uninterpreted row-wise inverse DFT of the same product); thorough tier: the same at n = 258 (129 = 128 + 1 rows) with uninterpreted kernels.',
    'C16': 'Two-call histories: a path that was saved to and loaded from before (other record, time step, label) loads back what was saved last.',
    'C17': 'running_average for widths 1..9 (thorough ..25) incl. windows longer than the record. The coefficients handed to filtfilt are the Butterworth design of THIS request (uninterpreted design function of (type, order, cut-offs): congruent, so a correctly keyed design cache verifies and a cache that ignores the filter type fails), also after an earlier request of another kind on another signal.',
    'C19': 'Two-call histories: the same call made twice on the same signal gives the same result.',
}
EXTRA_NOTE = {
    'C13': 'cut_off > 0 (small peaks replaced by 1e-14 in the cycle count only) makes the inverse law approximate: not decided. Scaling laws follow from the defining formulas and the power laws (not mechanised). Scalar b only.',
}
HIST_PROPS = {'C01', 'C02', 'C03', 'C06', 'C07', 'C08', 'C09', 'C10', 'C11', 'C12', 'C13', 'C14', 'C15', 'C16', 'C17', 'C18', 'C19', 'C20', 'C05'}

NOT_YET = {
}

ALL = ['C%02d' % k for k in range(1, 21)]


def main():
    checks = []
    for pid in ALL:
        if pid not in CLAIMED:
            continue
        c = CLAIMED[pid]
        checks.append({
            'property_id': pid,
            'quick_cmd': './check %s --tier quick' % pid,
            'thorough_cmd': './check %s --tier thorough' % pid,
            'evidence_file': 'evidence/%s.json' % pid,
            'replay_cmd_template': './check %s --replay {path}' % pid,
            'engine': 'pyvc',
            'level_claimed': {'category': 'proof', 'text': (c['text'] + (' ' + EXTRA_TEXT[pid] if pid in EXTRA_TEXT else '')), 'design_ref': c['ref']},
            'level_note': COMMON_NOTE + (HIST if pid in HIST_PROPS else '') + c['note'] + (' ' + EXTRA_NOTE[pid] if pid in EXTRA_NOTE else ''),
            'technique': TECH,
        })
    na = []
    for pid in ALL:
        if pid in CLAIMED:
            continue
        na.append({'property_id': pid, 'reason': NOT_YET.get(pid, 'not yet claimed: contracts for this property are still being built (DESIGN.md section 11); no check is registered so nothing is asserted about it')})
    man = {
        'version': 1,
        'setup_cmd': './setup.sh',
        'hooks': {
            'guard': 'ENG_TOOLS_EQSIG_VERIF',
            'enable': 'no hooks: the checks read /repo working-tree sources with ast and import the installed (editable) package for replay; nothing in /repo is instrumented',
            'baseline_off_cmd': 'cd /repo && /venv/bin/python -m pytest -ra -q -p no:cacheprovider --timeout=900 --continue-on-collection-errors',
            'source_commits': [],
            'add_only': True,
        },
        'engines': [{'name': 'pyvc', 'path': 'pyvc/', 'serves_properties': sorted(CLAIMED),
                     'kind_free_text': 'own VC generator: AST symbolic executor over the real eqsig sources + sidecar contracts (contracts/), z3/cvc5 back ends'}],
        'checks': checks,
        'notes': 'Each check exits 0 (held) / 1 (VIOLATION line) / 2 (UNDECIDED: solver gave no verdict) / 3 (checker error). Genuine defects repaired in /repo by fix: commits are listed in known_findings.json.',
        'not_applicable': na,
    }
    json.dump(man, open(os.path.join(HERE, 'MANIFEST.json'), 'w'), indent=1)
    print('MANIFEST.json: %d checks, %d not_applicable' % (len(checks), len(na)))


if __name__ == '__main__':
    main()

"""Developer aid: run one case of one unit and summarise."""
import sys, time; sys.path.insert(0, '/verif')
from pyvc import driver, api
prop = sys.argv[1]
units = driver.load_contracts(prop)
u = [x for x in units if x['name'] == sys.argv[2]][0]
case = eval(sys.argv[3])
V = api.Verifier(u, case, sys.argv[4] if len(sys.argv) > 4 else "unbounded", eval(sys.argv[5]) if len(sys.argv) > 5 else {}, int(sys.argv[6]) if len(sys.argv) > 6 else 5000)
t = time.time()
u['fn'](V, **case)
print('time', round(time.time() - t, 1), 'paths', V.paths_seen, len(V.records))
bad = {}
for r in V.records:
    if r['verdict'] != 'proved':
        bad.setdefault((r['verdict'], r['clause']), 0); bad[(r['verdict'], r['clause'])] += 1
print(bad)

#!/bin/sh
# usage: tools/seeded_matrix.sh [seed-id ...]   -- applies each seeded change to /repo, runs the check of its property, reverts; prints one line each
cd /verif
ids="$@"; [ -z "$ids" ] && ids=$(ls seeded)
for sid in $ids; do
  prop=$(python3 -c "import json;print(json.load(open('seeded/$sid/meta.json'))['property'])")
  git -C /repo apply /verif/seeded/$sid/patch.diff || { echo "$sid: patch does not apply"; continue; }
  t0=$(date +%s)
  ./check $prop > /tmp/matrix_$sid.txt 2>&1; ec=$?
  t1=$(date +%s)
  git -C /repo checkout -- .
  nv=$(grep -c "^VIOLATION" /tmp/matrix_$sid.txt); nr=$(grep "^VIOLATION" /tmp/matrix_$sid.txt | grep -vc "no-failing-input-found")
  echo "$sid: ./check $prop exit $ec, $nv VIOLATION lines ($nr with a replayed failing input), $((t1-t0)) s"
done
git -C /repo status --short

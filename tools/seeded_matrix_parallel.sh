#!/bin/sh
# usage: tools/seeded_matrix_parallel.sh [-j N] [seed-id ...]
# Runs every seeded change on its OWN scratch worktree of /repo (never on /repo itself): PYVC_REPO points the verifier at the worktree,
# PYTHONPATH makes the replays import the worktree's eqsig.  N changes at a time (default 4), each check with --jobs 4.
# Evidence / replay files of concurrent runs of the same property overwrite each other: only the summary lines are meaningful here.
J=4
if [ "$1" = "-j" ]; then J="$2"; shift; shift; fi
cd /verif
ids="$@"; [ -z "$ids" ] && ids=$(ls seeded | grep -v MATRIX)
one() {
  sid="$1"
  prop=$(python3 -c "import json;print(json.load(open('/verif/seeded/$sid/meta.json'))['property'])")
  wt=/tmp/mx_$sid
  git -C /repo worktree add --detach "$wt" HEAD >/dev/null 2>&1 || { echo "$sid: cannot create worktree"; return; }
  if git -C "$wt" apply /verif/seeded/$sid/patch.diff 2>/dev/null; then
    t0=$(date +%s)
    PYVC_REPO="$wt" PYTHONPATH="$wt" ./check $prop --jobs 4 > /tmp/matrix_$sid.txt 2>&1; ec=$?
    t1=$(date +%s)
    nv=$(grep -c "^VIOLATION" /tmp/matrix_$sid.txt); nr=$(grep "^VIOLATION" /tmp/matrix_$sid.txt | grep -vc "no-failing-input-found")
    echo "$sid: ./check $prop exit $ec, $nv VIOLATION lines ($nr with a replayed failing input), $((t1-t0)) s"
  else
    echo "$sid: patch does not apply"
  fi
  git -C /repo worktree remove --force "$wt" >/dev/null 2>&1
}
n=0
for sid in $ids; do
  one "$sid" &
  n=$((n+1))
  if [ $n -ge $J ]; then wait; n=0; fi
done
wait
git -C /repo worktree prune

#!/bin/sh
# usage: tools/store_mutant.sh <seed-id> <pid> <worktree> "<needs>" "<detected-by>"
sid="$1"; pid="$2"; wt="$3"; needs="$4"; det="$5"
d=/verif/seeded/$sid; mkdir -p $d
cp $wt/patch_$pid.diff $d/patch.diff; cp $wt/demo_$pid.py $d/demo.py
python3 - "$sid" "$pid" "$needs" "$det" <<'PY'
import json,sys
sid,pid,needs,det=sys.argv[1:5]
json.dump({"seed_id":sid,"property":pid,"breaks":pid,"needs_to_manifest":needs,
 "confirmed":"in the sub-agent's scratch worktree: 63/63 tests pass with the change; demo.py exits 1 with the change and 0 without it (tools/confirm_mutant.sh)",
 "how_run":"git -C /repo apply seeded/%s/patch.diff; ./check %s; git -C /repo checkout -- ."%(sid,pid),
 "result":det},open('/verif/seeded/%s/meta.json'%sid,'w'),indent=1)
PY
echo stored $d

#!/bin/sh
# usage: tools/try_mutant.sh <prop> <file-under-/repo> <sed-expression>   -- applies, runs quick check, reverts
prop="$1"; f="$2"; expr="$3"
cd /repo && sed -i "$expr" "$f" && git diff --stat | tail -1
cd /verif && ./check "$prop" 2>&1 | grep -E "VIOLATION|UNDECIDED|CHECKER|exit" | cut -c1-260 | head -${4:-6}
cd /repo && git checkout -- . 

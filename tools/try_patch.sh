#!/bin/sh
# usage: tools/try_patch.sh <prop> <absolute-patch-file> [n-lines] [extra check args]  -- applies the patch to /repo, runs the quick check, reverts
prop="$1"; pf="$2"; n="${3:-8}"; shift; shift; shift
git -C /repo apply "$pf" || exit 2
cd /verif && ./check "$prop" "$@" > /tmp/try_$prop.txt 2>&1; ec=$?
git -C /repo checkout -- .
echo "check exit $ec"
grep -E "^VIOLATION|^UNDECIDED|^CHECKER|^KNOWN" /tmp/try_$prop.txt | cut -c1-300 | head -$n
tail -2 /tmp/try_$prop.txt | cut -c1-250
git -C /repo status --short | head -3
